#!/usr/bin/env python3
"""Regenerate the seeded-changes table of DESIGN.md (Part A, §A.7) from /verif/seeded/*/meta.json."""
import glob, json, os, re
V = os.path.dirname(os.path.dirname(os.path.abspath(__file__)))
rows = []
for d in sorted(glob.glob(os.path.join(V, 'seeded', '*'))):
    m = json.load(open(os.path.join(d, 'meta.json')))
    sid = os.path.basename(d)
    brk = re.sub(r'\s+', ' ', m.get('breaks') or '')
    rows.append('| %s | %s | %s |' % (sid, (brk[:260] + ('…' if len(brk) > 260 else '')).replace('|', '\\|'), (m.get('check_outcome') or '').replace('|', '\\|')))
text = ('Each change compiles, keeps the pinned suite green (33 tests incl. doctests) and has a demonstration test that fails with it and\n'
        'passes without it; each was confirmed by me in its worktree before being kept (`seeded/<id>/meta.json`: what it breaks, what it\n'
        'needs to manifest, what I ran). "witness" = the contract proof was UNDECIDED after the rewrite (lost anchor / construct outside the\n'
        'rules) or failed, and the native search produced a failing input that replays on the real code.\n\n'
        '| Seed | What it breaks | Outcome of the registered check(s) |\n|---|---|---|\n' + '\n'.join(rows) + '\n')
p = os.path.join(V, 'DESIGN.md')
s = open(p).read()
a = s.index('### A.7 Seeded property-breaking changes')
b = s.index('### A.8 not_applicable')
head = s[a:].split('\n', 2)
s = s[:a] + head[0] + '\n\n' + text + '\n' + s[b:]
open(p, 'w').write(s)
print('%d seeds tabulated' % len(rows))
