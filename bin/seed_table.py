#!/usr/bin/env python3
"""Regenerate the seeded-changes table of DESIGN.md (Part A, §A.7) from /verif/seeded/*/meta.json."""
import glob, json, os, re
V = os.path.dirname(os.path.dirname(os.path.abspath(__file__)))
rows = []
for d in sorted(glob.glob(os.path.join(V, 'seeded', '*'))):
    if not os.path.isdir(d):
        continue
    m = json.load(open(os.path.join(d, 'meta.json')))
    sid = os.path.basename(d)
    brk = re.sub(r'\s+', ' ', m.get('breaks') or '')
    rows.append('| %s | %s | %s |' % (sid, (brk[:260] + ('…' if len(brk) > 260 else '')).replace('|', '\\|'), (m.get('check_outcome') or '').replace('|', '\\|')))
text = ('Each change compiles, keeps the pinned suite green (33 tests incl. doctests) and has a demonstration test that fails with it and\n'
        'passes without it; each was confirmed by me in its worktree before being kept (`seeded/<id>/meta.json`: what it breaks, what it\n'
        'needs to manifest, what I ran). "witness" = the contract proof was UNDECIDED after the rewrite (lost anchor / construct outside the\n'
        'rules) or failed, and the native search produced a failing input that replays on the real code.  Seeds -1/-2 are the first round,\n'
        '-3/-4 a second, -5/-6 a third, -7/-8 a fourth, -9/-10 a fifth, -11/-12 a sixth and -13/-14 a seventh round by fresh sub-agents after the checks had been strengthened; the recorded outcome is that of the FINAL machinery.\n'
        'First-pass misses and what was strengthened: round 1 - C03-2 (push_null ownership), C17-2 / C08-2 (label ownership), C12-1 (ubjson unit),\n'
        'C13-2 (Frame-level transpose_one contracts), C05-1/2, C16-1/2, C19-1/2, C09-2 (no native fallback yet: c05/c16/c19/c09 oracles added),\n'
        'C02-1 (70000-frame candidates added), C07-2 (C07 now owns the reader-acceptance clause); round 2 - C06-4 (C06 now owns the Game Start\n'
        'parser, unterminated / half-character text-field corruptions added), C10-4 (zero-frame candidates added), C13-4 (row view checked\n'
        'mid-stream); round 3 (-5/-6, again fresh sub-agents) - C02-6 (fragmented .slpp read added to the c02 oracle), C04-5 (end-of-stream\n'
        'close clause added to reader::read, owned by C04), C08-5 (whole-function ownership: every clause of parse_event__other/__splitter\n'
        'now counts for C08), C16-6 (C16 owns the tail clauses of read; zero-raw-length variant in the c16 oracle).  Everything else was caught\n'
        'on the first pass; round 4 (-7/-8) - C05-8 (start blocks whose version bytes are older than their length class added to the c05 oracle),\n'
        'C06-8 (no-occupied-port corruption added), C07-7 (hang watchdog and denser tail offsets for the .slp truncation search), C10-8 (completeness\n'
        'clause: the skip is refused ONLY without room for a Game End), C17-8 (C17 now owns the end-of-stream close clauses of the reader).\n'
        'Round 5 (-9/-10; the agents were asked to break DIFFERENT clauses in DIFFERENT functions, in the least exercised corners) - C04-10 (a\n'
        'same-id rollback in 2.2-2.x whose first occurrence lacks a character: frame histories 7 (same-id rollback with an absence) and 8 (Ice\n'
        'Climbers leader absent while the follower is present, absence in the very first row) added to the candidate set), C07-9 (a hang only\n'
        'with skip-frames AND hashing on a truncated file: the .slp truncation search now reads every prefix under all four option combinations),\n'
        'C18-9 (unknown archive members with non-UTF-8 / directory / nested names added to the c18 oracle), C16-10 was caught by the native search\n'
        'only although a contract existed (read_peppi_metadata in the slpp unit): C16 now owns those clauses.  In this round 28 of 40 seeds\n'
        'restructured the code enough for an extraction anchor to be lost (contract proof UNDECIDED) and were caught by the native exploration;\n'
        'that is what prompted the completeness clauses of A.2.\n'
        'Round 6 (-11/-12; the agents were asked for SMALL LOCAL slips of 1-5 lines - a flipped or off-by-one comparison, a wrong constant, field or\n'
        'threshold, a dropped statement - that keep the code structure, i.e. the kind of change contracts should see without the native fallback):\n'
        '26 of 40 failed a named obligation on the first pass (31 with the final machinery); 14 were caught by the native exploration (11 because the\n'
        'seed introduces a construct outside the shims or loses an anchor, 3 because no clause of the property\'s own contracts spoke about the change).  First-pass misses and what was\n'
        'done: C02-11 (the .slp writer marks no Gecko block final when the list fills its last block: the c02 oracle used to leave a parsed game\n'
        'that does not serialise to the original bytes to C01 - it now compares with the original bytes, as the property says), C08-11 (u16 overflow\n'
        'for an unknown event declaring 65535 bytes: unknown-event sizes 1 / 5 / 700 / 65535 in the c08 and c06 oracles, the replay crate is built with\n'
        'overflow checks, and a reader panic on a well-formed generated input now counts against the property under test, not only against C06),\n'
        'C12-12 (the row view of a completed frame while the next is open: C12 now owns the in-progress row-view contracts and runs the c13 and c08\n'
        'searches), C18-11 (a game with exactly ONE frame lost its frames.arrow: single-frame history 10 added).  Strengthened although caught:\n'
        'C07-11 (the top-level closing brace dropped after a metadata element: the old clause was satisfied by the metadata map\'s own brace - new\n'
        'clause C07.top_level_brace_after_metadata), C04-11 / C09-11 (hint anchors that quoted a constant or sat on a statement the seed moved:\n'
        'prefix anchors and the body-start anchor `^`), C17-12 (C17 now owns gecko_codes).\n'
        'Round 7 (-13/-14; small local slips again, but the agents were told to AVOID the obvious function and aim at secondary code the property\n'
        'still depends on - conversions, accessors, trait impls, constants, helpers several calls away, serde attributes): 18 of 40 failed a named\n'
        'obligation on the first pass, 22 were caught by the native exploration (15 with the contract proof undecided, 7 where the failing clause\n'
        'belonged to another property\'s ownership or no contract spoke about the change, e.g. a serde `skip_serializing_if` attribute).  First-pass\n'
        'misses and what was done: C10-14 (HashingReader::seek reading through short hops with a single `read`: the skip-frames oracle now also\n'
        'reads through seekable readers that return short reads; C10 owns the hash unit\'s seek), C14-14 (leader validity moved up to the port-level\n'
        'struct: the c14 oracle now requires the enclosing structs to carry no nulls), C15-13 (Frame::len derived from the item offsets: row masks\n'
        'are now also checked on frames whose last row was opened but never closed), C17-14 (a character-count length prefix for non-ASCII metadata\n'
        'under C17: C17 now runs the c16 search), C18-13 (end.raw read with a single `read`: the c18 oracle now also reads every archive through\n'
        '1- and 5-byte reads).  Ownership widened although caught natively: End::size (C01, C17), the immutable row view (C03), the version gates\n'
        '(C04), the writer\'s payload table (C10); the text-field conjuncts of the player contract restated under C19 labels (C19-13).\n'
        'First-pass detection: round 1 26/40, round 2 37/40, round 3 36/40, round 4 35/40, round 5 37/40, round 6 36/40, round 7 35/40; 280 of 280\n'
        'with the final machinery (`seeded/SELFTEST_final.txt`: replay of the first 160 against the quick checks of that time;\n'
        '`seeded/SELFTEST_sample_final.txt`: 60 of those replayed again after round 6, 60 of 60; `seeded/RUN_LOG5.txt`, `RUN_LOG6.txt`, `RUN_LOG7.txt`).\n\n'
        '| Seed | What it breaks | Outcome of the registered check(s) |\n|---|---|---|\n' + '\n'.join(rows) + '\n')
p = os.path.join(V, 'DESIGN.md')
s = open(p).read()
a = s.index('### A.7 Seeded property-breaking changes')
b = s.index('### A.8 not_applicable')
head = s[a:].split('\n', 2)
s = s[:a] + head[0] + '\n\n' + text + '\n' + s[b:]
open(p, 'w').write(s)
print('%d seeds tabulated' % len(rows))
