#!/usr/bin/env python3
"""Regenerate MANIFEST.json from bin/vp/registry.py + bin/vp/manifest_text.py (keeps it valid by construction)."""
import json, os, sys
HERE = os.path.dirname(os.path.abspath(__file__))
sys.path.insert(0, HERE)
from vp import registry, manifest_text as T

checks = []
for pid in sorted(registry.PROPS):
    t = T.TEXT[pid]
    checks.append(dict(
        property_id=pid,
        quick_cmd='bin/check %s --tier quick' % pid,
        thorough_cmd='bin/check %s --tier thorough' % pid,
        evidence_file='/verif/evidence/%s.json' % pid,
        replay_cmd_template='bin/check %s --replay {path}' % pid,
        engine=t.get('engine', 'verus'),
        level_claimed=dict(category='proof', text=t['level'], design_ref=t.get('design_ref', 'DESIGN.md §5')),
        level_note=t['note'],
        technique=t['technique'],
    ))
na = [dict(property_id=p, reason=r) for p, r in sorted(T.NOT_APPLICABLE.items()) if p not in registry.PROPS]
m = dict(
    version=1,
    setup_cmd='bin/setup',
    hooks=dict(guard='hohav_peppi_verif', enable='RUSTFLAGS="--cfg hohav_peppi_verif" (set by bin/vp/kani.py and the replayer when they build /repo as a path dependency)',
               baseline_off_cmd='cd /repo && cargo test --workspace --no-fail-fast --offline',
               source_commits=T.HOOK_COMMITS, add_only=True),
    engines=[dict(name='verus', path='bin/vp/verus.py', serves_properties=[p for p in sorted(registry.PROPS) if registry.PROPS[p]['units']],
                  kind_free_text='contract-based deductive verification (Verus/Z3) of functions extracted mechanically from /repo on every run'),
             dict(name='kani', path='bin/vp/kani.py', serves_properties=[p for p in sorted(registry.PROPS) if registry.PROPS[p].get('kani')],
                  kind_free_text='Kani/CBMC harnesses on the real crate (path dependency): loop-free full-domain harnesses are complete proofs; bounded ones are labelled')],
    checks=checks,
    notes=T.NOTES,
    not_applicable=na,
)
json.dump(m, open(os.path.join(os.path.dirname(HERE), 'MANIFEST.json'), 'w'), indent=1)
print('MANIFEST.json: %d checks, %d not_applicable' % (len(checks), len(na)))
