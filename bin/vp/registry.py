"""Which units decide which property, and which functions of a shared unit each property owns.

PROPS[id] = dict(
   units  = [(unit, owns_regex)]   a failed obligation in `unit` is attributed to the property iff the
                                   qualified function name or the clause label matches owns_regex
   kani   = [harness names]        (quick tier: only those flagged quick)
   title, level_note ...
)
UNITS[name] = dict(module=..., rlimit=..., timeout=...)
"""

UNITS = {
    'codec_mut': dict(module='units.codec_mut', rlimit=150, timeout=300),
    'codec_imm': dict(module='units.codec_imm', rlimit=150, timeout=300),
    'ser': dict(module='units.ser', rlimit=150, timeout=600),
    'event': dict(module='units.event', rlimit=200, timeout=900, expand=False),
    'reader': dict(module='units.reader', rlimit=200, timeout=900),
    'startend': dict(module='units.startend', rlimit=150, timeout=600, expand=False),
    'ubjson': dict(module='units.ubjson', rlimit=150, timeout=600),
    'hash': dict(module='units.hash', rlimit=50, timeout=300),
    'rollback': dict(module='units.rollback', rlimit=50, timeout=300),
    'arrow': dict(module='units.arrow', rlimit=150, timeout=600),
    'slpp': dict(module='units.slpp', rlimit=150, timeout=600),
    'verstr': dict(module='units.verstr', rlimit=50, timeout=300),
}

PROPS = {
    'C03': dict(
        units=[('codec_mut', r'(with_capacity|read_push|push_null|Version\.|impl Version)'), ('event', r'(parse_event__(pre|post|start|item|end)|C03)'), ('codec_imm', r'(transpose_one)')],
        kani=['kshim_byteorder_be', 'kcodec_start_read_push', 'kcodec_end_read_push', 'kcodec_pre_read_push', 'kcodec_item_read_push', 'kcodec_post_read_push'],
    ),
    'C01': dict(
        units=[('ser', r'(write|payload_sizes|gecko_codes|game_start|game_end|PayloadSizes|frame_counts|C01|Frame::len|End::size|game\.End\.size)'),
               ('codec_imm', r'(write|size|from|emit|encode_decode|lemma_|C12\.finished_columns)'),
               ('codec_mut', r'(read_push|with_capacity|push_null)'),
               ('event', r'(C04\.|C03\.|C12\.|C08\.sized_event_accepted|parse_event__(pre|post|start|item|end|other|splitter)|frame_close$|frame_open|End::size|game\.End\.size)'),
               ('reader', r'(^read$|^parse_start|^parse_header|^parse_payloads|^parse_game_start|expect_bytes|C12\.|C01\.|C08\.)')],
        kani=['kshim_byteorder_be', 'kshim_byteorder_write_be'],
    ),
    'C16': dict(
        units=[('ubjson', r'(C16|write_utf8|write_map|to_utf8|to_val|to_key|read_map|lemma_)'), ('reader', r'(C16|^parse_metadata|C07\.ok_only_after_closing_brace|C07\.no_eof_swallowed_before_tail)'), ('ser', r'(C01\.file_layout)'),
               ('slpp', r'(read_peppi_metadata|C02\.metadata_null_is_none|C18\.game\.metadata|C02\.roundtrip\.metadata|C16)')],
        kani=[],
    ),
    'C17': dict(
        units=[('reader', r'(C04\.last_frame_closed_at_end_of_stream|C01\.duplicate_game_end|C01\.no_event_parsed|C01\.tail_content)'), ('event', r'(frame_close|C04\.closed_frame_is_level|C04\.every_column_one_entry_per_row)'),
               ('ser', r'(raw_size|frame_counts|gecko_codes_size|gecko_codes$|End::size|game\.End\.size|payload_sizes|PayloadSizes|lemma_|emit_len|C17|Frame::write|::write$|Frame::len|C01\.payload_table|C01\.file_layout|C01\.frames_canonical_order|C01\.gecko_blocks)')],
        kani=[],
    ),
    'C04': dict(
        units=[('event', r'(parse_event|frame_close|frame_open|last_id|with_capacity|push_null|Data::len|PortData::len|Frame::len|lemma_|C04)', r'(parse_event__(pre|post|start|item|end)|frame_close|frame_open)$'),
               ('codec_mut', r'(push_null|with_capacity|impl Version|Version::)'), ('reader', r'(C04)'), ('codec_imm', r'(C12\.finished_columns|from__(Data|PortData|Frame)$)')],
        kani=[],
    ),
    'C05': dict(
        units=[('startend', r'(game_start|game_end|player|if_more|C05)')],
        kani=['k_player_bytes_8_4'],
    ),
    'C19': dict(
        units=[('startend', r'(try_from|lemma_nul_len|C19|^player$|to_normalized|lemma_fix_char|^fix_char$)')],
        kani=['c19_fix_char'],
    ),
    'C06': dict(
        units=[('event', r'(__total|port_index|C06)'), ('reader', r'(^read$|^parse_|expect_bytes|port_occupancy|from__partial_game|C06)'),
               ('ubjson', r'(C06|to_utf8|to_val|to_key|read_map)'),
               ('startend', r'(C06|game_start|game_end|^player|player_end|try_from|if_more)')],
        kani=[],
    ),
    'C07': dict(
        units=[('reader', r'(C07|^read$|^parse_header|^parse_payloads|^parse_game_start|^parse_start|^parse_metadata|expect_bytes)'), ('event', r'(C07|parse_event__total)'), ('ubjson', r'(C07)'), ('slpp', r'(C07|read_arrow_frames|(^|::)read$|C18\.reader_accepts_exactly|C18\.reader_dispatch)')],
        kani=[],
    ),
    'C12': dict(
        units=[('reader', r'(C12|^read$|^parse_header|^parse_start|^parse_metadata|from__partial_game)'), ('event', r'(C12|parse_event__total|frame_open|transpose_one|frame__view|C13\.in_progress|ParseState::bytes_read$|ParseState::frames$|(len|start|end|gecko_codes)__view$)'), ('ubjson', r'(C12|to_utf8)'), ('codec_imm', r'(C12|from__(Data|PortData|Frame)$)')],
        kani=[],
    ),
    'C10': dict(
        units=[('reader', r'(C10|^read$|^parse_start)'), ('slpp', r'(C10|lemma_skip_frames|(^|::)read$)'), ('hash', r'(C10|seek)'), ('ser', r'(payload_sizes$|C01\.payload_table|C01\.payload_entry)')],
        kani=[],
    ),
    'C08': dict(
        units=[('event', r'(parse_event__other|parse_event__splitter|C08)', r'parse_event__(other|splitter)$'), ('codec_mut', r'(read_push)'), ('reader', r'(C08\.|^parse_payloads|C10\.skip_lands_on_game_end)'), ('startend', r'(if_more|C05\.tail|C05\.length_classes)')],
        kani=[],
    ),
    'C09': dict(
        units=[('ser', r'(C09|write__c09)'), ('slpp', r'(C09)')],
        kani=['c09_assert_max_version'],
    ),
    'C20': dict(
        units=[('codec_mut', r'(Version)'), ('verstr', r'(from_str|fmt|lemma_display|C20)')],
        kani=['c20_version_gte_lt', 'c20_gate_monotone', 'c20_parse_u8_len4'],
    ),
    'C15': dict(
        units=[('rollback', r'(rollbacks|C15|Frame::len)')],
        kani=[],
    ),
    'C11': dict(
        units=[('hash', r'(HashingReader|format_hash|C11|::new|into_digest|seek|::read$)'), ('reader', r'(C11|^read$)'), ('slpp', r'(C11)')],
        kani=[],
    ),
    'C18': dict(
        units=[('slpp', r'(tar_append|(^|::)write$|(^|::)read$|read_peppi|lemma_unknown|lemma_run_|C18)')],
        kani=['c18_assert_current_version'],
    ),
    'C02': dict(
        units=[('slpp', r'(tar_append|(^|::)write$|(^|::)read$|read_peppi|read_arrow_frames|lemma_slpp_roundtrip|lemma_run_concat|lemma_names|C02|C18\.)'),
               ('arrow', r'(into_struct_array|from_struct_array|lemma_arrow_roundtrip|C14\.(export|import|roundtrip)|arrow2\.)')],
        kani=[],
    ),
    'C14': dict(
        units=[('arrow', r'(data_type|into_struct_array|from_struct_array|port_data_type|item_data_type|lemma_arrow|C14|arrow2\.)')],
        kani=[],
    ),
    'C13': dict(
        units=[('codec_mut', r'(transpose_one)'), ('codec_imm', r'(transpose_one)'),
               ('event', r'(transpose_one|frame__view|C13)'), ('ser', r'(transpose_one|__view$|C13)')],
        kani=[],
    ),
}

COMMON_ASSUMPTIONS = [
    'the extractor and its rewrite rules preserve semantics (rule log in coverage.extraction)',
    'machine integers are NOT treated as mathematical: Verus overflow/underflow checks are on',
    'f32 is carried as its bit pattern (f32_from_bits / f32_bits uninterpreted)',
]
