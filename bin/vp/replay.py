"""bin/check <id> --replay <file>: re-run the recorded failing input against the real code."""
import json
from . import witness


def run(prop, path, repo):
    rec = json.load(open(path))
    inp = rec.get('input')
    if not inp or 'replay_argv' not in inp:
        print('replay: %s carries no failing input (obligation %s of %s); verifier output follows' % (path, rec.get('obligation'), rec.get('function')))
        print(rec.get('verifier_output', '')[:3000])
        return 1
    rc, out = witness.run_replay(repo, inp['replay_argv'])
    print(out[-3000:])
    if rc != 0:
        print('VIOLATION property=%s replay=%s' % (prop, path))
        return 1
    print('replay: clause holds on the recorded input against the current tree')
    return 0
