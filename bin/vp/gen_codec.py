"""Generate the contract template for the generated frame codecs (mutable.rs / immutable) from
the independent layout table spec/frame_layout.json and the *real* struct definitions.

Oracle = the table (offset, type, introducing version per leaf path).  The real struct
definitions only contribute the list of field names and their declared types; a field the table
does not know, or a table path with no field, is an error (=> UNDECIDED).
"""
import json
import os
import re
from .rustsrc import Src, strip_attrs_and_docs, struct_fields, LostAnchor

VERIF = os.path.dirname(os.path.dirname(os.path.dirname(os.path.abspath(__file__))))
SIZES = {'u8': 1, 'i8': 1, 'u16': 2, 'i16': 2, 'u32': 4, 'i32': 4, 'f32': 4}
TOP = ['Pre', 'Post', 'Start', 'End', 'Item']
ORDER = ['End', 'Item', 'ItemMisc', 'Position', 'Post', 'Pre', 'Start', 'StateFlags', 'TriggersPhysical', 'Velocities', 'Velocity']


class GenError(LostAnchor):
    pass


def load_table():
    return json.load(open(os.path.join(VERIF, 'spec', 'frame_layout.json')))


class Field:
    def __init__(self, name, kind, ty, since, off, size, sub=None):
        self.name = name      # real field name (may be r#type or tuple index)
        self.kind = kind      # 'prim' | 'sub' | 'validity'
        self.ty = ty          # primitive type or sub-struct name
        self.since = since    # None or (M, m)
        self.off = off        # offset relative to the struct start
        self.size = size      # bytes (sub: full size; all sub leaves share the gate)
        self.opt = since is not None

    @property
    def acc(self):
        return self.name


def build_layouts(repo, relpath, prim_wrapper, bitmap_ty):
    """Return {struct name: [Field]} for all 11 codec structs, combining real field lists with the table."""
    table = load_table()['structs']
    src = Src(os.path.join(repo, relpath))
    real = {}
    for s in ORDER:
        a, b = src.find_struct(s)
        real[s] = struct_fields(strip_attrs_and_docs(src.text[a:b]))
    layouts = {}

    def parse_ty(ty):
        """-> (optional?, kind, inner)"""
        t = re.sub(r'\s+', '', ty)
        opt = False
        m = re.fullmatch(r'Option<(.*)>', t)
        if m:
            opt, t = True, m.group(1)
        m = re.fullmatch(re.escape(prim_wrapper) + r'<(\w+)>', t)
        if m:
            return opt, 'prim', m.group(1)
        if t == bitmap_ty:
            return opt, 'validity', None
        if t in real:
            return opt, 'sub', t
        raise GenError('unrecognised field type %s in %s' % (ty, relpath))

    def layout(sname, leaves):
        """leaves: list of (relpath, type, reloff, since) for this struct instance, in table order."""
        if sname in layouts:
            prev = layouts[sname]['leaves']
            norm = [(p, t, o) for p, t, o, s in leaves]
            if norm != [(p, t, o) for p, t, o, s in prev]:
                raise GenError('sub-struct %s is used with inconsistent layouts in the table' % sname)
            return
        fields = []
        used = set()
        for fname, fty in real[sname]:
            opt, kind, inner = parse_ty(fty)
            key = fname[2:] if fname.startswith('r#') else fname
            if kind == 'validity':
                if key != 'validity' or not opt:
                    raise GenError('unexpected bitmap field %s.%s' % (sname, fname))
                fields.append(Field(fname, 'validity', None, None, None, 0))
                continue
            if kind == 'prim':
                hit = [l for l in leaves if l[0] == key]
                if len(hit) != 1:
                    raise GenError('field %s.%s has no unique row in the spec table' % (sname, fname))
                p, t, o, since = hit[0]
                if t != inner:
                    raise GenError('field %s.%s: column type %s but the spec says %s' % (sname, fname, inner, t))
                if opt != (since is not None):
                    raise GenError('field %s.%s: optionality disagrees with the spec table' % (sname, fname))
                fields.append(Field(fname, 'prim', t, tuple(since) if since else None, o, SIZES[t]))
                used.add(p)
            else:
                sub = [l for l in leaves if l[0].startswith(key + '.')]
                if not sub:
                    raise GenError('field %s.%s has no rows in the spec table' % (sname, fname))
                since = sub[0][3]
                if any(l[3] != since for l in sub):
                    raise GenError('sub-struct %s.%s has mixed gates' % (sname, fname))
                if opt != (since is not None):
                    raise GenError('field %s.%s: optionality disagrees with the spec table' % (sname, fname))
                base = sub[0][2]
                subleaves = [(l[0][len(key) + 1:], l[1], l[2] - base, None) for l in sub]
                layout(inner, subleaves)
                fields.append(Field(fname, 'sub', inner, tuple(since) if since else None, base,
                                    sum(SIZES[l[1]] for l in sub)))
                used.update(l[0] for l in sub)
        missing = [l[0] for l in leaves if l[0] not in used]
        if missing:
            raise GenError('spec table rows without a field in %s: %s' % (sname, missing))
        # the table must tile the bytes: sorted by offset, contiguous when everything is present
        pos = 0
        for f in sorted([f for f in fields if f.kind != 'validity'], key=lambda f: f.off):
            if f.off != pos:
                raise GenError('spec table for %s is not contiguous at %s' % (sname, f.name))
            pos += f.size
        layouts[sname] = dict(fields=fields, leaves=leaves, size_all=pos)

    for s in TOP:
        leaves = [(r['path'], r['type'], r['offset'], r.get('since')) for r in table[s]]
        layout(s, leaves)
    for s in ORDER:
        if s not in layouts:
            raise GenError('struct %s is not reachable from the spec table' % s)
    return layouts


def ge(since, v='v'):
    return '%s.ge(%d, %d)' % (v, since[0], since[1])


def facc(f):
    """field access text: tuple fields are .0 etc."""
    return f.name


def first_col(layouts, s):
    f = layouts[s]['fields'][0]
    if f.kind == 'prim' and not f.opt:
        return 'self.%s@.len()' % f.name
    if f.kind == 'sub' and not f.opt:
        return 'self.%s.len_spec()' % f.name
    return None


# --------------------------------------------------------------------------------------------
# spec predicates for the mutable structs
def mutable_specs(layouts, s, opaque=False):
    oq = '\t#[verifier::opaque]\n' if opaque else ''
    L = layouts[s]['fields']
    out = []
    w = out.append
    has_validity = any(f.kind == 'validity' for f in L)
    w('impl %s {' % s)
    # size from the table
    w('\tpub open spec fn size_spec(v: Version) -> int {')
    terms = []
    for f in L:
        if f.kind == 'validity':
            continue
        t = str(f.size)
        terms.append('(if %s { %s } else { 0int })' % (ge(f.since), t) if f.opt else t + 'int')
    w('\t\t' + ' + '.join(terms or ['0int']))
    w('\t}')
    # len_spec
    if s == 'End':
        w('\tpub open spec fn len_spec(&self) -> nat { match self.validity { Some(b) => b@.len(), None => match self.latest_finalized_frame { Some(c) => c@.len(), None => 0 } } }')
    else:
        w('\tpub open spec fn len_spec(&self) -> nat { %s }' % first_col(layouts, s))
    # wf
    w('\tpub open spec fn wf(&self, v: Version) -> bool {')
    for f in L:
        if f.kind == 'validity':
            w('\t\t&&& (self.validity is Some ==> self.validity->Some_0@.len() == self.len_spec())')
            if s == 'End':
                w('\t\t&&& (!v.ge(3, 7) ==> self.validity is Some)')
        elif f.kind == 'prim' and not f.opt:
            w('\t\t&&& self.%s@.len() == self.len_spec()' % f.name)
        elif f.kind == 'prim':
            w('\t\t&&& (self.%s is Some) == %s' % (f.name, ge(f.since)))
            w('\t\t&&& (self.%s is Some ==> self.%s->Some_0@.len() == self.len_spec())' % (f.name, f.name))
        elif f.kind == 'sub' and not f.opt:
            w('\t\t&&& self.%s.wf(v) && self.%s.len_spec() == self.len_spec()' % (f.name, f.name))
        else:
            w('\t\t&&& (self.%s is Some) == %s' % (f.name, ge(f.since)))
            w('\t\t&&& (self.%s is Some ==> self.%s->Some_0.wf(v) && self.%s->Some_0.len_spec() == self.len_spec())' % (f.name, f.name, f.name))
    w('\t}')
    # pushed_row(pre, post, bytes, off, v): post == pre with one decoded row appended (whole view)
    w(oq + '\tpub open spec fn pushed_row(pre: Self, post: Self, b: Seq<u8>, off: int, v: Version) -> bool {')
    for f in L:
        lab = '/*[%s.%s]*/' % (s, f.name)
        if f.kind == 'validity':
            w('\t\t&&& (pre.validity is Some ==> post.validity is Some && post.validity->Some_0@ == pre.validity->Some_0@.push(true)) %s' % lab)
            w('\t\t&&& (pre.validity is None ==> post.validity is None)')
        elif f.kind == 'prim' and not f.opt:
            w('\t\t&&& post.%s@ == pre.%s@.push(Some(be_%s(b, off + %d))) %s' % (f.name, f.name, f.ty, f.off, lab))
        elif f.kind == 'prim':
            w('\t\t&&& (%s ==> post.%s is Some && post.%s->Some_0@ == pre.%s->Some_0@.push(Some(be_%s(b, off + %d)))) %s' % (ge(f.since), f.name, f.name, f.name, f.ty, f.off, lab))
            w('\t\t&&& (!%s ==> post.%s == pre.%s)' % (ge(f.since), f.name, f.name))
        elif f.kind == 'sub' and not f.opt:
            w('\t\t&&& %s::pushed_row(pre.%s, post.%s, b, off + %d, v) %s' % (f.ty, f.name, f.name, f.off, lab))
        else:
            w('\t\t&&& (%s ==> post.%s is Some && %s::pushed_row(pre.%s->Some_0, post.%s->Some_0, b, off + %d, v)) %s' % (ge(f.since), f.name, f.ty, f.name, f.name, f.off, lab))
            w('\t\t&&& (!%s ==> post.%s == pre.%s)' % (ge(f.since), f.name, f.name))
    w('\t}')
    # pushed_null(pre, post, v)
    w(oq + '\tpub open spec fn pushed_null(pre: Self, post: Self, v: Version) -> bool {')
    for f in L:
        if f.kind == 'validity':
            w('\t\t&&& post.validity is Some')
            w('\t\t&&& (pre.validity is Some ==> post.validity->Some_0@ == pre.validity->Some_0@.push(false))')
            w('\t\t&&& (pre.validity is None ==> post.validity->Some_0@ == Seq::new(pre.len_spec(), |i: int| true).push(false))')
        elif f.kind == 'prim' and not f.opt:
            w('\t\t&&& post.%s@ == pre.%s@.push(None)' % (f.name, f.name))
        elif f.kind == 'prim':
            w('\t\t&&& (%s ==> post.%s is Some && post.%s->Some_0@ == pre.%s->Some_0@.push(None))' % (ge(f.since), f.name, f.name, f.name))
            w('\t\t&&& (!%s ==> post.%s == pre.%s)' % (ge(f.since), f.name, f.name))
        elif f.kind == 'sub' and not f.opt:
            w('\t\t&&& %s::pushed_null(pre.%s, post.%s, v)' % (f.ty, f.name, f.name))
        else:
            w('\t\t&&& (%s ==> post.%s is Some && %s::pushed_null(pre.%s->Some_0, post.%s->Some_0, v))' % (ge(f.since), f.name, f.ty, f.name, f.name))
            w('\t\t&&& (!%s ==> post.%s == pre.%s)' % (ge(f.since), f.name, f.name))
    w('\t}')
    # extended_by_nulls(pre, post): every column of post is the column of pre followed only by nulls (whole view)
    w(oq + '\tpub open spec fn extended_by_nulls(pre: Self, post: Self) -> bool {')
    for f in L:
        if f.kind == 'validity':
            w('\t\t&&& (pre.validity is Some ==> post.validity is Some && col_ext_false(pre.validity->Some_0@, post.validity->Some_0@))')
            w('\t\t&&& (pre.validity is None && post.validity is Some ==> col_ext_false(Seq::new(pre.len_spec(), |i: int| true), post.validity->Some_0@))')
            w('\t\t&&& (pre.validity is None && post.validity is None ==> post.len_spec() == pre.len_spec())')
        elif f.kind == 'prim' and not f.opt:
            w('\t\t&&& col_ext_null(pre.%s@, post.%s@)' % (f.name, f.name))
        elif f.kind == 'prim':
            w('\t\t&&& (pre.%s is Some == post.%s is Some) && (pre.%s is Some ==> col_ext_null(pre.%s->Some_0@, post.%s->Some_0@))' % ((f.name,) * 5))
        elif f.kind == 'sub' and not f.opt:
            w('\t\t&&& %s::extended_by_nulls(pre.%s, post.%s)' % (f.ty, f.name, f.name))
        else:
            w('\t\t&&& (pre.%s is Some == post.%s is Some) && (pre.%s is Some ==> %s::extended_by_nulls(pre.%s->Some_0, post.%s->Some_0))' % (f.name, f.name, f.name, f.ty, f.name, f.name))
    w('\t}')
    # row_eq(self, row, i): the transposed row holds the values at index i of every column
    w(oq + '\tpub open spec fn row_eq(&self, row: transpose::%s, i: int) -> bool {' % s)
    for f in L:
        lab = '/*[%s.%s]*/' % (s, f.name)
        if f.kind == 'validity':
            continue
        if f.kind == 'prim' and not f.opt:
            w('\t\t&&& row.%s == self.%s.values_spec()[i] %s' % (f.name, f.name, lab))
        elif f.kind == 'prim':
            w('\t\t&&& row.%s == (match self.%s { Some(c) => Some(c.values_spec()[i]), None => None }) %s' % (f.name, f.name, lab))
        elif f.kind == 'sub' and not f.opt:
            w('\t\t&&& self.%s.row_eq(row.%s, i) %s' % (f.name, f.name, lab))
        else:
            w('\t\t&&& (self.%s is Some == row.%s is Some) && (self.%s is Some ==> self.%s->Some_0.row_eq(row.%s->Some_0, i)) %s' % (f.name, f.name, f.name, f.name, f.name, lab))
    w('\t}')
    w('}')
    return '\n'.join(out)


def mutable_fn_contracts(layouts, s, relpath, stub=False):
    """//@fn directives with contracts for with_capacity, len, push_null, read_push, transpose_one."""
    st = ' | stub' if stub else ''
    out = []
    w = out.append
    w('impl %s {' % s)
    w('//@fn %s | impl %s | with_capacity | ret=res%s' % (relpath, s, st))
    w('\tensures res.wf(version) /*[%s.with_capacity.presence]*/,' % s)
    w('\t\tres.len_spec() == 0,')
    if s != 'End' and any(f.kind == 'validity' for f in layouts[s]['fields']):
        w('\t\tres.validity is None,')
    w('//@end')
    w('//@fn %s | impl %s | len | ret=res%s' % (relpath, s, st))
    if s == 'End':
        w('\trequires self.validity is Some || self.latest_finalized_frame is Some,')
    w('\tensures res == self.len_spec(),')
    w('//@end')
    w('//@fn %s | impl %s | push_null%s' % (relpath, s, st))
    w('\trequires old(self).wf(version),')
    w('\tensures final(self).wf(version),')
    w('\t\tfinal(self).len_spec() == old(self).len_spec() + 1,')
    w('\t\t%s::pushed_null(*old(self), *final(self), version) /*[%s.push_null]*/,' % (s, s))
    w('//@end')
    w('//@fn %s | impl %s | read_push | ret=res%s' % (relpath, s, st))
    w('\trequires old(self).wf(version),')
    w('\tensures')
    w('\t\told(r)@.len() >= %s::size_spec(version) ==> res is Ok /*[%s.read_push.accepts_full_payload]*/,' % (s, s))
    w('\t\tres is Ok ==> old(r)@.len() >= %s::size_spec(version) /*[%s.read_push.needs_full_payload]*/,' % (s, s))
    w('\t\tres is Ok ==> final(r)@ == skip(old(r)@, %s::size_spec(version)) /*[%s.read_push.consumes_size]*/,' % (s, s))
    w('\t\tres is Ok ==> final(self).wf(version) && final(self).len_spec() == old(self).len_spec() + 1,')
    w('\t\tres is Ok ==> %s::pushed_row(*old(self), *final(self), old(r)@, 0, version) /*[%s.read_push.row]*/,' % (s, s))
    w('//@end')
    w('//@fn %s | impl %s | transpose_one | ret=res%s' % (relpath, s, st))
    w('\trequires self.wf(version), i < self.len_spec(),')
    w('\tensures self.row_eq(res, i as int) /*[%s.transpose_one]*/,' % s)
    w('//@end')
    w('}')
    return '\n'.join(out)


# --------------------------------------------------------------------------------------------
# immutable side: write / size / transpose_one / From<mutable::S>
def immutable_specs(layouts, s, with_from=True, only_wf=False):
    L = layouts[s]['fields']
    out = []
    w = out.append
    w('impl %s {' % s)
    w('\tpub open spec fn size_spec(v: Version) -> int {')
    terms = []
    for f in L:
        if f.kind == 'validity':
            continue
        t = str(f.size)
        terms.append('(if %s { %s } else { 0int })' % (ge(f.since), t) if f.opt else t + 'int')
    w('\t\t' + ' + '.join(terms or ['0int']))
    w('\t}')
    if s == 'End':
        w('\tpub open spec fn len_spec(&self) -> nat { match self.validity { Some(b) => b@.len(), None => match self.latest_finalized_frame { Some(c) => c@.len(), None => 0 } } }')
    else:
        w('\tpub open spec fn len_spec(&self) -> nat { %s }' % first_col(layouts, s))
    w('\tpub open spec fn wf(&self, v: Version) -> bool {')
    for f in L:
        if f.kind == 'validity':
            w('\t\t&&& (self.validity is Some ==> self.validity->Some_0@.len() == self.len_spec())')
        elif f.kind == 'prim' and not f.opt:
            w('\t\t&&& self.%s@.len() == self.len_spec()' % f.name)
        elif f.kind == 'prim':
            w('\t\t&&& (self.%s is Some) == %s' % (f.name, ge(f.since)))
            w('\t\t&&& (self.%s is Some ==> self.%s->Some_0@.len() == self.len_spec())' % (f.name, f.name))
        elif f.kind == 'sub' and not f.opt:
            w('\t\t&&& self.%s.wf(v) && self.%s.len_spec() == self.len_spec()' % (f.name, f.name))
        else:
            w('\t\t&&& (self.%s is Some) == %s' % (f.name, ge(f.since)))
            w('\t\t&&& (self.%s is Some ==> self.%s->Some_0.wf(v) && self.%s->Some_0.len_spec() == self.len_spec())' % (f.name, f.name, f.name))
    w('\t}')
    if only_wf:
        w('}')
        return '\n'.join(out)
    # emit(acc, i, v): acc followed by the big-endian bytes of row i, fields in spec-table (offset) order
    w('\tpub open spec fn emit(&self, acc: Seq<u8>, i: int, v: Version) -> Seq<u8> {')
    k = 0
    prev = 'acc'
    for f in sorted([f for f in L if f.kind != 'validity'], key=lambda f: f.off):
        k += 1
        cur = 'a%d' % k
        if f.kind == 'prim':
            val = 'self.%s.values_spec()[i]' % f.name if not f.opt else 'self.%s->Some_0.values_spec()[i]' % f.name
            e = '%s + bytes_%s(%s)' % (prev, f.ty, val)
        else:
            e = ('self.%s.emit(%s, i, v)' if not f.opt else 'self.%s->Some_0.emit(%s, i, v)') % (f.name, prev)
        if f.opt:
            e = 'if %s { %s } else { %s }' % (ge(f.since), e, prev)
        w('\t\tlet %s = %s; /*[%s.emit.%s]*/' % (cur, e, s, f.name))
        prev = cur
    w('\t\t%s' % prev)
    w('\t}')
    w('\tpub open spec fn row_eq(&self, row: transpose::%s, i: int) -> bool {' % s)
    for f in L:
        lab = '/*[imm.%s.%s]*/' % (s, f.name)
        if f.kind == 'validity':
            continue
        if f.kind == 'prim' and not f.opt:
            w('\t\t&&& row.%s == self.%s.values_spec()[i] %s' % (f.name, f.name, lab))
        elif f.kind == 'prim':
            w('\t\t&&& row.%s == (match self.%s { Some(c) => Some(c.values_spec()[i]), None => None }) %s' % (f.name, f.name, lab))
        elif f.kind == 'sub' and not f.opt:
            w('\t\t&&& self.%s.row_eq(row.%s, i) %s' % (f.name, f.name, lab))
        else:
            w('\t\t&&& (self.%s is Some == row.%s is Some) && (self.%s is Some ==> self.%s->Some_0.row_eq(row.%s->Some_0, i)) %s' % (f.name, f.name, f.name, f.name, f.name, lab))
    w('\t}')
    if not with_from:
        w('}')
        return '\n'.join(out)
    # same_columns(m, x): every column of the immutable struct has the view of the mutable one
    w('\tpub open spec fn same_columns(m: mutable::%s, x: Self) -> bool {' % s)
    for f in L:
        lab = '/*[from.%s.%s]*/' % (s, f.name)
        if f.kind == 'validity':
            w('\t\t&&& (m.validity is Some == x.validity is Some) && (m.validity is Some ==> x.validity->Some_0@ == m.validity->Some_0@) %s' % lab)
        elif f.kind == 'prim' and not f.opt:
            w('\t\t&&& x.%s@ == m.%s@ && x.%s.values_spec() == m.%s.values_spec() %s' % (f.name, f.name, f.name, f.name, lab))
        elif f.kind == 'prim':
            w('\t\t&&& (m.%s is Some == x.%s is Some) && (m.%s is Some ==> x.%s->Some_0@ == m.%s->Some_0@ && x.%s->Some_0.values_spec() == m.%s->Some_0.values_spec()) %s' % ((f.name,) * 7 + (lab,)))
        elif f.kind == 'sub' and not f.opt:
            w('\t\t&&& %s::same_columns(m.%s, x.%s) %s' % (f.ty, f.name, f.name, lab))
        else:
            w('\t\t&&& (m.%s is Some == x.%s is Some) && (m.%s is Some ==> %s::same_columns(m.%s->Some_0, x.%s->Some_0)) %s' % (f.name, f.name, f.name, f.ty, f.name, f.name, lab))
    w('\t}')
    w('}')
    return '\n'.join(out)


def immutable_fn_contracts(layouts, s, rel_mod, rel_slippi, stub=False, only=('write', 'size', 'transpose_one', 'from')):
    st = ' | stub' if stub else ''
    out = []
    w = out.append
    w('impl %s {' % s)
    if 'write' in only:
        w('//@fn %s | impl %s | write | ret=res%s' % (rel_slippi, s, st))
        w('\trequires self.wf(version), i < self.len_spec(),')
        w('\tensures res is Ok ==> (*final(w)).written() == self.emit((*old(w)).written(), i as int, version) /*[%s.write.bytes]*/,' % s)
        w('//@end')
    if 'size' in only:
        w('//@fn %s | impl %s | size | ret=res%s' % (rel_slippi, s, st))
        w('\tensures res == %s::size_spec(version) /*[%s.size]*/,' % (s, s))
        w('//@end')
    if 'transpose_one' in only:
        w('//@fn %s | impl %s | transpose_one | ret=res%s' % (rel_mod, s, st))
        w('\trequires self.wf(version), i < self.len_spec(),')
        w('\tensures self.row_eq(res, i as int) /*[imm.%s.transpose_one]*/,' % s)
        w('//@end')
    w('}')
    if 'from' not in only:
        return '\n'.join(out)
    # Verus cannot use an impl's own from_spec while checking that impl's `from`: the trait method is a
    # contract-only stub (its contract is FromSpecImpl below) and the real body is checked as a free function.
    w('impl From<mutable::%s> for %s {' % (s, s))
    w('//@fn %s | impl From<mutable::%s> for %s | from | ret=res | stub' % (rel_mod, s, s))
    w('//@end')
    w('}')
    if not stub:
        w('//@fn %s | impl From<mutable::%s> for %s | from | ret=res | free=%s | twin=__%s' % (rel_mod, s, s, s, s))
        w('\tensures res == <%s as vstd::std_specs::convert::FromSpec<mutable::%s>>::from_spec(x) /*[from.%s.fieldwise]*/,' % (s, s, s))
        w('//@end')
        # view preservation follows from the field-wise spec (pure spec lemma, sub-structs by their own lemma)
        w('pub proof fn lemma_from_same_columns_%s(m: mutable::%s)' % (s, s))
        w('\tensures %s::same_columns(m, <%s as vstd::std_specs::convert::FromSpec<mutable::%s>>::from_spec(m)) /*[from.%s]*/,' % (s, s, s, s))
        w('{')
        for f in layouts[s]['fields']:
            if f.kind == 'sub' and not f.opt:
                w('\tlemma_from_same_columns_%s(m.%s);' % (f.ty, f.name))
            elif f.kind == 'sub':
                w('\tif m.%s is Some { lemma_from_same_columns_%s(m.%s->Some_0); }' % (f.name, f.ty, f.name))
        w('}')
    # the spec of the conversion: every field converted by its own conversion, nothing else (from the real field list)
    w('impl vstd::std_specs::convert::FromSpecImpl<mutable::%s> for %s {' % (s, s))
    w('\topen spec fn obeys_from_spec() -> bool { true }')
    w('\topen spec fn from_spec(m: mutable::%s) -> %s {' % (s, s))
    parts = []
    for f in layouts[s]['fields']:
        if f.kind == 'validity':
            conv = lambda e: '<Bitmap as vstd::std_specs::convert::FromSpec<MutableBitmap>>::from_spec(%s)' % e
            parts.append((f.name, 'match m.validity { Some(c) => Some(%s), None => None }' % conv('c')))
            continue
        if f.kind == 'prim':
            conv = lambda e, t=f.ty: '<PrimitiveArray<%s> as vstd::std_specs::convert::FromSpec<MutablePrimitiveArray<%s>>>::from_spec(%s)' % (t, t, e)
        else:
            conv = lambda e, t=f.ty: '<%s as vstd::std_specs::convert::FromSpec<mutable::%s>>::from_spec(%s)' % (t, t, e)
        if f.opt:
            parts.append((f.name, 'match m.%s { Some(c) => Some(%s), None => None }' % (f.name, conv('c'))))
        else:
            parts.append((f.name, conv('m.%s' % f.name)))
    if parts and parts[0][0].isdigit():
        w('\t\t%s(%s)' % (s, ', '.join(e for _, e in parts)))
    else:
        w('\t\t%s { %s }' % (s, ', '.join('%s: %s' % (n, e) for n, e in parts)))
    w('\t}')
    w('}')
    return '\n'.join(out)


def emit_len_lemmas(layouts):
    """Per struct: emitting row i appends exactly size_spec(v) bytes (used by the C17 raw-length lemma)."""
    out = []
    for s in ORDER:
        out.append('impl %s {' % s)
        out.append('\tpub proof fn lemma_emit_len(&self, acc: Seq<u8>, i: int, v: Version)')
        out.append('\t\tensures self.emit(acc, i, v).len() == acc.len() + %s::size_spec(v) /*[%s.emit_len]*/,' % (s, s))
        out.append('\t{')
        k = 0
        prev = 'acc'
        for f in sorted([f for f in layouts[s]['fields'] if f.kind != 'validity'], key=lambda f: f.off):
            k += 1
            cur = 'a%d' % k
            if f.kind == 'prim':
                val = 'self.%s.values_spec()[i]' % f.name if not f.opt else 'self.%s->Some_0.values_spec()[i]' % f.name
                e = '%s + bytes_%s(%s)' % (prev, f.ty, val)
            else:
                tgt = 'self.%s' % f.name if not f.opt else 'self.%s->Some_0' % f.name
                e = '%s.emit(%s, i, v)' % (tgt, prev)
                call = '%s.lemma_emit_len(%s, i, v);' % (tgt, prev)
                out.append('\t\t' + ('if %s { %s }' % (ge(f.since), call) if f.opt else call))
            if f.opt:
                e = 'if %s { %s } else { %s }' % (ge(f.since), e, prev)
            out.append('\t\tlet %s = %s;' % (cur, e))
            prev = cur
        out.append('\t}')
        out.append('}')
    return '\n'.join(out)


def immutable_roundtrip_lemmas(layouts, s):
    """Per-struct codec inverse (C01): if row i of x holds exactly the values decoded from b at the
    spec-table offsets, then emitting row i reproduces b's bytes.  Generated proof, checked by Verus."""
    L = sorted([f for f in layouts[s]['fields'] if f.kind != 'validity'], key=lambda f: f.off)
    out = []
    w = out.append
    w('impl %s {' % s)
    w('\t// row i of self holds exactly the values that the spec table decodes from b at offset off')
    w('\tpub open spec fn row_decoded_from(&self, i: int, b: Seq<u8>, off: int, v: Version) -> bool {')
    for f in L:
        if f.kind == 'prim':
            tgt = 'self.%s' % f.name if not f.opt else 'self.%s->Some_0' % f.name
            c = '%s.values_spec()[i] == be_%s(b, off + %d)' % (tgt, f.ty, f.off)
        else:
            tgt = 'self.%s' % f.name if not f.opt else 'self.%s->Some_0' % f.name
            c = '%s.row_decoded_from(i, b, off + %d, v)' % (tgt, f.off)
        if f.opt:
            c = '(%s ==> %s)' % (ge(f.since), c)
        w('\t\t&&& %s' % c)
    w('\t\t&&& true')
    w('\t}')
    w('\tpub proof fn lemma_emit_reproduces_bytes(&self, acc: Seq<u8>, i: int, b: Seq<u8>, off: int, v: Version)')
    w('\t\trequires self.row_decoded_from(i, b, off, v), 0 <= off, off + %s::size_spec(v) <= b.len(),' % s)
    w('\t\tensures self.emit(acc, i, v) == acc + b.subrange(off, off + %s::size_spec(v)) /*[%s.encode_decode_inverse]*/,' % (s, s))
    w('\t{')
    w('\t\tlet e0 = off;')
    w('\t\tlet a0 = acc;')
    w('\t\tassert(a0 =~= acc + b.subrange(off, e0));')
    k = 0
    for f in L:
        k += 1
        sz = str(f.size) if f.kind == 'prim' else '%s::size_spec(v)' % f.ty
        if f.opt:
            w('\t\tlet e%d = e%d + (if %s { %s } else { 0int });' % (k, k - 1, ge(f.since), sz))
        else:
            w('\t\tlet e%d = e%d + %s;' % (k, k - 1, sz))
        tgt = 'self.%s' % f.name if not f.opt else 'self.%s->Some_0' % f.name
        if f.kind == 'prim':
            step = 'a%d + bytes_%s(%s.values_spec()[i])' % (k - 1, f.ty, tgt)
            proof = 'lemma_bytes_be_%s(b, off + %d);' % (f.ty, f.off)
        else:
            step = '%s.emit(a%d, i, v)' % (tgt, k - 1)
            proof = '%s.lemma_emit_reproduces_bytes(a%d, i, b, off + %d, v);' % (tgt, k - 1, f.off)
        if f.opt:
            w('\t\tlet a%d = if %s { %s } else { a%d };' % (k, ge(f.since), step, k - 1))
            w('\t\tif %s { assert(e%d == off + %d); %s lemma_subrange_append(acc, b, off, e%d, e%d); }' % (ge(f.since), k - 1, f.off, proof, k - 1, k))
        else:
            w('\t\tlet a%d = %s;' % (k, step))
            w('\t\tassert(e%d == off + %d); %s lemma_subrange_append(acc, b, off, e%d, e%d);' % (k - 1, f.off, proof, k - 1, k))
        w('\t\tassert(a%d == acc + b.subrange(off, e%d));' % (k, k))
    w('\t\tassert(e%d == off + %s::size_spec(v));' % (k, s))
    w('\t}')
    w('}')
    return '\n'.join(out)


def mutable_null_lemmas(layouts, s):
    """extended_by_nulls is reflexive and absorbs one pushed_null step (generated proof; sub-structs by their own lemma)."""
    L = layouts[s]['fields']
    out = []
    w = out.append
    w('impl %s {' % s)
    w('\tpub proof fn lemma_null_refl(a: Self)')
    w('\t\tensures %s::extended_by_nulls(a, a),' % s)
    w('\t{')
    w('\t\treveal(%s::extended_by_nulls);' % s)
    for f in L:
        if f.kind == 'sub' and not f.opt:
            w('\t\t%s::lemma_null_refl(a.%s);' % (f.ty, f.name))
        elif f.kind == 'sub':
            w('\t\tif a.%s is Some { %s::lemma_null_refl(a.%s->Some_0); }' % (f.name, f.ty, f.name))
    w('\t}')
    w('\tpub proof fn lemma_null_step(a: Self, m: Self, b: Self, v: Version)')
    w('\t\trequires a.wf(v), m.wf(v), %s::extended_by_nulls(a, m), %s::pushed_null(m, b, v),' % (s, s))
    w('\t\tensures %s::extended_by_nulls(a, b),' % s)
    w('\t{')
    w('\t\treveal(%s::extended_by_nulls); reveal(%s::pushed_null);' % (s, s))
    for f in L:
        if f.kind == 'sub' and not f.opt:
            w('\t\t%s::lemma_null_step(a.%s, m.%s, b.%s, v);' % (f.ty, f.name, f.name, f.name))
        elif f.kind == 'sub':
            w('\t\tif %s { %s::lemma_null_step(a.%s->Some_0, m.%s->Some_0, b.%s->Some_0, v); }' % (ge(f.since), f.ty, f.name, f.name, f.name))
    w('\t}')
    w('}')
    return '\n'.join(out)


# ------------------------------------------------------------------------------------------------
# Arrow struct arrays (src/frame/immutable/peppi.rs): data_type / into_struct_array / from_struct_array
ARROW_DT = {'u8': 'UInt8', 'i8': 'Int8', 'u16': 'UInt16', 'i16': 'Int16', 'u32': 'UInt32', 'i32': 'Int32', 'f32': 'Float32'}
ARROW_BOX = {'u8': 'U8', 'i8': 'I8', 'u16': 'U16', 'i16': 'I16', 'u32': 'U32', 'i32': 'I32', 'f32': 'F32'}


def arrow_fields(layouts, s):
    """non-validity fields in struct order; the arrow position of a present field is its index here
    (checked: gates never decrease along the list, so a present field has all earlier ones present)"""
    F = [f for f in layouts[s]['fields'] if f.kind != 'validity']
    last = (0, 0)
    for f in F:
        g = f.since or (0, 0)
        if g < last:
            raise GenError('struct %s: gate of %s is older than an earlier field, positional arrow mapping undefined' % (s, f.name))
        last = g
    if [f.off for f in F] != sorted(f.off for f in F):
        raise GenError('struct %s: field order differs from the spec table order' % s)
    return F


def arrow_name(f):
    return f.name[2:] if f.name.startswith('r#') else f.name


def arrow_specs(layouts, s):
    F = arrow_fields(layouts, s)
    has_validity = any(f.kind == 'validity' for f in layouts[s]['fields'])
    out = []
    w = out.append
    w('impl %s {' % s)
    # number of fields present at a version (the per-version field table)
    w('\tpub open spec fn arrow_count(v: Version) -> nat {')
    e = str(sum(1 for f in F if not f.opt)) + 'nat'
    gates = []
    for f in F:
        if f.opt and f.since not in gates:
            gates.append(f.since)
    expr = e
    for g in gates:
        n = sum(1 for f in F if not f.opt or f.since <= g)
        expr = 'if %s { %dnat } else { %s }' % (ge(g), n, expr)
    w('\t\t' + expr)
    w('\t}')
    w('\tpub open spec fn arrow_field(i: int, v: Version) -> FieldM {')
    parts = []
    for k, f in enumerate(F):
        dt = 'DTm::%s' % ARROW_DT[f.ty] if f.kind == 'prim' else '%s::dtm(v)' % f.ty
        parts.append('if i == %d { fm("%s"@, %s) } /*[%s.schema.%s]*/' % (k, arrow_name(f), dt, s, arrow_name(f)))
    w('\t\t' + '\n\t\telse '.join(parts) + '\n\t\telse { arbitrary() }')
    w('\t}')
    w('\tpub open spec fn dtm(v: Version) -> DTm { DTm::Struct(Seq::new(Self::arrow_count(v), |i: int| Self::arrow_field(i, v))) }')
    # exported(self, v, a): a is the struct array this column group must be exported as
    w('\tpub open spec fn exported(self, v: Version, a: StructArray) -> bool {')
    w('\t\t&&& a.wf()')
    w('\t\t&&& dtv(a.data_type) == Self::dtm(v) /*[%s.export.schema]*/' % s)
    w('\t\t&&& a.values@.len() == Self::arrow_count(v)')
    w('\t\t&&& a.rows() == self.len_spec() /*[%s.export.rows]*/' % s)
    w('\t\t&&& a.validity == %s /*[%s.export.validity]*/' % ('self.validity' if has_validity else 'None::<Bitmap>', s))
    for k, f in enumerate(F):
        g = '%s ==> ' % ge(f.since) if f.opt else ''
        col = 'self.%s' % f.name + ('->Some_0' if f.opt else '')
        lab = '/*[%s.export.%s]*/' % (s, arrow_name(f))
        if f.kind == 'prim':
            w('\t\t&&& (%sa.values@[%d] == ArrayBox::%s(%s)) %s' % (g, k, ARROW_BOX[f.ty], col, lab))
        else:
            w('\t\t&&& (%sa.values@[%d] is Struct && %s.exported(v, a.values@[%d]->Struct_0)) %s' % (g, k, col, k, lab))
    w('\t}')
    # imported(a, v, r): r is what importing a must give (positional)
    w('\tpub open spec fn imported(a: StructArray, v: Version, r: Self) -> bool {')
    if has_validity:
        w('\t\t&&& r.validity == a.validity /*[%s.import.validity]*/' % s)
    for k, f in enumerate(F):
        lab = '/*[%s.import.%s]*/' % (s, arrow_name(f))
        if f.kind == 'prim' and not f.opt:
            w('\t\t&&& ArrayBox::%s(r.%s) == a.values@[%d] %s' % (ARROW_BOX[f.ty], f.name, k, lab))
        elif f.kind == 'prim':
            w('\t\t&&& (r.%s is Some) == (%d < a.values@.len()) && (r.%s is Some ==> ArrayBox::%s(r.%s->Some_0) == a.values@[%d]) %s' % (f.name, k, f.name, ARROW_BOX[f.ty], f.name, k, lab))
        elif not f.opt:
            w('\t\t&&& a.values@[%d] is Struct && %s::imported(a.values@[%d]->Struct_0, v, r.%s) %s' % (k, f.ty, k, f.name, lab))
        else:
            w('\t\t&&& (r.%s is Some) == (%d < a.values@.len()) && (r.%s is Some ==> a.values@[%d] is Struct && %s::imported(a.values@[%d]->Struct_0, v, r.%s->Some_0)) %s' % (f.name, k, f.name, k, f.ty, k, f.name, lab))
    w('\t}')
    w('}')
    # round trip: import(export(x)) == x
    w('pub proof fn lemma_arrow_roundtrip_%s(x: %s, v: Version, a: StructArray, y: %s)' % (s, s, s))
    w('\trequires x.wf(v), x.exported(v, a), %s::imported(a, v, y)' % s)
    if has_validity:
        w('\tensures y == x')
    else:
        w('\tensures y == x')
    w('{')
    for k, f in enumerate(F):
        if f.kind == 'sub':
            if f.opt:
                w('\tif %s { lemma_arrow_roundtrip_%s(x.%s->Some_0, v, a.values@[%d]->Struct_0, y.%s->Some_0); }' % (ge(f.since), f.ty, f.name, k, f.name))
            else:
                w('\tlemma_arrow_roundtrip_%s(x.%s, v, a.values@[%d]->Struct_0, y.%s);' % (f.ty, f.name, k, f.name))
    w('}')
    return '\n'.join(out)


def arrow_fn_contracts(layouts, s, rel_peppi, twin_gate=None):
    """contracts for the generated triple.  twin_gate=(M, m): additionally verify into_struct_array under
    `version >= M.m` (used for End, whose export cannot exist below 3.7: known finding F4)."""
    F = arrow_fields(layouts, s)
    out = []
    w = out.append
    w('impl %s {' % s)
    w('//@fn %s | impl %s | data_type | ret=res | tail' % (rel_peppi, s))
    w('\tensures dtv(res) == %s::dtm(version) /*[C14.schema.%s]*/,' % (s, s))
    w('//@before ret__#2')
    w('\tproof { reveal_with_fuel(dtv, 3); reveal_with_fuel(fv, 3); assert(dtv(ret__)->Struct_0 =~= %s::dtm(version)->Struct_0); } /*[C14.schema.%s]*/' % (s, s))
    w('//@end')

    def into(twin):
        opts = ' | twin=%s' % twin if twin else ''
        w('//@fn %s | impl %s | into_struct_array | ret=res%s' % (rel_peppi, s, opts))
        w('\trequires self.wf(version),')
        if twin:
            w('\t\t%s,' % ge(twin_gate, 'version'))
        w('\tensures self.exported(version, res) /*[C14.export.%s]*/,' % s)
        w('//@end')
    into(None)
    if twin_gate:
        into('__v%d_%d' % twin_gate)
    w('//@fn %s | impl %s | from_struct_array | ret=res' % (rel_peppi, s))
    w('\trequires array.wf(), dtv(array.data_type) == %s::dtm(version),' % s)
    w('\tensures %s::imported(array, version, res) /*[C14.import.%s]*/,' % (s, s))
    w('//@end')
    w('}')
    return '\n'.join(out)
