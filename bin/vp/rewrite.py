"""Syntactic rewrite rules (DESIGN §3.2).  Each rule is local, is justified by the std definition
of the construct it desugars, and logs every site it touches (before/after text).

All rules operate on a function body (text) and return the new text; `log` collects
dict(rule, before, after).  A rule never guesses: if its pattern is only partly present it leaves
the text alone (Verus will then reject the construct and the unit becomes UNDECIDED).
"""
import re
from .rustsrc import mask, match_close, match_open, LostAnchor

IDENT = r'(?:r#)?[A-Za-z_][A-Za-z0-9_]*'


def _skip_ws_back(m, j):
    while j >= 0 and m[j] in ' \t\n':
        j -= 1
    return j


def _isid(c):
    return c.isalnum() or c == '_' or c == '#'


def receiver_start(m, dot):
    """`dot` is the index of the '.' that starts `.method(`.  Walk backwards over the postfix
    expression chain that is the receiver (idents, paths, calls, turbofish, indexing, `?`);
    return the index where the receiver starts.  Prefix operators are not part of it."""
    j = dot
    while True:
        j = _skip_ws_back(m, j - 1)
        while j >= 0 and m[j] == '?':
            j = _skip_ws_back(m, j - 1)
        if j < 0:
            return 0
        if m[j] in ')]':
            o = match_open(m, j)
            k = _skip_ws_back(m, o - 1)
            if k >= 0 and m[k] == '>' and m[j] == ')':
                depth, q = 0, k
                while q >= 0:
                    if m[q] == '>':
                        depth += 1
                    elif m[q] == '<':
                        depth -= 1
                        if depth == 0:
                            break
                    q -= 1
                if q < 2 or m[q - 2:q] != '::':
                    return o
                k = _skip_ws_back(m, q - 3)
            if k >= 0 and _isid(m[k]):
                while k >= 0 and _isid(m[k]):
                    k -= 1
                start, j = k + 1, k
            elif k >= 0 and m[k] in ')]':
                j = k + 1
                continue
            else:
                return o
        elif _isid(m[j]):
            k = j
            while k >= 0 and _isid(m[k]):
                k -= 1
            start, j = k + 1, k
        else:
            return _first_non_ws(m, j + 1)
        k = _skip_ws_back(m, j)
        if k >= 0 and m[k] == '.' and not (k >= 1 and m[k - 1] == '.'):
            j = k
            continue
        if k >= 1 and m[k - 1:k + 1] == '::':
            j = k - 1
            continue
        return start


def _first_non_ws(m, i):
    while i < len(m) and m[i] in ' \t\n':
        i += 1
    return i


def find_closure_calls(text, method):
    """Yield dicts for every `.method(|params| BODY)` in `text` (outermost first, left to right)."""
    m = mask(text)
    pat = re.compile(r'\.\s*' + re.escape(method) + r'\s*\(\s*(move\s+)?\|')
    res = []
    for mm in pat.finditer(m):
        dot = mm.start()
        open_paren = m.index('(', mm.start())
        close_paren = match_close(m, open_paren)
        bar1 = m.index('|', open_paren)
        bar2 = m.index('|', bar1 + 1)
        params = text[bar1 + 1:bar2].strip()
        body = text[bar2 + 1:close_paren].strip()
        if body.endswith(','):
            body = body[:-1].rstrip()
        res.append(dict(dot=dot, recv_start=receiver_start(m, dot), open=open_paren, close=close_paren,
                        params=params, body=body))
    return res


def _stmt_context(m, start, end):
    """Classify the syntactic position of text[start:end+1]: returns (prev_char, next_char) ignoring whitespace."""
    i = _skip_ws_back(m, start - 1)
    j = _first_non_ws(m, end + 1)
    return (m[i] if i >= 0 else '{'), (m[j] if j < len(m) else '}')


def _apply_once(text, method, fn):
    """Apply fn to the *last* (innermost/rightmost first keeps earlier offsets valid) matching call; return (new_text, changed)."""
    calls = find_closure_calls(text, method)
    for c in reversed(calls):
        m = mask(text)
        new = fn(text, m, c)
        if new is not None:
            return new, True
    return text, False


def _strip_block(body):
    return body


def rule_R1(text, log):
    """E.map(|x| S)?   ==>   { let x = E?; S }"""
    def fn(t, m, c):
        nxt = _first_non_ws(m, c['close'] + 1)
        if nxt >= len(m) or m[nxt] != '?':
            return None
        if not re.fullmatch(IDENT, c['params']):
            return None
        recv = t[c['recv_start']:c['dot']].rstrip()
        before = t[c['recv_start']:nxt + 1]
        after = '{ let %s = %s?; %s }' % (c['params'], recv, c['body'])
        log.append(dict(rule='R1', before=before, after=after))
        return t[:c['recv_start']] + after + t[nxt + 1:]
    changed = True
    while changed:
        text, changed = _apply_once(text, 'map', fn)
    return text


def rule_R2(text, log):
    """O.map(|v| S);  (statement, value discarded)  ==>  if let Some(v) = O { S; }"""
    def fn(t, m, c):
        prev, nxt = _stmt_context(m, c['recv_start'], c['close'])
        if nxt != ';' or prev not in ';{}':
            return None
        recv = t[c['recv_start']:c['dot']].rstrip()
        semi = _first_non_ws(m, c['close'] + 1)
        before = t[c['recv_start']:semi + 1]
        after = 'if let Some(%s) = %s { %s; }' % (c['params'], recv, c['body'])
        log.append(dict(rule='R2', before=before, after=after))
        return t[:c['recv_start']] + after + t[semi + 1:]
    changed = True
    while changed:
        text, changed = _apply_once(text, 'map', fn)
    return text


def rule_R3(text, log):
    """O.get_or_insert_with(|| E)  ==>  { if O.is_none() { O = Some(E); } O.as_mut().unwrap() }"""
    def fn(t, m, c):
        if c['params'] != '':
            return None
        recv = re.sub(r'\s+', '', t[c['recv_start']:c['dot']])
        before = t[c['recv_start']:c['close'] + 1]
        after = '({ if %s.is_none() { %s = Some(%s); } %s.as_mut().unwrap() })' % (recv, recv, c['body'], recv)
        log.append(dict(rule='R3', before=before, after=after))
        return t[:c['recv_start']] + after + t[c['close'] + 1:]
    changed = True
    while changed:
        text, changed = _apply_once(text, 'get_or_insert_with', fn)
    return text


def rule_R3b(text, log):
    """C.then(|| E)  ==>  (if C { Some(E) } else { None })"""
    def fn(t, m, c):
        if c['params'] != '':
            return None
        recv = t[c['recv_start']:c['dot']].strip()
        before = t[c['recv_start']:c['close'] + 1]
        after = '(if %s { Some(%s) } else { None })' % (re.sub(r'\s+', '', recv) if '\n' in recv else recv, c['body'])
        log.append(dict(rule='R3b', before=before, after=after))
        return t[:c['recv_start']] + after + t[c['close'] + 1:]
    changed = True
    while changed:
        text, changed = _apply_once(text, 'then', fn)
    return text


PARAM_PAT = r'(?:' + IDENT + r'|\(\s*' + IDENT + r'(?:\s*,\s*' + IDENT + r')*\s*\))'


def rule_R6b(text, log):
    """O.map(|p| E)  (value position, side-effect-free closure) ==> (match O { Some(p) => Some(E), None => None })"""
    def fn(t, m, c):
        prev, nxt = _stmt_context(m, c['recv_start'], c['close'])
        if nxt == '?' :
            return None
        if nxt == ';' and prev in ';{}':
            return None
        recv = t[c['recv_start']:c['dot']].rstrip()
        before = t[c['recv_start']:c['close'] + 1]
        after = '(match %s { Some(%s) => Some(%s), None => None })' % (recv, c['params'], c['body'])
        log.append(dict(rule='R6b', before=before, after=after))
        return t[:c['recv_start']] + after + t[c['close'] + 1:]
    changed = True
    while changed:
        text, changed = _apply_once(text, 'map', fn)
    return text


def rule_R6(text, log):
    """O.map_or(D, |x| E)  ==>  (match O { Some(x) => E, None => D })"""
    m = mask(text)
    pat = re.compile(r'\.\s*map_or\s*\(')
    while True:
        m = mask(text)
        hit = None
        for mm in pat.finditer(m):
            hit = mm
        # process last first
        allhits = list(pat.finditer(m))
        done = False
        for mm in reversed(allhits):
            dot = mm.start()
            op = m.index('(', dot)
            cl = match_close(m, op)
            # split args at top-level comma
            depth, k, comma = 0, op + 1, None
            while k < cl:
                ch = m[k]
                if ch in '([{':
                    k = match_close(m, k)
                elif ch == ',' :
                    comma = k
                    break
                k += 1
            if comma is None:
                continue
            default = text[op + 1:comma].strip()
            rest = text[comma + 1:cl].strip()
            if rest.endswith(','):
                rest = rest[:-1].rstrip()
            rs = receiver_start(m, dot)
            recv = text[rs:dot].rstrip()
            mc = re.match(r'\|\s*(' + IDENT + r')\s*\|\s*(.*)\Z', rest, re.S)
            if mc:
                x, e = mc.group(1), mc.group(2)
            elif re.fullmatch(r'[A-Za-z_][A-Za-z0-9_:]*', rest):
                x, e = 'x__', '%s(x__)' % rest
            else:
                continue
            before = text[rs:cl + 1]
            after = '(match %s { Some(%s) => %s, None => %s })' % (recv, x, e, default)
            log.append(dict(rule='R6', before=before, after=after))
            text = text[:rs] + after + text[cl + 1:]
            done = True
            break
        if not done:
            return text


def rule_R6c(text, log):
    """O.map(|v| E).unwrap_or_else(|| D)  ==>  (match O { Some(v) => E, None => D })"""
    def fn(t, m, c):
        mm = re.match(r'\s*\.\s*unwrap_or_else\s*\(\s*\|\s*\|', m[c['close'] + 1:])
        if not mm:
            return None
        op2 = m.index('(', c['close'] + 1)
        cl2 = match_close(m, op2)
        bar = m.index('|', op2)
        bar2 = m.index('|', bar + 1)
        d = t[bar2 + 1:cl2].strip()
        recv = t[c['recv_start']:c['dot']].rstrip()
        before = t[c['recv_start']:cl2 + 1]
        after = '(match %s { Some(%s) => %s, None => %s })' % (recv, c['params'], c['body'], d)
        log.append(dict(rule='R6c', before=before, after=after))
        return t[:c['recv_start']] + after + t[cl2 + 1:]
    changed = True
    while changed:
        text, changed = _apply_once(text, 'map', fn)
    return text


def find_loops(text):
    """Return the loops of a body in source order: list of dict(kind, start, hdr_end(index of '{'), close)."""
    m = mask(text)
    res = []
    for mm in re.finditer(r'\b(while|loop|for)\b', m):
        kw = mm.group(1)
        # `for` in `impl X for Y` / HRTB does not occur inside bodies we extract
        j = mm.end()
        # find the body '{' at bracket depth 0 — for `while`/`for`, skip struct-literal-free condition
        k = j
        while k < len(m):
            ch = m[k]
            if ch in '([':
                k = match_close(m, k)
            elif ch == '{':
                # `while match X { ... } {` — the first brace after `match` belongs to the match
                seg = m[j:k]
                if re.search(r'\bmatch\b', seg) and not _match_closed(m, j, k):
                    k = match_close(m, k)
                else:
                    break
            k += 1
        if k >= len(m):
            continue
        res.append(dict(kind=kw, start=mm.start(), hdr_end=k, close=match_close(m, k)))
    return res


def _match_closed(m, j, k):
    """Between j and k, is every `match` keyword already followed by a closed {...}?"""
    seg = m[j:k]
    pos = 0
    for mm in re.finditer(r'\bmatch\b', seg):
        b = seg.find('{', mm.end())
        if b < 0:
            return False
        # is there a brace block fully inside seg starting at b?
        try:
            c = match_close(seg + '', b)
        except LostAnchor:
            return False
        if c >= len(seg):
            return False
    return True


def rule_R4(text, log):
    """for P in &mut V { B }  ==>  index loop with `let P = &mut V[i__];`"""
    n = 0
    while True:
        m = mask(text)
        mm = re.search(r'\bfor\s+(' + IDENT + r')\s+in\s+&mut\s+([A-Za-z0-9_\.]+)\s*\{', m)
        if not mm:
            return text
        op = mm.end() - 1
        cl = match_close(m, op)
        p, v = mm.group(1), mm.group(2)
        i = 'i__%d' % n
        n += 1
        body = text[op + 1:cl]
        before = text[mm.start():op + 1] + ' ... }'
        after = ('{ let mut %s: usize = 0; while %s < %s.len() { let %s = &mut %s[%s];%s %s += 1; } }'
                 % (i, i, v, p, v, i, body, i))
        log.append(dict(rule='R4', before=before, after='{ let mut %s: usize = 0; while %s < %s.len() { let %s = &mut %s[%s]; ... %s += 1; } }' % (i, i, v, p, v, i, i)))
        text = text[:mm.start()] + after + text[cl + 1:]


def rule_R5(text, log):
    """for PAT in EXPR { B }  ==>  { let mut it__ = EXPR; loop { match it__.next() { Some(PAT) => { B }, None => { break; } } } }
    (the language reference's desugaring of `for`, for EXPR that already is an iterator)"""
    n = 0
    while True:
        m = mask(text)
        mm = None
        for cand in re.finditer(r'\bfor\s+', m):
            # skip `for p in &mut V` (R4) and ranges
            j = cand.end()
            k = m.find(' in ', j)
            if k < 0:
                continue
            e = k + 4
            b = e
            while b < len(m) and m[b] != '{':
                if m[b] in '([':
                    b = match_close(m, b)
                b += 1
            expr = text[e:b].strip()
            if expr.startswith('&') or '..' in expr:
                continue
            mm = (cand.start(), j, k, e, b)
            break
        if mm is None:
            return text
        s0, j, k, e, b = mm
        cl = match_close(m, b)
        pat, expr, body = text[j:k].strip(), text[e:b].strip(), text[b + 1:cl]
        it = 'it__' if n == 0 else 'it__%d' % n
        n += 1
        after = '{ let mut %s = %s; loop { match %s.next() { Some(%s) => {%s}, None => { break; } } } }' % (it, expr, it, pat, body)
        log.append(dict(rule='R5', before='for %s in %s { ... }' % (pat, expr), after='{ let mut %s = %s; loop { match %s.next() { Some(%s) => { ... }, None => { break; } } } }' % (it, expr, it, pat)))
        text = text[:s0] + after + text[cl + 1:]


def rule_R14(text, log):
    """Name the tail expression of a function body:  { S; E }  ==>  { S; let ret__ = E; ret__ }
    (so that ghost text can follow the last call; evaluation order and value are unchanged)."""
    m = mask(text)
    o = m.index('{')
    c = match_close(m, o)
    # last ';' at depth 1
    depth, last = 0, o
    i = o
    while i < c:
        ch = m[i]
        if ch in '([{' and i != o:
            i = match_close(m, i)
        elif ch == ';':
            last = i
        i += 1
    tail = text[last + 1:c]
    if not tail.strip():
        return text
    # a block statement (if / match / while ... { } not followed by `.`, `else` or `?`) before the tail expression
    # ends a statement just like ';' does: the tail starts after the last such block
    tm = mask(tail)
    j = 0
    cut = 0
    while j < len(tm):
        if tm[j] in '([':
            j = match_close(tm, j)
        elif tm[j] == '{':
            j = match_close(tm, j)
            rest = tm[j + 1:].strip()
            if rest and not rest.startswith('.') and not rest.startswith('else') and not rest.startswith('?'):
                if not re.match(r'\s*(if|match|while|loop|for)\b', tm[cut:]):
                    raise LostAnchor('R14: tail of body is not a single expression')
                cut = j + 1
        j += 1
    last += cut
    tail = text[last + 1:c]
    new = ' let ret__ = ' + tail.strip() + '; ret__\n'
    log.append(dict(rule='R14', before=tail.strip()[:120], after='let ret__ = <tail>; ret__'))
    return text[:last + 1] + new + text[c:]


def rule_R15(text, log):
    """O.as_deref()  ==>  (match &O { Some(b__) => Some(&**b__), None => None })   (std: as_ref().map(Deref::deref))"""
    while True:
        m = mask(text)
        mm = re.search(r'\.\s*as_deref\s*\(\s*\)', m)
        if not mm:
            return text
        rs = receiver_start(m, mm.start())
        recv = text[rs:mm.start()].rstrip()
        after = '(match &%s { Some(b__) => Some(&**b__), None => None })' % recv
        log.append(dict(rule='R15', before=text[rs:mm.end()], after=after))
        text = text[:rs] + after + text[mm.end():]


def rule_R6bp(text, log):
    """O.map(path)  (a function path, value position)  ==>  (match O { Some(x__) => Some(path(x__)), None => None })"""
    while True:
        m = mask(text)
        mm = None
        for cand in re.finditer(r'\.\s*map\s*\(\s*([A-Za-z_][A-Za-z0-9_:]*)\s*\)', m):
            mm = cand
        if not mm:
            return text
        rs = receiver_start(m, mm.start())
        recv = text[rs:mm.start()].rstrip()
        after = '(match %s { Some(x__) => Some(%s(x__)), None => None })' % (recv, mm.group(1))
        log.append(dict(rule='R6b', before=text[rs:mm.end()], after=after))
        text = text[:rs] + after + text[mm.end():]


def _for_loops(text):
    """Yield (start, pat, expr, brace_open, brace_close) for each `for PAT in EXPR {` in text."""
    m = mask(text)
    res = []
    for cand in re.finditer(r'\bfor\s+', m):
        j = cand.end()
        k = m.find(' in ', j)
        if k < 0:
            continue
        e = k + 4
        b = e
        while b < len(m) and m[b] != '{':
            if m[b] in '([':
                b = match_close(m, b)
            b += 1
        if b >= len(m):
            continue
        res.append((cand.start(), text[j:k].strip(), text[e:b].strip(), b, match_close(m, b)))
    return res


def rule_R4b(text, log):
    """for P in &V { B }  ==>  { let mut i__ = 0; while i__ < V.len() { let P = &V[i__]; B i__ += 1; } }  (shared iteration over a Vec)"""
    n = 0
    while True:
        hit = None
        for (s0, pat, expr, bo, bc) in _for_loops(text):
            if expr.startswith('&') and not expr.startswith('&mut') and re.fullmatch(r'&\s*[A-Za-z0-9_\.]+', expr) and re.fullmatch(IDENT, pat):
                hit = (s0, pat, expr, bo, bc)
                break
        if not hit:
            return text
        s0, pat, expr, bo, bc = hit
        v = expr[1:].strip()
        i = 'ib__%d' % n
        n += 1
        body = text[bo + 1:bc]
        after = '{ let mut %s: usize = 0; while %s < %s.len() { let %s = &%s[%s];%s %s += 1; } }' % (i, i, v, pat, v, i, body, i)
        log.append(dict(rule='R4b', before='for %s in %s { ... }' % (pat, expr), after='{ let mut %s: usize = 0; while %s < %s.len() { let %s = &%s[%s]; ... %s += 1; } }' % (i, i, v, pat, v, i, i)))
        text = text[:s0] + after + text[bc + 1:]


def rule_R4c(text, log):
    """for I in (A)..(B) { S }  ==>  { let mut I = A; let end__ = B; while I < end__ { S I += 1; } }   (half-open usize range)"""
    n = 0
    while True:
        hit = None
        for (s0, pat, expr, bo, bc) in _for_loops(text):
            if '..' in expr and '..=' not in expr and re.fullmatch(IDENT, pat):
                hit = (s0, pat, expr, bo, bc)
                break
        if not hit:
            return text
        s0, pat, expr, bo, bc = hit
        em = mask(expr)
        k = em.index('..')
        a, b = expr[:k].strip(), expr[k + 2:].strip()
        end = 'end__%d' % n
        n += 1
        body = text[bo + 1:bc]
        after = '{ let mut %s = %s; let %s = %s; while %s < %s {%s %s += 1; } }' % (pat, a, end, b, pat, end, body, pat)
        log.append(dict(rule='R4c', before='for %s in %s { ... }' % (pat, expr), after='{ let mut %s = %s; let %s = %s; while %s < %s { ... %s += 1; } }' % (pat, a, end, b, pat, end, pat)))
        text = text[:s0] + after + text[bc + 1:]


def rule_R4d(text, log):
    """for PAT in V { B }  (V: Vec of Copy elements, consumed)  ==>  { let v__ = V; let mut i__ = 0; while i__ < v__.len() { let PAT = v__[i__]; B i__ += 1; } }"""
    n = 0
    while True:
        hit = None
        for (s0, pat, expr, bo, bc) in _for_loops(text):
            if re.fullmatch(r'[A-Za-z0-9_\.]+', expr) and '..' not in expr:
                hit = (s0, pat, expr, bo, bc)
                break
        if not hit:
            return text
        s0, pat, expr, bo, bc = hit
        i, v = 'id__%d' % n, 'vd__%d' % n
        n += 1
        body = text[bo + 1:bc]
        after = '{ let %s = %s; let mut %s: usize = 0; while %s < %s.len() { let %s = %s[%s];%s %s += 1; } }' % (v, expr, i, i, v, pat, v, i, body, i)
        log.append(dict(rule='R4d', before='for %s in %s { ... }' % (pat, expr), after='{ let %s = %s; let mut %s: usize = 0; while %s < %s.len() { let %s = %s[%s]; ... %s += 1; } }' % (v, expr, i, i, v, pat, v, i, i)))
        text = text[:s0] + after + text[bc + 1:]


def rule_R9c(text, log):
    """X.iter().map(|p| E).sum::<usize>()  ==>  { let mut sum__: usize = 0; let mut is__ = 0; while is__ < X.len() { let p = &X[is__]; sum__ += E; is__ += 1; } sum__ }"""
    while True:
        m = mask(text)
        mm = re.search(r'\.\s*sum\s*::\s*<\s*usize\s*>\s*\(\s*\)', m)
        if not mm:
            return text
        # the receiver is `X.iter().map(|p| E)`
        calls = [c for c in find_closure_calls(text[:mm.start()], 'map')]
        if not calls:
            return text
        c = calls[-1]
        if text[c['close'] + 1:mm.start()].strip() != '':
            return text
        recv = text[c['recv_start']:c['dot']].rstrip()
        mi = re.fullmatch(r'(.*?)\s*\.\s*iter\s*\(\s*\)', recv, re.S)
        if not mi:
            return text
        x = re.sub(r'\s+', '', mi.group(1))
        after = '{ let mut sum__: usize = 0; let mut is__: usize = 0; while is__ < %s.len() { let %s = &%s[is__]; sum__ += %s; is__ += 1; } sum__ }' % (x, c['params'], x, c['body'])
        log.append(dict(rule='R9c', before=text[c['recv_start']:mm.end()][:200], after=after[:200]))
        text = text[:c['recv_start']] + after + text[mm.end():]


def rule_R16(text, log):
    """`&x` inside a loop pattern (ref pattern)  ==>  bind `x__r` and start the body with `let x = *x__r;`  (applied to R5 output)"""
    while True:
        m = mask(text)
        mm = re.search(r'Some\(\(([^()]*?)&\s*(' + IDENT + r')([^()]*?)\)\)\s*=>\s*\{', m)
        if not mm:
            return text
        x = mm.group(2)
        new = 'Some((%s%s__r%s)) => { let %s = *%s__r;' % (mm.group(1), x, mm.group(3), x, x)
        log.append(dict(rule='R16', before=text[mm.start():mm.end()], after=new))
        text = text[:mm.start()] + new + text[mm.end():]


def rule_R9b(text, log):
    """X.iter().map(|p| E).collect()  ==>  { let mut out__ = Vec::new(); let mut ic__ = 0; while ic__ < X.len() { let p = &X[ic__]; out__.push(E); ic__ += 1; } out__ }
    (a..b).map(|i| E).collect()      ==>  { let mut out__ = Vec::new(); let mut i = a; let endc__ = b; while i < endc__ { out__.push(E); i += 1; } out__ }"""
    n = 0
    while True:
        m = mask(text)
        hit = None
        for c in find_closure_calls(text, 'map'):
            mm = re.match(r'\s*\.\s*collect\s*\(\s*\)', m[c['close'] + 1:])
            if not mm:
                continue
            recv = text[c['recv_start']:c['dot']].rstrip()
            end = c['close'] + 1 + mm.end()
            mi = re.fullmatch(r'(.*?)\s*\.\s*iter\s*\(\s*\)', recv, re.S)
            if mi and re.fullmatch(IDENT, c['params']):
                x = re.sub(r'\s+', '', mi.group(1))
                sfx = '' if n == 0 else str(n)
                after = '{ let mut out__%s = Vec::new(); let mut ic__%s: usize = 0; while ic__%s < %s.len() { let %s = &%s[ic__%s]; out__%s.push(%s); ic__%s += 1; } out__%s }' % (
                    sfx, sfx, sfx, x, c['params'], x, sfx, sfx, c['body'], sfx, sfx)
                hit = (c['recv_start'], end, after)
                break
            mr = re.fullmatch(r'\(\s*(.*?)\s*\.\.\s*(.*?)\s*\)', recv, re.S)
            if mr and re.fullmatch(IDENT, c['params']):
                sfx = '' if n == 0 else str(n)
                after = '{ let mut out__%s = Vec::new(); let mut %s = %s; let endc__%s = %s; while %s < endc__%s { out__%s.push(%s); %s += 1; } out__%s }' % (
                    sfx, c['params'], mr.group(1), sfx, mr.group(2), c['params'], sfx, sfx, c['body'], c['params'], sfx)
                hit = (c['recv_start'], end, after)
                break
        if not hit:
            return text
        n += 1
        a, b, after = hit
        log.append(dict(rule='R9b', before=text[a:b][:200], after=after[:240]))
        text = text[:a] + after + text[b:]


def rule_R18(text, log):
    """O.ok_or_else(|| E)  ==>  (match O { Some(x__) => Ok(x__), None => Err(E) })     (std definition)"""
    def fn(t, m, c):
        if c['params'] != '':
            return None
        recv = t[c['recv_start']:c['dot']].rstrip()
        before = t[c['recv_start']:c['close'] + 1]
        after = '(match %s { Some(x__) => Ok(x__), None => Err(%s) })' % (recv, c['body'])
        log.append(dict(rule='R18', before=before[:200], after=after[:200]))
        return t[:c['recv_start']] + after + t[c['close'] + 1:]
    changed = True
    while changed:
        text, changed = _apply_once(text, 'ok_or_else', fn)
    return text


def rule_R19(text, log):
    """E.map_err(|_| X)  ==>  (match E { Ok(x__) => Ok(x__), Err(_) => Err(X) })     (std definition)"""
    def fn(t, m, c):
        if c['params'] != '_':
            return None
        recv = t[c['recv_start']:c['dot']].rstrip()
        before = t[c['recv_start']:c['close'] + 1]
        after = '(match %s { Ok(x__) => Ok(x__), Err(_) => Err(%s) })' % (recv, c['body'])
        log.append(dict(rule='R19', before=before[:200], after=after[:200]))
        return t[:c['recv_start']] + after + t[c['close'] + 1:]
    changed = True
    while changed:
        text, changed = _apply_once(text, 'map_err', fn)
    return text


def rule_R4f(text, log):
    """for _ in (A..B).step_by(K) { S }  ==>  { let mut st__ = A; let e__ = B; while st__ < e__ { S st__ += K; } }"""
    while True:
        hit = None
        for (s0, pat, expr, bo, bc) in _for_loops(text):
            mm = re.fullmatch(r'\(\s*(.*?)\s*\.\.\s*(.*?)\s*\)\s*\.\s*step_by\s*\(\s*(\w+)\s*\)', expr, re.S)
            if mm and pat == '_':
                hit = (s0, mm, bo, bc)
                break
        if not hit:
            return text
        s0, mm, bo, bc = hit
        body = text[bo + 1:bc]
        after = '{ let mut st__ = %s; let e__ = %s; while st__ < e__ {%s st__ += %s; } }' % (mm.group(1), mm.group(2), body, mm.group(3))
        log.append(dict(rule='R4f', before='for _ in (%s..%s).step_by(%s) { ... }' % mm.groups(), after='{ let mut st__ = %s; let e__ = %s; while st__ < e__ { ... st__ += %s; } }' % mm.groups()))
        text = text[:s0] + after + text[bc + 1:]


def rule_R4e(text, log):
    """for (I, P) in V.into_iter().enumerate() { B }  (V: Vec of Copy elements)  ==>
       { let ve__ = V; let mut ie__ = 0; while ie__ < ve__.len() { let I = ie__; let P = ve__[ie__]; B ie__ += 1; } }"""
    while True:
        hit = None
        for (s0, pat, expr, bo, bc) in _for_loops(text):
            mm = re.fullmatch(r'([A-Za-z0-9_\.]+)\s*\.\s*into_iter\s*\(\s*\)\s*\.\s*enumerate\s*\(\s*\)', expr, re.S)
            mp = re.fullmatch(r'\(\s*(' + IDENT + r')\s*,\s*(' + IDENT + r')\s*\)', pat)
            if mm and mp:
                hit = (s0, mm.group(1), mp.group(1), mp.group(2), bo, bc)
                break
        if not hit:
            return text
        s0, v, i, p_, bo, bc = hit
        body = text[bo + 1:bc]
        after = '{ let ve__ = %s; let mut ie__: usize = 0; while ie__ < ve__.len() { let %s = ie__; let %s = ve__[ie__];%s ie__ += 1; } }' % (v, i, p_, body)
        log.append(dict(rule='R4e', before='for (%s, %s) in %s.into_iter().enumerate() { ... }' % (i, p_, v), after='{ let ve__ = %s; let mut ie__: usize = 0; while ie__ < ve__.len() { let %s = ie__; let %s = ve__[ie__]; ... ie__ += 1; } }' % (v, i, p_)))
        text = text[:s0] + after + text[bc + 1:]


def rule_R3c(text, log):
    """O.get_or_insert(V)  ==>  ({ if O.is_none() { O = Some(V); } O.as_mut().unwrap() })   (V is a pure expression)"""
    while True:
        m = mask(text)
        mm = re.search(r'\.\s*get_or_insert\s*\(', m)
        if not mm:
            return text
        op = m.index('(', mm.start())
        cl = match_close(m, op)
        rs = receiver_start(m, mm.start())
        recv = re.sub(r'\s+', '', text[rs:mm.start()])
        v = text[op + 1:cl].strip()
        after = '({ if %s.is_none() { %s = Some(%s); } %s.as_mut().unwrap() })' % (recv, recv, v, recv)
        log.append(dict(rule='R3c', before=text[rs:cl + 1][:200], after=after))
        text = text[:rs] + after + text[cl + 1:]


def rule_R19p(text, log):
    """E.map_err(path)  ==>  (match E { Ok(x__) => Ok(x__), Err(e__) => Err(path(e__)) })"""
    while True:
        m = mask(text)
        mm = None
        for cand in re.finditer(r'\.\s*map_err\s*\(\s*([A-Za-z_][A-Za-z0-9_:]*)\s*\)', m):
            mm = cand
        if not mm:
            return text
        rs = receiver_start(m, mm.start())
        recv = text[rs:mm.start()].rstrip()
        after = '(match %s { Ok(x__) => Ok(x__), Err(e__) => Err(%s(e__)) })' % (recv, mm.group(1))
        log.append(dict(rule='R19', before=text[rs:mm.end()][:200], after=after[:200]))
        text = text[:rs] + after + text[mm.end():]


def rule_R9(text, log):
    """(0..N).filter_map(|n| E).collect()   [collecting Option<Result<T>> items into Result<Vec<T>>]  ==>
       { let mut out__ = Vec::new(); let mut err__ = None; let mut n = 0; while n < N && err__.is_none() { match E { Some(Ok(x__)) => { out__.push(x__); } Some(Err(e__)) => { err__ = Some(e__); } None => {} } n += 1; } match err__ { Some(e__) => Err(e__), None => Ok(out__) } }
    (std: filter_map drops None, collect into Result stops at the first Err)"""
    while True:
        m = mask(text)
        hit = None
        for c in find_closure_calls(text, 'filter_map'):
            mm = re.match(r'\s*\.\s*collect\s*(::\s*<\s*Result\s*<\s*Vec\s*<\s*_\s*>\s*>\s*>\s*)?\(\s*\)', m[c['close'] + 1:])
            recv = text[c['recv_start']:c['dot']].strip()
            mr = re.fullmatch(r'\(\s*0\s*\.\.\s*(\w+)\s*\)', recv)
            if mm and mr and re.fullmatch(IDENT, c['params']):
                hit = (c, c['close'] + 1 + mm.end(), mr.group(1))
                break
        if not hit:
            return text
        c, end, n_ = hit
        v = c['params']
        after = ('{ let mut out__ = Vec::new(); let mut err__ = None; let mut %s = 0; while %s < %s && err__.is_none() { match %s { Some(Ok(x__)) => { out__.push(x__); } Some(Err(e__)) => { err__ = Some(e__); } None => {} } %s += 1; } match err__ { Some(e__) => Err(e__), None => Ok(out__) } }'
                 % (v, v, n_, c['body'], v))
        log.append(dict(rule='R9', before=text[c['recv_start']:end][:200], after=after[:260]))
        text = text[:c['recv_start']] + after + text[end:]


def rule_R9z(text, log):
    """std::iter::zip(A, B).map(|(a, b)| E).collect()   (A: a slice borrowed, B: a Vec consumed)  ==>
       { let mut out__ = Vec::new(); let mut zb__ = vec_into_iter(B); let mut iz__: usize = 0; let mut more__ = true;
         while more__ && iz__ < A.len() { match zb__.next() { Some(b) => { let a = &A[iz__]; out__.push(E); iz__ += 1; } None => { more__ = false; } } } out__ }
    (std: Zip::next takes from A first, then from B, and stops at the first None; B's items are moved out in order)"""
    while True:
        m = mask(text)
        hit = None
        for c in find_closure_calls(text, 'map'):
            mm = re.match(r'\s*\.\s*collect\s*\(\s*\)', m[c['close'] + 1:])
            recv = text[c['recv_start']:c['dot']].strip()
            mz = re.fullmatch(r'std\s*::\s*iter\s*::\s*zip\s*\(\s*(' + IDENT + r')\s*,\s*([\w.]+)\s*\)', recv)
            mp = re.fullmatch(r'\(\s*(' + IDENT + r')\s*,\s*(' + IDENT + r')\s*\)', c['params'])
            if mm and mz and mp:
                hit = (c, c['close'] + 1 + mm.end(), mz, mp)
                break
        if not hit:
            return text
        c, end, mz, mp = hit
        after = ('{ let mut out__ = Vec::new(); let mut zb__ = vec_into_iter(%s); let mut iz__: usize = 0; let mut more__ = true; while more__ && iz__ < %s.len() { match zb__.next() { Some(%s) => { let %s = &%s[iz__]; out__.push(%s); iz__ += 1; } None => { more__ = false; } } } out__ }'
                 % (mz.group(2), mz.group(1), mp.group(2), mp.group(1), mz.group(1), c['body']))
        log.append(dict(rule='R9z', before=text[c['recv_start']:end][:200], after=after[:300]))
        text = text[:c['recv_start']] + after + text[end:]


def rule_R9y(text, log):
    """X.into_iter().map(|p| E).collect()   (X: a Vec consumed, p an identifier)  ==>
       { let mut out__ = Vec::new(); let mut it__ = vec_into_iter(X); let mut more__ = true;
         while more__ { match it__.next() { Some(p) => { out__.push(E); } None => { more__ = false; } } } out__ }
    (std: IntoIter yields the items in order, moving them out; collect keeps the order)"""
    while True:
        m = mask(text)
        hit = None
        for c in find_closure_calls(text, 'map'):
            mm = re.match(r'\s*\.\s*collect\s*\(\s*\)', m[c['close'] + 1:])
            recv = text[c['recv_start']:c['dot']].strip()
            mi = re.fullmatch(r'([\w.]+)\s*\.\s*into_iter\s*\(\s*\)', recv)
            if mm and mi and re.fullmatch(IDENT, c['params']):
                hit = (c, c['close'] + 1 + mm.end(), mi.group(1))
                break
        if not hit:
            return text
        c, end, x = hit
        after = ('{ let mut out__ = Vec::new(); let mut it__ = vec_into_iter(%s); let mut more__ = true; while more__ { match it__.next() { Some(%s) => { out__.push(%s); } None => { more__ = false; } } } out__ }'
                 % (x, c['params'], c['body']))
        log.append(dict(rule='R9y', before=text[c['recv_start']:end][:200], after=after[:300]))
        text = text[:c['recv_start']] + after + text[end:]


def rule_R22(text, log):
    """match E { Some("a") => A, Some("b") => B, ..., _ => D }   (every pattern but the last a Some(string literal))  ==>
       { let m__ = E; if opt_str_is(&m__, "a") { A } else if opt_str_is(&m__, "b") { B } ... else { D } }
    (first matching arm wins; the literals are pairwise distinct, checked here)"""
    while True:
        m = mask(text)
        hit = None
        for mm in re.finditer(r'\bmatch\b', m):
            o = m.find('{', mm.end())
            if o < 0:
                continue
            # the scrutinee must not itself contain a block
            c = match_close(m, o)
            arms = []
            i = o + 1
            ok = True
            while True:
                while i < c and m[i] in ' \t\n,':
                    i += 1
                if i >= c:
                    break
                arrow = m.find('=>', i)
                if arrow < 0 or arrow > c:
                    ok = False
                    break
                pat = text[i:arrow].strip()
                j = arrow + 2
                while j < c and m[j] in ' \t\n':
                    j += 1
                if m[j] == '{':
                    e = match_close(m, j)
                    body = text[j:e + 1]
                    i = e + 1
                else:
                    e = j
                    while e < c and m[e] != ',':
                        if m[e] in '([{':
                            e = match_close(m, e)
                        e += 1
                    body = '{ ' + text[j:e].strip() + ' }'
                    i = e
                arms.append((pat, body))
            if not ok or len(arms) < 2 or arms[-1][0] != '_':
                continue
            lits = []
            for pat, _ in arms[:-1]:
                ml = re.fullmatch(r'Some\(\s*("[^"\\]*")\s*\)', pat)
                if not ml:
                    ok = False
                    break
                lits.append(ml.group(1))
            if not ok or len(set(lits)) != len(lits):
                continue
            hit = (mm.start(), o, c, arms, lits)
            break
        if not hit:
            return text
        start, o, c, arms, lits = hit
        scrut = text[start + 5:o].strip()
        chain = ' else '.join('if opt_str_is(&m__, %s) %s' % (l, b) for l, (_, b) in zip(lits, arms[:-1]))
        after = '{ let m__ = %s; %s else %s }' % (scrut, chain, arms[-1][1])
        log.append(dict(rule='R22', before=text[start:o + 1][:160] + ' ... }', after=after[:300]))
        text = text[:start] + after + text[c + 1:]


IF_MORE_BODY = 'Ok(match r.is_empty() { true => None, _ => Some(f(r)?), })'


def rule_R8i(text, log, helper_body=None):
    """if_more(r, |r| B)   ==>   (if r.is_empty() { Result::Ok(None) } else { Result::Ok(Some({ let res__: Result<_> = B; res__ }?)) })   [Result = the crate alias, fixing the error type]
    beta-reduction of the call with if_more's own body `Ok(match r.is_empty() { true => None, _ => Some(f(r)?) })`;
    the assembler applies it only after checking that the extracted if_more body is textually that (see assemble.py);
    a `?` inside B leaves the caller with the same Err that if_more would have passed on."""
    while True:
        m = mask(text)
        mm = re.search(r'\bif_more\s*\(\s*r\s*,\s*\|\s*r\s*\|', m)
        if not mm:
            return text
        op = m.index('(', mm.start())
        cl = match_close(m, op)
        bar2 = m.index('|', m.index('|', op) + 1)
        body = text[bar2 + 1:cl].strip()
        if body.endswith(','):
            body = body[:-1].rstrip()
        after = '(if r.is_empty() { Result::Ok(None) } else { Result::Ok(Some({ let res__: Result<_> = %s; res__ }?)) })' % body
        log.append(dict(rule='R8i', before=text[mm.start():cl + 1][:160], after=after[:200]))
        text = text[:mm.start()] + after + text[cl + 1:]


def rule_R4g(text, log):
    """for (K, V) in M { B }  (M: &serde_json::Map)  ==>  { let mut im__ = 0; while im__ < M.len() { let (K, V) = M.entry(im__); B im__ += 1; } }
    (IntoIterator for &Map yields the entries in order)"""
    while True:
        hit = None
        for (s0, pat, expr, bo, bc) in _for_loops(text):
            if re.fullmatch(r'\(\s*' + IDENT + r'\s*,\s*' + IDENT + r'\s*\)', pat) and re.fullmatch(IDENT, expr):
                hit = (s0, pat, expr, bo, bc)
                break
        if not hit:
            return text
        s0, pat, expr, bo, bc = hit
        body = text[bo + 1:bc]
        after = '{ let mut im__: usize = 0; while im__ < %s.len() { let %s = %s.entry(im__);%s im__ += 1; } }' % (expr, pat, expr, body)
        log.append(dict(rule='R4g', before='for %s in %s { ... }' % (pat, expr), after='{ let mut im__: usize = 0; while im__ < %s.len() { let %s = %s.entry(im__); ... im__ += 1; } }' % (expr, pat, expr)))
        text = text[:s0] + after + text[bc + 1:]


RULES = {'R9y': rule_R9y, 'R22': rule_R22, 'R9z': rule_R9z, 'R4g': rule_R4g, 'R8i': rule_R8i, 'R9': rule_R9, 'R3c': rule_R3c, 'R19p': rule_R19p, 'R4e': rule_R4e, 'R4f': rule_R4f, 'R19': rule_R19, 'R9b': rule_R9b, 'R18': rule_R18, 'R4b': rule_R4b, 'R4c': rule_R4c, 'R4d': rule_R4d, 'R9c': rule_R9c, 'R16': rule_R16, 'R5': rule_R5, 'R15': rule_R15, 'R6bp': rule_R6bp,
    'R1': rule_R1, 'R2': rule_R2, 'R3': rule_R3, 'R3b': rule_R3b, 'R4': rule_R4,
    'R6': rule_R6, 'R6b': rule_R6b, 'R6c': rule_R6c,
}
DEFAULT_ORDER = ['R15', 'R18', 'R19', 'R19p', 'R3c', 'R9', 'R6c', 'R9b', 'R1', 'R2', 'R3', 'R3b', 'R6', 'R6b', 'R6bp', 'R4']


def apply_rules(text, log, rules=None):
    for r in (rules or DEFAULT_ORDER):
        text = RULES[r](text, log)
    return text
