"""Per-property wording for MANIFEST.json (level text, level note, technique)."""
HOOK_COMMITS = []
NOTES = ('Every check assembles Verus unit files from /repo\'s working tree on every run (bin/vp/assemble.py), verifies them, '
         'and exits 0 / 1 (VIOLATION) / 2 (UNDECIDED: lost anchor, unsupported construct, tool limit; never an alarm). See DESIGN.md.')
NA_PENDING = 'not yet brought under contract in this session; see DESIGN.md §5 for the plan'
NOT_APPLICABLE = {('C%02d' % i): NA_PENDING for i in range(1, 21)}

TEXT = {
 'C03': dict(
   technique='Verus contracts on the extracted generated readers (read_push/with_capacity/Version::gte) against an independent Slippi layout table',
   level='Deductive proof (Verus/Z3), unbounded in version and payload bytes: for each of the 11 codec structs, read_push appends exactly the big-endian value at the spec-table offset to each column, consumes exactly the table size, fails iff the payload is shorter; with_capacity makes a column present iff version >= introducing version; Version::gte/lt equal the lexicographic order. Verified on the real function bodies extracted from /repo each run.',
   note='Assumed: shim contracts for byteorder reads on &[u8] and arrow2 MutablePrimitiveArray/MutableBitmap push/len; f32 carried as bit pattern; extractor rewrite rules R1/R2/R3/R3b/R6b/R6c; spec table is a faithful transcription of the Slippi spec. The event-header stripping in parse_event is covered under C04.',
   design_ref='DESIGN.md §5 C03'),
 'C13': dict(
   technique='Verus contracts on the extracted transpose_one functions (row view == column values at index i)',
   level='Deductive proof (Verus/Z3) for all versions, indices and column contents: every field of the transposed row equals values()[i] of the column of the same name; optional fields are Some iff the column is present; nested records compose.',
   note='Assumed: shim contract of MutablePrimitiveArray::values (dense buffer, view-consistent); currently covers the in-progress (mutable) representation of the 11 codec structs; immutable representation and Frame-level item slicing are added by later units.',
   design_ref='DESIGN.md §5 C13'),
 'C09': dict(
   engine='kani+verus',
   technique='Kani loop-free harness over all 2^24 versions on the real assert_max_version (complete), plus Verus contracts on both writers (guard called first, Err propagated)',
   level='Complete proof by Kani/CBMC on the real compiled crate: assert_max_version(v) is Ok exactly when (major, minor, patch) <= (3, 16, 0) lexicographically, for all 2^24 versions; Verus on the extracted slippi::ser::write: the guard runs first and its Err is returned (nothing is written on that path).',
   note='Trusted: Kani 0.68/CBMC; alloc::fmt::format stubbed (error text irrelevant). The derived Ord on Version is part of what is checked (real code).',
   design_ref='DESIGN.md §5 C09'),
 'C20': dict(
   engine='verus+kani',
   technique='Verus contract on extracted Version::gte/lt against the arithmetic lexicographic order; Kani complete harnesses (all u8^5) on the real crate incl. monotonicity',
   level='Proof for all versions and thresholds: gte == lexicographic >= on (major, minor), lt == its negation (Verus on extracted code, Kani on compiled code), and every gate is monotone in the version (Kani, all pairs).',
   note='Display/FromStr round-trip and rejection of malformed strings go through core::fmt / str::split / str::parse: outside Verus, and only bounded in CBMC (see evidence bounded_checks; never counted as proved).',
   design_ref='DESIGN.md §5 C20'),
 'C15': dict(
   technique='Verus loop invariant on the extracted rollbacks_ (seen-set == ids visited so far) and contract on rollbacks (forward / reversed visiting order)',
   level='Unbounded deductive proof (Verus/Z3) on the extracted bodies of Frame::rollbacks and rollbacks_: for any number of rows and any repetition pattern with ids in [-123, i32::MAX-123], the mask has one bool per row; keep-first marks row i iff some j<i has the same id, keep-last iff some j>i has. A second contract on the same body without the upper bound exposes the i32 overflow (known finding F9).',
   note='Assumed: shim contracts for PrimitiveArray::values_iter/len, Iterator::enumerate/rev/max/next (sequence semantics from the std docs); rewrite rules R5 (for -> loop/next), R6 (map_or), R14 (named tail); the corollaries (one unmarked row per distinct id; no repeats => all false) follow from the stated postconditions and are not separately mechanised.',
   design_ref='DESIGN.md §5 C15'),
 'C11': dict(
   technique='Verus representation invariant on the extracted HashingReader (hasher.fed == bytes delivered) + contracts on new/read/seek/into_digest/format_hash',
   level='Deductive proof (Verus/Z3) on the extracted HashingReader: for ANY inner reader and ANY sequence of short reads, while hashing is on the hasher has been fed exactly the bytes delivered (invariant preserved by read); new() hashes iff requested; seek() switches hashing off; into_digest() is None iff not hashing and otherwise "xxh3:" + 16 lowercase hex digits of XXH3-64(consumed bytes).',
   note='Assumed: std::io::Read::read_exact/by_ref are what std documents (built from `read`); Xxh3::{new,update,digest} accumulate bytes and XXH3-64 itself is trusted/uninterpreted; `format!("xxh3:{:016x}", d)` has std\'s documented meaning (macro shadowed per literal: any other format string fails the clause). The de::read part (seek only when not hashing; hash stored in the game) and the .slpp passthrough are covered where the read/peppi units claim them.',
   design_ref='DESIGN.md §5 C11'),
 'C01': dict(
   technique='Verus contracts on the extracted .slp writer (file layout, payload table, canonical frame order, gecko blocks, raw start/end) and on the generated codecs (read_push / write) plus a machine-checked encode-after-decode inverse lemma per struct',
   level='Deductive proof (Verus/Z3), unbounded in version, ports, frames, items and field bit patterns, of the mechanisms the property names: (1) every generated read_push decodes the spec-table offsets and every generated write emits the same fields in table order; a generated, machine-checked lemma per struct shows emit(decode(bytes)) == bytes for all versions and bit patterns (NaN payloads are ordinary bit patterns); (2) From<mutable> is field-wise; (3) ser::write emits signature, raw length, payload table, raw Game Start, gecko blocks, frames, Game End (0/1/2 times), metadata marker, closing brace exactly as file_spec; (4) Frame::write emits, per frame row, start?, pre* (leader then follower, only present characters), item* (that frame\'s offset slice), post*, end? (loop invariants over frames, ports, items).',
   note='NOT mechanised: the file-level concatenation argument that de::read followed by ser::write is the identity on a canonical file (reader side is covered by C04/C08/C12 contracts; the glue is a written argument in DESIGN.md §5 C01). Assumed: shim contracts for byteorder/Write/arrow2 arrays; UBJSON metadata bytes are an uninterpreted function here (C16 covers the metadata codec); wf premises: raw blocks <= 65535 bytes, < 2^32 frames/items, gecko blob length = 512 * ceil(actual_size/512).',
   design_ref='DESIGN.md §5 C01'),
 'C17': dict(
   technique='Verus contracts on the extracted PayloadSizes::raw_size / frame_counts / gecko_codes_size / payload_sizes against an arithmetic spec of the raw element length; Frame::write and ser::write against the byte-level file spec',
   level='Deductive proof (Verus/Z3) for every game value satisfying the stated well-formedness (not only canonical ones): the declared raw length equals 2 + 3*|table| + start + end (only when present; twice with the duplicate quirk) + per-event-kind counts times (1 + payload size) + 517 per gecko block, where the counts are proved to be the number of frame rows, the number of present characters summed over ports (validity bitmaps) and the number of item rows; u32 overflow is excluded from the stated bound raw length <= u32::MAX. The written bytes depend only on the column view (file_spec), so non-canonical input order cannot show in the output.',
   note='The equality "sum over frames of emitted event lengths == counts formula" (a double-sum rearrangement over spec functions, independent of the code) is argued in DESIGN.md, not mechanised. Re-read equality (second read yields the same game) rests on the C01/C04 contracts plus that written argument. Defect F1 (end-less game: declared length 2 bytes too long) was found by this check and repaired (fix: commit 54396e1).',
   design_ref='DESIGN.md §5 C17'),
 'C04': dict(
   technique='Verus contract on the extracted parse_event (one postcondition with a complete frame condition per event kind), frame_close loop invariants, frame_open, Frame/PortData/Data::with_capacity and push_null',
   level='Deductive proof (Verus/Z3) that, from ANY structurally well-formed parser state (hence after every prefix of every history) and for any version/ports, one well-formed event has exactly this effect: Frame Start appends one id row and one start row (closing the previous frame first before 3.0); a pre/post event appends one decoded row to the pre/post columns of exactly the addressed character (slot = port index, leader/follower by the flag) with a `present` bit, every other character, port and column untouched (before 2.2 a pre event with the next id opens the row); an item event appends one item row; Frame End appends the item offset delimiting that frame\'s items and one end row, then pads every character that had no events with null rows marked absent so that every column has one entry per frame row; any other code leaves all frame columns untouched. with_capacity creates one column set per occupied port, with a follower exactly for Ice Climbers.',
   note='The induction over the whole event history (folding these single-event effects over a file) is a written argument (DESIGN.md §5 C04), not mechanised. Premise of the functional contract: the event is consistent with the open frame (port occupied, follower flag only on an ICs slot, frame id equals the open frame, event legal for the version, a closing event finds each character with both or neither of its events); the behaviour WITHOUT that premise is what C06 checks. Assumed: shim contracts for arrow2 mutable arrays/Offsets, read_push stubs (discharged in codec_mut), Event::try_from regenerated from the enum discriminants.',
   design_ref='DESIGN.md §5 C04'),
 'C08': dict(
   technique='Verus frame condition on the extracted parse_event for codes outside the known set + prefix-consumption clauses of the generated readers',
   level='Deductive proof (Verus/Z3): for ANY well-formed parser state, an event whose code is not one of the ten known codes but has an entry in the payload-size table consumes exactly 1 + size bytes, returns Ok, and leaves every frame column, the game end, gecko codes and accumulator unchanged (only the consumed-byte count grows) - so it holds at every boundary and any number of times; a code without a table entry is an error. Every generated reader consumes exactly the table size for the version and ignores the rest of the payload (read_push contracts), so longer payloads of newer versions decode to the same values.',
   note='The Game Start / Game End optional tails (if_more) for newer versions are covered by the start/end unit (C05). Payload-table parsing keyed by raw code is in the reader unit.',
   design_ref='DESIGN.md §5 C08'),
}
