"""Assemble a Verus unit file from a template (contracts) + items extracted from /repo.

Template directives (each on its own line):

  //@use <shim file>                                   textual include of /verif/shim/<file>
  //@struct <relpath> <Name>                           extracted struct (attributes/docs dropped: D1)
  //@enum <relpath> <Name>
  //@const <relpath> <NAME>
  //@fn <relpath> | <impl header or -> | <fn name> [| opt ...]
       opts: ret=<name>     name the return value  (`-> T` becomes `-> (name: T)`)
             stub           keep signature + contract, body replaced by unimplemented!() (external_body);
                            the same contract is discharged against the real body in another unit
             twin=<suffix>  emit the function under the name <fn><suffix> (second contract on same body)
             rules=R1,R2    restrict/choose rewrite rules (default: all)
             drop=<regex>   (may repeat) drop statements matching regex (documented drops D2/D3)
             sub=/a/b/      (may repeat) literal substitution on the body, logged as rule 'SUB'
     following lines up to //@end are spec text: the function contract, then optional sections
       //@loop <n>          invariant/decreases text for the n-th loop (source order, 1-based)
       //@closure <n>       replacement header for the n-th closure `|...|` (spec-only return + ensures)
       //@after <snippet>   ghost text inserted after the first statement containing <snippet>
       //@before <snippet>  ghost text inserted before the first statement containing <snippet> (`^` = the start of the body)
  //@end

Only spec text can be added to an extracted body; the assembler re-derives the body without the
spliced text and checks it equals the post-rewrite body (fidelity check).
"""
import os
import re
from .rustsrc import Src, LostAnchor, mask, match_close, strip_attrs_and_docs
from . import rewrite

REPO = os.environ.get('VERIF_REPO', '/repo')
VERIF = os.path.dirname(os.path.dirname(os.path.dirname(os.path.abspath(__file__))))


class Unsupported(Exception):
    pass


def impl_is_trait(impl):
    return bool(re.search(r'\bfor\b', impl))


def add_false(contract):
    """Append `false` to the ensures list of a contract (list of lines)."""
    txt = '\n'.join(contract)
    m = re.search(r'^\s*decreases\b', txt, re.M)
    head, tail = (txt[:m.start()], txt[m.start():]) if m else (txt, '')
    if re.search(r'\bensures\b', head):
        head = head.rstrip()
        if not head.endswith(','):
            head += ','
        head += '\n\t\tfalse /*[vacuity]*/,\n'
    else:
        head = head.rstrip() + '\n\tensures false /*[vacuity]*/,\n'
    return (head + tail).split('\n')


class Assembler:
    def __init__(self, repo=REPO, vacuity=False):
        self.repo = repo
        self.vacuity = vacuity
        self.vac_twins = []
        self.srcs = {}
        self.items = []        # evidence: extracted items
        self.rule_log = []     # evidence: rewrite firings
        self.labels = {}       # output line -> label
        self.fn_lines = []     # (first_line, last_line, qualified fn name, kind)
        self.shims = []

    def src(self, rel):
        if rel not in self.srcs:
            p = os.path.join(self.repo, rel)
            if not os.path.exists(p):
                raise LostAnchor('file %s missing' % rel)
            self.srcs[rel] = Src(p)
        return self.srcs[rel]

    # ------------------------------------------------------------------------------------
    def assemble(self, template_text, unit_name):
        out = []
        lines = ['#![allow(non_snake_case, unused_imports, unused_variables, dead_code, unused_mut, unused_parens, unused_braces)]'] + self._expand_uses(template_text.split('\n'))
        i = 0

        def emit(text, fn=None):
            for l in text.split('\n'):
                out.append(l)
                m = re.search(r'/\*\[([^\]]+)\]\*/', l)
                if m:
                    self.labels[len(out)] = m.group(1)

        self._template_text = '\n'.join(lines)
        while i < len(lines):
            line = lines[i]
            s = line.strip()
            if s.startswith('//@struct ') or s.startswith('//@enum ') or s.startswith('//@const '):
                head_, *extra = [x.strip() for x in s.split(' | ')]
                kind, rel, name = head_.split()[:3]
                extra = extra + head_.split()[3:]
                src = self.src(rel)
                a, b = {'//@struct': src.find_struct, '//@enum': src.find_enum, '//@const': src.find_const}[kind](name)
                txt = strip_attrs_and_docs(src.text[a:b])
                for ex in extra:
                    if ex.startswith('keep='):
                        # D5: struct projection — only the listed fields are kept (the unit's functions read no others;
                        # touching a dropped field is a compile error => UNDECIDED)
                        txt = self._project(txt, ex[5:].split(','))
                    elif ex.startswith('tysub='):
                        d = ex[6]
                        a_, b_ = ex[7:].rstrip(d).split(d)
                        if a_ not in txt:
                            raise LostAnchor('type substitution %r not applicable in struct %s' % (a_, name))
                        txt = txt.replace(a_, b_)
                eq_impl = ''
                if 'eq' in extra:
                    # derive(PartialEq, Eq) on a struct of integer/bool fields is field-wise (= structural) equality (std docs)
                    from .rustsrc import struct_fields
                    fl = struct_fields(txt)
                    if not all(re.fullmatch(r'(u|i)(8|16|32|64|size)|bool', t) for _, t in fl):
                        raise Unsupported('struct %s: `eq` option needs integer/bool fields' % name)
                    if 'PartialEq' not in self._kept_derives(src, a, allow_eq=True):
                        raise LostAnchor('struct %s no longer derives PartialEq' % name)
                    eq_impl = ('\nimpl vstd::std_specs::cmp::PartialEqSpecImpl for %s {\n\topen spec fn obeys_eq_spec() -> bool { true }\n'
                               '\topen spec fn eq_spec(&self, other: &%s) -> bool { *self == *other }\n}\n'
                               'impl PartialEq for %s {\n\t#[verifier::external_body]\n\tfn eq(&self, other: &%s) -> (r: bool) { unimplemented!() }\n}\nimpl Eq for %s {}\n') % ((name,) * 5)
                if kind == '//@struct':
                    txt = self._publicise(txt)
                txt = self._kept_derives(src, a) + txt + eq_impl
                self.items.append(dict(kind=kind[3:], file=rel, name=name, sha=src.sha(a, b)))
                emit(txt)
            elif s.startswith('//@tryfrom '):
                # num_enum's TryFromPrimitive derive, regenerated from the enum's discriminants (D1)
                _, rel, name, prim = s.split()[:4]
                src = self.src(rel)
                a, b = src.find_enum(name)
                txt = strip_attrs_and_docs(src.text[a:b])
                pairs = re.findall(r'(\w+)\s*=\s*(0x[0-9a-fA-F]+|\d+)', txt)
                if not pairs:
                    raise LostAnchor('enum %s has no explicit discriminants' % name)
                self.items.append(dict(kind='tryfrom', file=rel, name=name, sha=src.sha(a, b)))
                spec = ' else '.join('if x == %s { Some(%s::%s) }' % (v, name, n) for n, v in pairs) + ' else { None }'
                emit('pub open spec fn %s_of(x: %s) -> Option<%s> { %s }' % (name.lower(), prim, name, spec))
                emit('impl TryFrom<%s> for %s {\n\ttype Error = TryFromPrimitiveError<%s>;\n\t#[verifier::external_body]\n'
                     '\tfn try_from(x: %s) -> (r: std::result::Result<%s, TryFromPrimitiveError<%s>>)\n'
                     '\t\tensures %s_of(x) is Some ==> r is Ok && r->Ok_0 == %s_of(x)->Some_0, %s_of(x) is None ==> r is Err\n\t{ unimplemented!() }\n}'
                     % (prim, name, name, prim, name, name, name.lower(), name.lower(), name.lower()))
            elif s.startswith('//@fn '):
                parts = [p.strip() for p in s[len('//@fn '):].split(' | ')]
                rel, impl, name = parts[0], parts[1], parts[2]
                opts = parts[3:]
                j = i + 1
                spec = []
                while lines[j].strip() != '//@end':
                    spec.append(lines[j])
                    j += 1
                first = len(out) + 1
                qn = self._emit_fn(emit, rel, impl, name, opts, spec)
                self.fn_lines.append((first, len(out), qn))
                i = j
            else:
                emit(line)
            i += 1
        # Verus allows one module-level `broadcast use` per module: merge the top-level ones.
        # (labels/fn_lines are line-number based: replaced lines keep their positions)
        uses = []
        for idx, l in enumerate(out):
            m = re.match(r'^broadcast use (.*);\s*$', l)
            if m:
                uses.extend(x.strip() for x in m.group(1).split(','))
                out[idx] = ''
        if uses:
            for idx in range(len(out) - 1, -1, -1):
                if out[idx].startswith('} // verus!'):
                    out[idx] = 'broadcast use {' + ', '.join(dict.fromkeys(uses)) + '}; } // verus!'
                    break
            else:
                raise Unsupported('template has no `} // verus!` line')
        text = '\n'.join(out) + '\n'
        self._index_proof_fns(text)
        return text

    def _autoconst(self, body, src, qn, log):
        done = set()
        adds = []
        scan = body
        for _ in range(4):
            m = mask(scan)
            added = False
            for name in sorted(set(re.findall(r'(?<![\w:!])([A-Z][A-Z0-9_]{2,})\b(?!\s*(?:!|::))', m))):
                if name in done:
                    continue
                done.add(name)
                defined = re.search(r'\b(const|static|struct|enum|type|fn|trait|mod)\s+' + name + r'\b', self._template_text) \
                    or re.search(r'//@const\s+\S+\s+' + name + r'\b', self._template_text) \
                    or re.search(r'\b(const|let)\s+(mut\s+)?' + name + r'\b', m) \
                    or re.search(r'<[^<>]*\bconst\s+' + name + r'\b', m)
                if defined:
                    continue
                try:
                    a, b = src.find_const(name)
                except LostAnchor:
                    continue
                txt = strip_attrs_and_docs(src.text[a:b]).strip()
                mm = re.match(r'(?:pub(?:\s*\([^)]*\))?\s+)?const\s+' + name + r'\s*:\s*(.*?)\s*=\s*(.*);\s*$', txt, re.S)
                if not mm:
                    continue
                adds.append((name, mm.group(1), mm.group(2)))
                scan = scan + '\n' + mm.group(2)   # a constant defined in terms of another one pulls that one in too
                log.append(dict(rule='AUTOCONST', before=txt[:160], after='let %s: %s = %s; (at the top of %s)' % (name, mm.group(1), mm.group(2)[:80], qn)))
                added = True
            if not added:
                break
        # bind in dependency order: a constant after the constants its definition mentions
        ordered, names = [], set(a[0] for a in adds)
        while adds:
            ready = [a for a in adds if not any(re.search(r'\b%s\b' % n, a[2]) for n in names if n != a[0] and n not in [o_[0] for o_ in ordered])]
            if not ready:
                ready = adds[:1]
            ordered.append(ready[0])
            adds.remove(ready[0])
        if ordered:
            o = body.index('{')
            body = body[:o + 1] + ''.join('\n\tlet %s: %s = %s;' % a for a in ordered) + body[o + 1:]
        return body

    def _index_proof_fns(self, text):
        """Template-written lemmas (`proof fn`): record their line ranges so that a failed lemma is attributed by name."""
        lines = text.split('\n')
        m = mask(text)
        offs = [0]
        for l in lines:
            offs.append(offs[-1] + len(l) + 1)
        for idx, l in enumerate(lines):
            mm = re.match(r'^(\s*)(?:pub\s+)?(?:broadcast\s+)?proof\s+fn\s+(\w+)', l)
            if not mm:
                continue
            ln = idx + 1
            if any(a <= ln <= b for a, b, _ in self.fn_lines):
                continue
            indent = mm.group(1)
            # the body opens on the first following line that starts (at the lemma's indentation) with '{'
            j = idx
            while j < len(lines) and not (lines[j].startswith(indent + '{') and (j > idx)):
                if j > idx and re.match(r'^\s*(?:pub\s+)?(?:\w+\s+)*fn\s', lines[j]):
                    j = len(lines)
                    break
                j += 1
            if j >= len(lines):
                continue
            o = offs[j] + len(indent)
            try:
                c = match_close(m, o)
            except Exception:
                continue
            end = text.count('\n', 0, c) + 1
            self.fn_lines.append((ln, end, mm.group(2)))

    @staticmethod
    def _project(txt, keep):
        m = mask(txt)
        o = m.index('{')
        c = match_close(m, o)
        fields = []
        depth, last = 0, o + 1
        for i in range(o + 1, c):
            ch = m[i]
            if ch in '<([{':
                depth += 1
            elif ch in '>)]}' and not (ch == '>' and m[i - 1] == '-'):
                depth -= 1
            elif ch == ',' and depth == 0:
                fields.append(txt[last:i])
                last = i + 1
        fields.append(txt[last:c])
        kept = []
        for f in fields:
            mm = re.match(r'\s*(pub(\s*\([^)]*\))?\s+)?((?:r#)?\w+)\s*:', f)
            if mm and mm.group(3) in keep:
                kept.append(f.strip())
        missing = [k for k in keep if not any(re.match(r'(pub(\s*\([^)]*\))?\s+)?' + re.escape(k) + r'\s*:', f) for f in kept)]
        if missing:
            raise LostAnchor('struct projection: fields %s not found' % missing)
        return txt[:o + 1] + '\n\t' + ',\n\t'.join(kept) + ',\n' + txt[c:]

    @staticmethod
    def _publicise(txt):
        """Visibility is irrelevant to behaviour; Verus needs fields mentioned in contracts to be visible (part of D1)."""
        txt = re.sub(r'^(\s*)(pub(\s*\([^)]*\))?\s+)?struct\b', r'\1pub struct', txt, count=1, flags=re.M)
        out = []
        for l in txt.split('\n'):
            m = re.match(r'^(\s+)(pub(\s*\([^)]*\))?\s+)?((?:r#)?\w+\s*:.*)$', l)
            if m and not l.strip().startswith('pub struct'):
                l = m.group(1) + 'pub ' + m.group(4)
            out.append(l)
        return '\n'.join(out)

    @staticmethod
    def _kept_derives(src, a, allow_eq=False):
        """D1 drops attributes, except that `Clone`/`Copy` (needed for by-value use) and
        `PartialEq`/`Eq` are re-emitted when the original derive list has them."""
        # attribute block = contiguous lines above the item start that begin with #[ or ///
        head = src.text[:a].rstrip('\n').split('\n')
        attrs = []
        k = len(head) - 1
        depth = 0
        while k >= 0:
            t = head[k].strip()
            if t.startswith('///') or t.startswith('#[') or t.endswith(')]') or t.endswith(',') and depth:
                attrs.append(t)
                k -= 1
                continue
            if t == '' :
                break
            # multi-line derive: lines inside #[derive( ... )]
            if re.fullmatch(r'[A-Za-z_, :]+,?', t) or t == ')]':
                attrs.append(t)
                k -= 1
                continue
            break
        blob = ' '.join(reversed(attrs))
        keep = []
        for m in re.finditer(r'derive\s*\(([^)]*)\)', blob):
            names = [x.strip() for x in m.group(1).split(',')]
            for n in (('Clone', 'Copy', 'PartialEq', 'Eq') if allow_eq else ('Clone', 'Copy')):
                if n in names and n not in keep and (n != 'Clone' or 'Copy' in names):
                    keep.append(n)
        if 'Copy' in keep and 'Clone' not in keep:
            keep.insert(0, 'Clone')
        return ('#[derive(%s)]\n' % ', '.join(keep)) if keep else ''

    def _expand_uses(self, lines, depth=0):
        res = []
        for l in lines:
            s = l.strip()
            if s.startswith('//@use '):
                name = s.split(None, 1)[1].strip()
                if name in self.shims:
                    continue
                self.shims.append(name)
                res.extend(self._expand_uses(open(os.path.join(VERIF, 'shim', name)).read().split('\n'), depth + 1))
            else:
                res.append(l)
        return res

    # ------------------------------------------------------------------------------------
    def _emit_fn(self, emit, rel, impl, name, opts, spec):
        src = self.src(rel)
        if impl == '-':
            lo, hi = 0, len(src.text)
            f = src.find_fn(name, lo, hi)
        else:
            _, o, c = src.find_impl(impl)
            f = src.find_fn(name, o + 1, c)
        sig = src.text[f['sig_start']:f['body_open']].rstrip()
        body = src.text[f['body_open']:f['body_close'] + 1]
        sha = src.sha(f['sig_start'], f['body_close'] + 1)
        opt = dict(ret=None, stub=False, twin='', rules=None, drops=[], subs=[], sigsubs=[], tail=False, free=None, cuts=[], inline=False)
        for o_ in opts:
            if o_ == 'stub':
                opt['stub'] = True
            elif o_ == 'tail':
                opt['tail'] = True
            elif o_ == 'inline_if_more':
                opt['inline'] = True
            elif o_.startswith('free='):
                opt['free'] = o_[5:]
            elif o_.startswith('ret='):
                opt['ret'] = o_[4:]
            elif o_.startswith('twin='):
                opt['twin'] = o_[5:]
            elif o_.startswith('rules='):
                opt['rules'] = [r for r in o_[6:].split(',') if r]
            elif o_.startswith('drop='):
                opt['drops'].append(o_[5:])
            elif o_.startswith('cut='):
                opt['cuts'].append(o_[4:])
            elif o_.startswith('sub='):
                d = o_[4]
                a, b = o_[5:].rstrip(d).split(d)
                opt['subs'].append((a, b))
            elif o_.startswith('sigsub='):
                d = o_[7]
                a, b = o_[8:].rstrip(d).split(d)
                opt['sigsubs'].append((a, b))
            elif o_:
                raise Unsupported('unknown //@fn option %r' % o_)
        qn = ((impl + '::') if impl != '-' else '') + name + opt['twin']
        # ---- signature: name the return value, rename for twin
        sig = self._name_ret(sig, opt['ret'])
        for a, b in opt['sigsubs']:
            if a not in sig:
                raise LostAnchor('signature substitution %r not applicable in %s' % (a, qn))
            sig = sig.replace(a, b)
        if opt['free']:
            # emit a trait-impl method as a free function: `Self` is the impl's type (pure renaming)
            sig = re.sub(r'\bSelf\b', opt['free'], sig)
            body = re.sub(r'\bSelf\b', opt['free'], body)
        if opt['twin']:
            sig = re.sub(r'\bfn\s+' + re.escape(name) + r'\b', 'fn ' + name + opt['twin'], sig, count=1)
        # ---- split spec into contract + sections
        contract, sections = [], []
        cur = None
        for l in spec:
            st = l.strip()
            mm = re.match(r'//@(loop|closure|afterblock|after|before)\s+(.*)', st)
            if mm:
                cur = dict(kind=mm.group(1), arg=mm.group(2).strip(), text=[])
                sections.append(cur)
            elif cur is None:
                contract.append(l)
            else:
                cur['text'].append(l)
        log = []
        if self.vacuity and not opt['stub'] and not impl_is_trait(impl):
            # vacuity twin: the original name becomes a contract-only stub; the real body is checked
            # against contract + `ensures false` under the name <fn>__vac and MUST fail.
            emit('#[verifier::external_body]')
            emit(sig)
            emit('\n'.join(contract))
            emit('{ unimplemented!() }')
            sig = re.sub(r'\bfn\s+' + re.escape(name + opt['twin']) + r'\b', 'fn ' + name + opt['twin'] + '__vac', sig, count=1)
            contract = add_false(contract)
            self.vac_twins.append(qn + '__vac')
        elif self.vacuity and not opt['stub']:
            pass
        if opt['stub']:
            self.items.append(dict(kind='fn-stub', file=rel, name=qn, sha=sha))
            emit('#[verifier::external_body]')
            emit(sig)
            emit('\n'.join(contract))
            emit('{ unimplemented!() }')
            return qn
        # ---- body: drops, substitutions, rewrite rules
        for d in opt['drops']:
            body, n = self._drop_stmt(body, d, log)
        for c_ in opt['cuts']:
            mc = re.search(c_, body)
            if not mc:
                raise LostAnchor('cut anchor %r lost in %s' % (c_, qn))
            log.append(dict(rule='DROP', before=mc.group(0).strip(), after=''))
            body = body[:mc.start()] + body[mc.end():]
        for a, b in opt['subs']:
            if a not in body:
                raise LostAnchor('substitution anchor %r lost in %s' % (a, qn))
            log.append(dict(rule='SUB', before=a, after=b))
            body = body.replace(a, b)
        if opt['inline']:
            # R8i is only sound for the helper body it was derived from: check the extracted if_more body textually
            hf = src.find_fn('if_more', 0, len(src.text))
            hb = re.sub(r'\s+', ' ', src.text[hf['body_open'] + 1:hf['body_close']]).strip()
            if hb != rewrite.IF_MORE_BODY:
                raise LostAnchor('if_more body changed (%r): inlining rule R8i not applicable' % hb[:120])
            body = rewrite.rule_R8i(body, log)
        body = rewrite.apply_rules(body, log, opt['rules'])
        if opt['tail']:
            body = rewrite.rule_R14(body, log)
        plain = body
        # ---- AUTOCONST: a module-level `const NAME: T = E;` of the same file that the body refers to and that the unit
        # does not define is bound at the top of the body as `let NAME: T = E;` (same value; lets "magic number ->
        # named constant" refactors through instead of making the unit UNDECIDED)
        body = self._autoconst(body, src, qn, log)
        # ---- splice spec sections (spec text only)
        body = self._splice(body, sections, qn)
        self.items.append(dict(kind='fn', file=rel, name=qn, sha=sha, rules=[l_['rule'] for l_ in log]))
        for l_ in log:
            l_['fn'] = qn
        self.rule_log.extend(log)
        emit(sig)
        emit('\n'.join(contract))
        emit(body)
        return qn

    @staticmethod
    def _name_ret(sig, ret):
        if not ret:
            return sig
        m = mask(sig)
        # find '->' at bracket depth 0
        depth = 0
        k = None
        i = 0
        while i < len(m):
            c = m[i]
            if c in '([{':
                i = match_close(m, i)
            elif m.startswith('->', i):
                k = i
                break
            i += 1
        if k is None:
            return sig
        rest = sig[k + 2:]
        mw = re.search(r'\bwhere\b', mask(rest))
        if mw:
            ty, tail = rest[:mw.start()].strip(), '\n' + rest[mw.start():]
        else:
            ty, tail = rest.strip(), ''
        return sig[:k] + '-> (%s: %s)' % (ret, ty) + tail

    @staticmethod
    def _drop_stmt(body, regex, log):
        """Remove every statement (text from statement start through its terminating ';' or closing
        '}' at the same depth) whose first line matches regex."""
        n = 0
        while True:
            m = mask(body)
            mm = re.search(regex, m)
            if not mm:
                mm2 = re.search(regex, body)
                if not mm2:
                    break
                mm = mm2
            # statement start = after previous ';' '{' '}' at this depth
            s = mm.start()
            k = s - 1
            while k >= 0 and m[k] not in ';{}':
                k -= 1
            s = k + 1
            # statement end
            e = mm.start()
            while e < len(m):
                c = m[e]
                if c in '([{':
                    e = match_close(m, e)
                    if c == '{':
                        # block statement ends here unless followed by else / method chain / ;
                        nxt = e + 1
                        while nxt < len(m) and m[nxt] in ' \t\n':
                            nxt += 1
                        if m.startswith('else', nxt):
                            e = nxt + 4
                            continue
                        if nxt < len(m) and m[nxt] == ';':
                            e = nxt
                        break
                elif c == ';':
                    break
                e += 1
            log.append(dict(rule='DROP', before=body[s:e + 1].strip(), after=''))
            body = body[:s] + body[e + 1:]
            n += 1
            if n > 50:
                raise Unsupported('drop loop')
        return body, n

    @staticmethod
    def _splice(body, sections, qn):
        # loops
        for sec in sections:
            if sec['kind'] != 'loop':
                continue
            loops = rewrite.find_loops(body)
            n = int(sec['arg'])
            if n > len(loops):
                raise LostAnchor('%s: loop %d not found (body has %d loops)' % (qn, n, len(loops)))
            lp = loops[n - 1]
            ins = '\n' + '\n'.join(sec['text']) + '\n'
            body = body[:lp['hdr_end']] + ins + body[lp['hdr_end']:]
        for sec in sections:
            if sec['kind'] == 'closure':
                m = mask(body)
                hits = [mm for mm in re.finditer(r'\|[^|]*\|', m)]
                n = int(sec['arg'])
                if n > len(hits):
                    raise LostAnchor('%s: closure %d not found' % (qn, n))
                h = hits[n - 1]
                # an annotated closure needs a block body: wrap an expression body in braces (R8b)
                k = h.end()
                while m[k] in ' \t\n':
                    k += 1
                if m[k] != '{':
                    # the closure is the last argument of a call: its body runs to that call's closing parenthesis
                    depth, q = 0, h.start() - 1
                    while q >= 0:
                        if m[q] in ')]}':
                            depth += 1
                        elif m[q] in '([{':
                            if depth == 0:
                                break
                            depth -= 1
                        q -= 1
                    if q < 0 or m[q] != '(':
                        raise LostAnchor('%s: closure %d is not an argument of a call' % (qn, n))
                    e = match_close(m, q)
                    inner = body[k:e].rstrip()
                    if inner.endswith(','):
                        inner = inner[:-1].rstrip()
                    body = body[:k] + '{ ' + inner + ' }' + body[e:]
                body = body[:h.start()] + ' '.join(t.strip() for t in sec['text']) + ' ' + body[h.end():]
            elif sec['kind'] in ('after', 'before', 'afterblock'):
                snippet = sec['arg'].strip('"')
                m = mask(body)
                mo = re.fullmatch(r'(\w+)#(\d+)', snippet)
                if mo:
                    hits = [h.start() for h in re.finditer(r'\b' + mo.group(1) + r'\b', m)]
                    p = hits[int(mo.group(2)) - 1] if int(mo.group(2)) <= len(hits) else -1
                elif snippet == '^':
                    # the start of the body (for ghost bindings that must be in scope everywhere, wherever the statements move)
                    p = body.index('{') + 1
                else:
                    p = body.find(snippet)
                if p < 0:
                    raise LostAnchor('%s: hint anchor %r lost' % (qn, snippet))
                ins = '\n' + '\n'.join(sec['text']) + '\n'
                if sec['kind'] == 'after':
                    e = p
                    while e < len(m) and m[e] != ';':
                        if m[e] in '([{':
                            e = match_close(m, e)
                        e += 1
                    body = body[:e + 1] + ins + body[e + 1:]
                elif sec['kind'] == 'afterblock':
                    # end of the block statement starting at p (if/else chain, match, loop, while)
                    e = p
                    while True:
                        while e < len(m) and m[e] != '{':
                            if m[e] in '([':
                                e = match_close(m, e)
                            e += 1
                        e = match_close(m, e)
                        nxt = e + 1
                        while nxt < len(m) and m[nxt] in ' \t\n':
                            nxt += 1
                        if m.startswith('else', nxt):
                            e = nxt + 4
                            continue
                        break
                    body = body[:e + 1] + ins + body[e + 1:]
                else:
                    k = p - 1
                    while k >= 0 and m[k] not in ';{}':
                        k -= 1
                    body = body[:k + 1] + ins + body[k + 1:]
        return body
