"""Comment/string-aware location of Rust items in /repo source text.

Nothing here interprets Rust beyond lexical structure: comments, string/char literals, and
bracket matching.  Items are found by *name*, never by line number.
"""
import hashlib
import re


class LostAnchor(Exception):
    """An item the contracts are anchored to could not be found (=> UNDECIDED, never an alarm)."""


def mask(text):
    """Return a copy of `text` of identical length in which comments and the contents of string
    and char literals are replaced by spaces (newlines kept), so that bracket matching and regex
    search cannot be fooled by them."""
    out = list(text)
    i, n = 0, len(text)

    def blank(a, b):
        for k in range(a, b):
            if out[k] != '\n':
                out[k] = ' '

    while i < n:
        c = text[i]
        if c == '/' and i + 1 < n and text[i + 1] == '/':
            j = text.find('\n', i)
            j = n if j < 0 else j
            blank(i, j)
            i = j
        elif c == '/' and i + 1 < n and text[i + 1] == '*':
            depth, j = 1, i + 2
            while j < n and depth:
                if text.startswith('/*', j):
                    depth += 1
                    j += 2
                elif text.startswith('*/', j):
                    depth -= 1
                    j += 2
                else:
                    j += 1
            blank(i, j)
            i = j
        elif c == '"' or (c == 'b' and text.startswith('b"', i)) :
            if c == 'b':
                i += 1
            j = i + 1
            while j < n and text[j] != '"':
                j += 2 if text[j] == '\\' else 1
            blank(i + 1, j)
            i = j + 1
        elif c == 'r' and re.match(r'r#*"', text[i:i + 8]) and (i == 0 or not (text[i - 1].isalnum() or text[i - 1] == '_')):
            m = re.match(r'r(#*)"', text[i:])
            close = '"' + m.group(1)
            j = text.find(close, i + len(m.group(0)))
            j = n if j < 0 else j
            blank(i + len(m.group(0)), j)
            i = j + len(close)
        elif c == "'":
            # char literal or lifetime
            if i + 2 < n and text[i + 1] == '\\':
                j = text.find("'", i + 2)
                blank(i + 1, j)
                i = j + 1
            elif i + 2 < n and text[i + 2] == "'":
                blank(i + 1, i + 2)
                i += 3
            else:
                i += 1
        else:
            i += 1
    return ''.join(out)


OPEN = {'{': '}', '(': ')', '[': ']'}
CLOSE = {v: k for k, v in OPEN.items()}


def match_close(masked, i):
    """masked[i] is an opening bracket; return index of its partner."""
    stack = []
    n = len(masked)
    j = i
    while j < n:
        c = masked[j]
        if c in OPEN:
            stack.append(c)
        elif c in CLOSE:
            if not stack or stack[-1] != CLOSE[c]:
                raise LostAnchor('unbalanced bracket at %d' % j)
            stack.pop()
            if not stack:
                return j
        j += 1
    raise LostAnchor('unclosed bracket at %d' % i)


def match_open(masked, j):
    """masked[j] is a closing bracket; return index of its partner (scan backwards)."""
    stack = []
    i = j
    while i >= 0:
        c = masked[i]
        if c in CLOSE:
            stack.append(c)
        elif c in OPEN:
            if not stack or stack[-1] != OPEN[c]:
                raise LostAnchor('unbalanced bracket at %d' % i)
            stack.pop()
            if not stack:
                return i
        i -= 1
    raise LostAnchor('unopened bracket at %d' % j)


def match_angle(masked, i):
    """masked[i] == '<' used as generic bracket; return index of matching '>' (ignores '->')."""
    depth = 0
    j = i
    while j < len(masked):
        c = masked[j]
        if c == '<':
            depth += 1
        elif c == '>' and masked[j - 1] != '-' and masked[j - 1] != '=':
            depth -= 1
            if depth == 0:
                return j
        elif c in '({[':
            j = match_close(masked, j)
        j += 1
    raise LostAnchor('unclosed <')


class Src:
    def __init__(self, path, text=None):
        self.path = path
        self.text = open(path, encoding='utf-8').read() if text is None else text
        self.masked = mask(self.text)

    def sha(self, a, b):
        return hashlib.sha256(self.text[a:b].encode()).hexdigest()[:16]

    # ---- blocks -------------------------------------------------------------------------
    def find_block(self, header_re, start=0, end=None, nth=0):
        """Find `header_re` (applied to masked text, must end just before '{') and return
        (hdr_start, open_brace, close_brace)."""
        end = len(self.masked) if end is None else end
        pat = re.compile(header_re, re.M)
        k = 0
        for m in pat.finditer(self.masked, start, end):
            j = m.end()
            while j < end and self.masked[j] in ' \t\n':
                j += 1
            if j < end and self.masked[j] == '{':
                if k == nth:
                    return m.start(), j, match_close(self.masked, j)
                k += 1
        raise LostAnchor('block %r not found in %s' % (header_re, self.path))

    def find_impl(self, header):
        """header like 'impl Pre' or 'impl From<mutable::Frame> for Frame' or 'impl<R: Read> Read for HashingReader<R>'.
        Whitespace-insensitive exact match of the header up to the opening brace."""
        toks = [re.escape(t) for t in re.findall(r"\w+|[^\w\s]", header)]
        pat = r'^[ \t]*' + r'\s*'.join(toks) + r'\s*(?=\{)'
        return self.find_block(pat)

    def find_fn(self, name, start=0, end=None):
        """Locate `fn name` between start..end at the outermost brace depth of that range.
        Returns dict(sig_start, sig_end(=index of body '{'), body_end(index of '}'))."""
        end = len(self.masked) if end is None else end
        pat = re.compile(r'\bfn\s+' + re.escape(name) + r'\b')
        for m in pat.finditer(self.masked, start, end):
            # depth check: count braces between start and m.start()
            depth = 0
            for c in self.masked[start:m.start()]:
                if c == '{':
                    depth += 1
                elif c == '}':
                    depth -= 1
            if depth != 0:
                continue
            # signature start: go back over qualifiers on the same item (pub, pub(crate), const, async, unsafe)
            s = m.start()
            line_start = self.masked.rfind('\n', 0, s) + 1
            prefix = self.masked[line_start:s]
            if re.fullmatch(r'\s*((pub(\s*\([^)]*\))?|const|unsafe|async)\s+)*', prefix):
                s = line_start + (len(prefix) - len(prefix.lstrip()))
            # body open: first '{' at paren/angle depth 0 after the name
            j = m.end()
            while j < end:
                c = self.masked[j]
                if c in '([':
                    j = match_close(self.masked, j)
                elif c == '{':
                    break
                elif c == ';':
                    raise LostAnchor('fn %s has no body' % name)
                j += 1
            close = match_close(self.masked, j)
            return dict(sig_start=s, body_open=j, body_close=close)
        raise LostAnchor('fn %s not found in %s' % (name, self.path))

    def find_struct(self, name):
        """Returns (start, end) of `pub struct Name {..}` or `pub struct Name(..);` (attributes excluded)."""
        pat = re.compile(r'^[ \t]*(pub(\s*\([^)]*\))?\s+)?struct\s+' + re.escape(name) + r'\b', re.M)
        m = pat.search(self.masked)
        if not m:
            raise LostAnchor('struct %s not found in %s' % (name, self.path))
        j = m.end()
        while self.masked[j] not in '{(;':
            if self.masked[j] == '<':
                j = match_angle(self.masked, j)
            j += 1
        if self.masked[j] == ';':
            return m.start(), j + 1
        close = match_close(self.masked, j)
        if self.masked[j] == '(':
            k = self.masked.index(';', close)
            return m.start(), k + 1
        return m.start(), close + 1

    def find_enum(self, name):
        pat = r'^[ \t]*(pub(\s*\([^)]*\))?\s+)?enum\s+' + re.escape(name) + r'\b[^{;]*'
        s, o, c = self.find_block(pat)
        return s, c + 1

    def find_const(self, name):
        pat = re.compile(r'^[ \t]*(pub(\s*\([^)]*\))?\s+)?const\s+' + re.escape(name) + r'\s*:', re.M)
        m = pat.search(self.masked)
        if not m:
            raise LostAnchor('const %s not found in %s' % (name, self.path))
        j = m.end()
        while self.masked[j] != ';':
            if self.masked[j] in OPEN:
                j = match_close(self.masked, j)
            j += 1
        return m.start(), j + 1


def strip_attrs_and_docs(item_text):
    """Drop `#[...]` attribute lines, `///` docs and `//` comments inside an extracted item (drop D1)."""
    out = []
    for line in item_text.split('\n'):
        s = line.strip()
        if s.startswith('///') or s.startswith('//!'):
            continue
        if s.startswith('#[') and s.endswith(']'):
            continue
        out.append(line)
    return '\n'.join(out)


def struct_fields(item_text):
    """Parse a struct item (after strip_attrs_and_docs) into [(field_name, type_text)] for named
    structs or [(index, type)] for tuple structs."""
    m = mask(item_text)
    if '{' in m and (m.find('{') < m.find('(') or '(' not in m[:m.find('{')]):
        o = m.index('{')
        c = match_close(m, o)
        body, bm, named = item_text[o + 1:c], m[o + 1:c], True
    else:
        o = m.index('(')
        c = match_close(m, o)
        body, bm, named = item_text[o + 1:c], m[o + 1:c], False
    parts, depth, last = [], 0, 0
    for i, ch in enumerate(bm):
        if ch in '<([{':
            depth += 1
        elif ch in '>)]}' and not (ch == '>' and bm[i - 1] == '-'):
            depth -= 1
        elif ch == ',' and depth == 0:
            parts.append(body[last:i])
            last = i + 1
    parts.append(body[last:])
    fields = []
    idx = 0
    for p in parts:
        p = p.strip()
        if not p:
            continue
        p = re.sub(r'^pub(\s*\([^)]*\))?\s+', '', p)
        if named:
            name, ty = p.split(':', 1)
            fields.append((name.strip(), ty.strip()))
        else:
            fields.append((str(idx), p.strip()))
            idx += 1
    return fields
