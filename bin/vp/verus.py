"""Run Verus on an assembled unit file and turn its output into named obligations."""
import json
import os
import re
import subprocess
import time

VERIFICATION_MSGS = [
    'postcondition not satisfied', 'precondition not satisfied', 'assertion failed',
    'possible arithmetic underflow/overflow', 'possible division by zero', 'invariant not satisfied',
    'loop invariant not preserved', 'decreases not satisfied', 'recommendation not met',
    'possible bit shift underflow/overflow', 'unable to prove', 'might not be allowed',
    'invariant not satisfied at end of loop body', 'invariant not satisfied before loop',
    'cannot show termination', 'could not prove termination', 'failed precondition',
    'unreachable', 'split assertion failure', 'split postcondition failure', 'split precondition failure',
    'constructed value may fail to meet its declared type invariant',
]
RLIMIT_MSG = 'Resource limit (rlimit) exceeded'


def run_verus(path, rlimit=100, timeout=600, extra=None, multiple_errors=8):
    cmd = ['verus', path, '--output-json', '--time', '--triggers-mode', 'silent',
           '--rlimit', str(rlimit), '--multiple-errors', str(multiple_errors), '--num-threads', '6'] + (extra or [])
    t0 = time.time()
    try:
        p = subprocess.run(cmd, stdout=subprocess.PIPE, stderr=subprocess.PIPE, text=True, timeout=timeout,
                           cwd=os.path.dirname(path))
        out, err, rc, timed_out = p.stdout, p.stderr, p.returncode, False
    except subprocess.TimeoutExpired as e:
        out = e.stdout.decode() if isinstance(e.stdout, bytes) else (e.stdout or '')
        err = e.stderr.decode() if isinstance(e.stderr, bytes) else (e.stderr or '')
        rc, timed_out = -9, True
    return dict(cmd=' '.join(cmd), stdout=out, stderr=err, rc=rc, timed_out=timed_out, wall=time.time() - t0)


def split_blocks(stderr):
    """Split rustc-style diagnostics into blocks starting with error/warning/note at column 0."""
    blocks, cur = [], None
    for line in stderr.split('\n'):
        if re.match(r'^(error|warning|note)(\[[A-Z0-9]+\])?:', line):
            cur = [line]
            blocks.append(cur)
        elif cur is not None:
            cur.append(line)
    return ['\n'.join(b) for b in blocks]


def marked_lines(block):
    """Source line numbers that carry a ^^^ / --- marker in a diagnostic block, with the marker note."""
    res = []
    lines = block.split('\n')
    last_no = None
    for l in lines:
        m = re.match(r'^\s*(\d+)\s\|', l)
        if m:
            last_no = int(m.group(1))
            continue
        m = re.match(r'^\s*\|\s.*?([\^\-]{2,}|\^)\s*(.*)$', l)
        if m and last_no is not None:
            res.append((last_no, m.group(2).strip()))
    return res


def gutter_lines(block):
    return [int(m.group(1)) for m in re.finditer(r'(?m)^\s*(\d+)\s\|', block)]


def parse(result, labels, fn_lines, unit):
    """-> dict(status, functions, failures, ...).
    status: 'ok' | 'failed' (>=1 proof obligation failed) | 'undecided' (tool error, rlimit, timeout)."""
    info = dict(unit=unit, cmd=result['cmd'], wall_s=round(result['wall'], 2), functions=[], failures=[],
                undecided=[], verified=0, errors=0, smt_ms=0)
    if result['timed_out']:
        info['status'] = 'undecided'
        info['undecided'].append('verus timed out')
        return info
    js = None
    try:
        js = json.loads(result['stdout'][result['stdout'].index('{'):])
    except Exception:
        pass
    if js is None:
        info['status'] = 'undecided'
        info['undecided'].append('no JSON from verus (rc=%s): %s' % (result['rc'], result['stderr'][-2000:]))
        return info
    vr = js.get('verification-results', {})
    info['verified'] = vr.get('verified', 0)
    info['errors'] = vr.get('errors', 0)
    try:
        for mod in js['times-ms']['smt']['smt-run-module-times']:
            for f in mod.get('function-breakdown', []):
                info['functions'].append(dict(name=f['function'], ms=f['time'], rlimit=f['rlimit'], success=f['success']))
                info['smt_ms'] += f['time']
    except Exception:
        pass

    def fn_of(line):
        for a, b, qn in fn_lines:
            if a <= line <= b:
                return qn
        return None

    blocks = split_blocks(result['stderr'])
    pending = None
    for b in blocks:
        head = b.split('\n', 1)[0]
        if head.startswith('warning'):
            continue
        if head.startswith('note'):
            if 'diagnostics via expansion' in head and pending is not None:
                for ln, note in marked_lines(b):
                    lab = labels.get(ln)
                    if lab and lab not in pending['sub_labels']:
                        pending['sub_labels'].append(lab)
                pending['expansion'] = b[-6000:]
            continue
        if re.match(r'^error: aborting due to', head) or head.startswith('error: could not compile'):
            continue
        msg = head[len('error'):].lstrip(': ').strip() if not head.startswith('error[') else head
        loc = re.search(r'-->\s*\S+?:(\d+):(\d+)', b)
        line = int(loc.group(1)) if loc else None
        if RLIMIT_MSG in head or 'rlimit' in head:
            info['undecided'].append('rlimit exceeded in %s (line %s)' % (fn_of(line), line))
            pending = None
            continue
        is_verif = (not head.startswith('error[')) and any(v in head for v in VERIFICATION_MSGS)
        if not is_verif:
            info['undecided'].append('tool error: %s (line %s)' % (head, line))
            pending = None
            continue
        marks = marked_lines(b)
        # the failed clause: for pre/postconditions the marker note says so
        clause_line = line
        for ln, note in marks:
            if 'failed this postcondition' in note or 'failed precondition' in note or 'failed this' in note:
                clause_line = ln
        site_line = line
        if fn_of(site_line) is None:
            for ln in gutter_lines(b):
                if fn_of(ln) is not None:
                    site_line = ln
                    break
        pending = dict(kind=msg, clause_line=clause_line, site_line=site_line,
                       label=labels.get(clause_line), function=fn_of(site_line) or fn_of(clause_line),
                       clause_fn=fn_of(clause_line), sub_labels=[], text=b[:3000])
        info['failures'].append(pending)
    if vr.get('encountered-vir-error') or (vr.get('encountered-error') and not info['failures'] and not info['undecided']):
        info['undecided'].append('verus reported an error that is not a failed proof obligation: ' + result['stderr'][-1500:])
    if info['undecided'] and not info['failures']:
        info['status'] = 'undecided'
    elif info['failures']:
        info['status'] = 'failed'
    elif vr.get('success') and info['errors'] == 0 and info['verified'] > 0:
        info['status'] = 'ok'
    else:
        info['status'] = 'undecided'
        info['undecided'].append('verus finished without success flag: ' + json.dumps(vr))
    return info
