"""Native witness search: when Verus refutes an obligation it gives no counterexample, so the failed
clause is evaluated on the REAL code (replay crate, path dependency on the checked tree) over a
structured candidate set.  A search, not a proof: a hit is a replayable failing input; no hit leaves
the VIOLATION line ending in no-failing-input-found."""
import hashlib
import os
import re
import shutil
import subprocess

VERIF = os.path.dirname(os.path.dirname(os.path.dirname(os.path.abspath(__file__))))

# native searches (synthetic replays built from the independent spec tables + native oracles; replay/src/{gen,oracles}.rs)
SEARCHES = {
    'C01': ['c01-search', 'c17-search'],
    'C03': ['c03-search'],
    'C04': ['c04-search', 'c03-search'],
    'C06': ['c06-search'],
    'C07': ['c07-search', 'c07s-search'],
    'C08': ['c08-search'],
    'C10': ['c08-search', 'c11-search', 'c10s-search'],
    'C11': ['c11-search', 'c02-search'],
    'C12': ['c12-search', 'c13-search', 'c08-search'],
    'C13': ['c13-search'],
    'C15': ['c15-search'],
    'C17': ['c17-search', 'c01-search', 'c16-search'],
    'C02': ['c02-search'],
    'C05': ['c05-search'],
    'C09': ['c09-search'],
    'C16': ['c16-search', 'c12-search'],
    'C19': ['c19-search', 'c05-search'],
    'C20': ['c20-strings'],
    'C14': ['c14-search'],
    'C18': ['c18-search'],
}


# searches that only make sense as exploration (no failing clause maps to them)
EXTRA_THOROUGH = {
}


def build(repo):
    tag = hashlib.sha256(repo.encode()).hexdigest()[:8]
    dst = os.path.join(VERIF, 'build', 'replay_' + tag)
    os.makedirs(os.path.join(dst, 'src'), exist_ok=True)
    os.makedirs(os.path.join(dst, '.cargo'), exist_ok=True)
    toml = open(os.path.join(VERIF, 'replay', 'Cargo.toml')).read().replace('path = "/repo"', 'path = "%s"' % repo)
    files = [('Cargo.toml', toml), ('.cargo/config.toml', open(os.path.join(VERIF, 'replay', '.cargo/config.toml')).read())]
    for f in sorted(os.listdir(os.path.join(VERIF, 'replay', 'src'))):
        if f.endswith('.rs'):
            files.append(('src/' + f, open(os.path.join(VERIF, 'replay', 'src', f)).read()))
    for rel, text in files:
        p = os.path.join(dst, rel)
        if not (os.path.exists(p) and open(p).read() == text):
            open(p, 'w').write(text)
    lock = os.path.join(repo, 'Cargo.lock')
    if os.path.exists(lock):
        shutil.copyfile(lock, os.path.join(dst, 'Cargo.lock'))
    env = dict(os.environ)
    env['RUSTFLAGS'] = (env.get('RUSTFLAGS', '') + ' --cfg hohav_peppi_verif').strip()
    env['CARGO_NET_OFFLINE'] = 'true'
    p = subprocess.run(['cargo', 'build', '--offline', '--quiet', '--release'], cwd=dst, env=env, stdout=subprocess.PIPE, stderr=subprocess.STDOUT, text=True, timeout=900)
    if p.returncode != 0:
        raise RuntimeError('replay crate does not build: ' + p.stdout[-800:])
    return os.path.join(dst, 'target', 'release', 'peppi-verif-replay')


def known_ids(prop):
    """ids of the recorded known findings of `prop` that the native oracles must step over (so that a DIFFERENT violation is still found)"""
    import json
    p = os.path.join(VERIF, 'known_findings.json')
    if not os.path.exists(p):
        return ''
    ks = [k.get('native_skip') for k in json.load(open(p)).get('findings', []) if k.get('status') == 'known' and k.get('property') == prop and k.get('native_skip')]
    return ','.join(sorted(set(ks)))


def run_replay(repo, argv, timeout=300, known=''):
    exe = build(repo)
    env = dict(os.environ)
    env['RUST_BACKTRACE'] = '0'
    if known:
        env['PEPPI_KNOWN'] = known
    env.setdefault('PEPPI_FIXTURES', os.path.join(repo, 'tests', 'data'))
    env.setdefault('PEPPI_SPEC', os.path.join(VERIF, 'spec'))
    p = subprocess.run([exe] + argv, stdout=subprocess.PIPE, stderr=subprocess.STDOUT, text=True, timeout=timeout, env=env)
    return p.returncode, p.stdout


def search(prop, unit, failure, repo):
    for cmd in SEARCHES.get(prop, []):
        rc, out = run_replay(repo, [cmd], timeout=900, known=known_ids(prop))
        m = re.search(r'^WITNESS (.*)$', out, re.M)
        if m:
            return dict(replay_argv=m.group(1).split(), found_by=cmd, output=out[-1500:])
    return None


# searches too slow for the quick tier (they still run when a proof fails or is undecided, and always in the thorough tier)
SLOW = ('c07s-search',)
# further cheap searches explored in the quick tier (the .slpp writer / reader / Arrow oracles all bear on C02)
QUICK_EXTRA = {'C02': ['c14-search', 'c10s-search', 'c18-search']}


def explore(prop, repo, quick=False):
    """Run the native searches of the property unconditionally (thorough tier: all of them; quick tier: the cheap ones).
    -> list of dict(cmd, status, detail, wall_s, witness)"""
    import time
    res = []
    cmds = SEARCHES.get(prop, []) + EXTRA_THOROUGH.get(prop, [])
    if quick:
        cmds = [c for c in cmds if c not in SLOW] + [c for c in QUICK_EXTRA.get(prop, []) if c not in cmds]
    for cmd in cmds:
        t0 = time.time()
        try:
            rc, out = run_replay(repo, [cmd], timeout=1800, known=known_ids(prop))
        except Exception as e:
            res.append(dict(cmd=cmd, status='unavailable', detail=str(e)[:300], wall_s=round(time.time() - t0, 1), witness=None))
            continue
        m = re.search(r'^WITNESS (.*)$', out, re.M)
        ok = re.search(r'^(\S+ ok: .*)$', out, re.M)
        if m:
            res.append(dict(cmd=cmd, status='witness', detail=out[-1500:], wall_s=round(time.time() - t0, 1),
                            witness=dict(replay_argv=m.group(1).split(), found_by=cmd, output=out[-1500:])))
        elif rc == 0 and ok:
            res.append(dict(cmd=cmd, status='ok', detail=ok.group(1)[:300], wall_s=round(time.time() - t0, 1), witness=None))
        else:
            res.append(dict(cmd=cmd, status='unavailable', detail='rc=%s %s' % (rc, out[-400:]), wall_s=round(time.time() - t0, 1), witness=None))
    return res
