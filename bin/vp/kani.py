"""Run Kani harnesses (kani/src/lib.rs) against the real crate at REPO (path dependency, hooks on)."""
import hashlib
import os
import re
import shutil
import subprocess
import time

VERIF = os.path.dirname(os.path.dirname(os.path.dirname(os.path.abspath(__file__))))

# name -> dict(complete: loop-free/full-domain => complete proof; bound: text when bounded; quick: run in quick tier; timeout)
HARNESSES = {
    'c09_assert_max_version': dict(complete=True, quick=True, timeout=300, domain='all 2^24 (major, minor, patch)'),
    'c18_assert_current_version': dict(complete=True, quick=True, timeout=300, domain='all 2^24 format-version triples'),
    'c20_version_gte_lt': dict(complete=True, quick=True, timeout=300, domain='all u8^5 (version x threshold)'),
    'c20_gate_monotone': dict(complete=True, quick=True, timeout=300, domain='all pairs of versions x all thresholds'),
    'k_player_bytes_8_4': dict(complete=False, bound='instantiation N=8, M=4; slice length <= 40, all contents', quick=True, timeout=900, domain='all byte contents, all lengths 0..40'),
    'c20_parse_u8_len4': dict(complete=False, bound='ASCII strings of length <= 4 (every content)', quick=True, timeout=600, domain='all ASCII strings of length 0..4'),
    'kcodec_pre_read_push': dict(complete=True, quick=False, timeout=1800, domain='all (major, minor) versions x all contents of a full-length Pre payload (+2 spare bytes), on the compiled crate; generated from spec/frame_layout.json (the short-payload error path is Verus-only)'),
    'kcodec_post_read_push': dict(complete=True, quick=False, timeout=4500, domain='all (major, minor) versions x all contents of a full-length Post payload (+2 spare bytes), on the compiled crate; generated from spec/frame_layout.json (the short-payload error path is Verus-only)'),
    'kcodec_start_read_push': dict(complete=True, quick=False, timeout=900, domain='all (major, minor) versions x all contents of a full-length Start payload (+2 spare bytes), on the compiled crate; generated from spec/frame_layout.json (the short-payload error path is Verus-only)'),
    'kcodec_end_read_push': dict(complete=True, quick=False, timeout=900, domain='all (major, minor) versions x all contents of a full-length End payload (+2 spare bytes), on the compiled crate; generated from spec/frame_layout.json (the short-payload error path is Verus-only)'),
    'kcodec_item_read_push': dict(complete=True, quick=False, timeout=2400, domain='all (major, minor) versions x all contents of a full-length Item payload (+2 spare bytes), on the compiled crate; generated from spec/frame_layout.json (the short-payload error path is Verus-only)'),
    'kshim_byteorder_be': dict(complete=True, quick=False, timeout=600, domain='all contents of an 8-byte slice x all lengths 0..8 (assumed shim contract of byteorder readers, checked on the real crate)'),
    'kshim_byteorder_write_be': dict(complete=True, quick=False, timeout=600, domain='all u8/u16/u32/i32 values (assumed shim contract of byteorder writers on Vec<u8>)'),
    'c19_fix_char': dict(complete=True, quick=True, timeout=300, domain='all Unicode scalar values'),
}


def _prepare(repo):
    """Copy the harness crate to build/ with the path dependency pointing at `repo`."""
    tag = hashlib.sha256(repo.encode()).hexdigest()[:8]
    dst = os.path.join(VERIF, 'build', 'kani_' + tag)
    os.makedirs(os.path.join(dst, 'src'), exist_ok=True)
    os.makedirs(os.path.join(dst, '.cargo'), exist_ok=True)
    toml = open(os.path.join(VERIF, 'kani', 'Cargo.toml')).read().replace('path = "/repo"', 'path = "%s"' % repo)
    _write_if_changed(os.path.join(dst, 'Cargo.toml'), toml)
    rels = ['.cargo/config.toml'] + ['src/' + f for f in sorted(os.listdir(os.path.join(VERIF, 'kani', 'src'))) if f.endswith('.rs')]
    for rel in rels:
        _write_if_changed(os.path.join(dst, rel), open(os.path.join(VERIF, 'kani', rel)).read())
    lock = os.path.join(repo, 'Cargo.lock')
    if os.path.exists(lock):
        shutil.copyfile(lock, os.path.join(dst, 'Cargo.lock'))
    return dst


def _write_if_changed(path, text):
    if os.path.exists(path) and open(path).read() == text:
        return
    with open(path, 'w') as f:
        f.write(text)


def _run(dst, names, timeout, extra=None):
    cmd = ['cargo', 'kani', '-Z', 'stubbing', '-Z', 'function-contracts']
    for n in names:
        cmd += ['--harness', n]
    cmd += extra or []
    env = dict(os.environ)
    env['RUSTFLAGS'] = (env.get('RUSTFLAGS', '') + ' --cfg hohav_peppi_verif').strip()
    env['CARGO_NET_OFFLINE'] = 'true'
    t0 = time.time()
    try:
        p = subprocess.run(cmd, cwd=dst, env=env, stdout=subprocess.PIPE, stderr=subprocess.STDOUT, text=True, timeout=timeout)
        out, rc, to = p.stdout, p.returncode, False
    except subprocess.TimeoutExpired as e:
        out = e.stdout.decode() if isinstance(e.stdout, bytes) else (e.stdout or '')
        rc, to = -9, True
    return dict(cmd='cd %s && RUSTFLAGS="--cfg hohav_peppi_verif" %s' % (dst, ' '.join(cmd)), out=out, rc=rc, timed_out=to, wall=time.time() - t0)


def run_harnesses(prop, names, tier, repo):
    names = [n for n in names if tier == 'thorough' or HARNESSES[n].get('quick', False)]
    if not names:
        return []
    dst = _prepare(repo)
    timeout = sum(HARNESSES[n]['timeout'] for n in names) + 600
    r = _run(dst, names, timeout)
    results = []
    # split output per harness
    chunks = re.split(r'(?m)^Checking harness ', r['out'])
    by = {}
    for c in chunks[1:]:
        m = re.match(r'([\w:]+)\.\.\.', c)
        if m:
            by[m.group(1).split('::')[-1]] = c
    for n in names:
        h = HARNESSES[n]
        res = dict(harness=n, complete=h['complete'], bound=h.get('bound'), domain=h.get('domain'), cmd=r['cmd'], wall_s=round(r['wall'], 1))
        c = by.get(n)
        if c is None:
            res.update(status='undecided', reason='no result for harness (rc=%s%s): %s' % (r['rc'], ', timeout' if r['timed_out'] else '', r['out'][-800:]))
        elif 'VERIFICATION:- SUCCESSFUL' in c:
            mt = re.search(r'Verification Time: ([\d.]+)s', c)
            res.update(status='ok', solver_s=float(mt.group(1)) if mt else None,
                       checks=int(re.search(r'\*\* \d+ of (\d+) failed', c).group(1)) if re.search(r'\*\* \d+ of (\d+) failed', c) else None)
        elif 'VERIFICATION:- FAILED' in c:
            failed = re.findall(r'Failed Checks: (.*)', c)
            # an unwinding-assertion failure alone means the bound was too small: undecided, not a violation
            real = [f for f in failed if 'unwinding assertion' not in f]
            if not real:
                res.update(status='undecided', reason='unwinding bound too small: ' + '; '.join(failed)[:300])
            else:
                res.update(status='failed', failed_checks='; '.join(real)[:600], output_tail=c[-3000:])
                pb = _run(dst, [n], h['timeout'] + 300, extra=['-Z', 'concrete-playback', '--concrete-playback=print'])
                m = re.search(r'(?s)Concrete playback unit test for.*?```\s*(.*?)```', pb['out'])
                res['counterexample'] = dict(kani_concrete_playback=m.group(1)[:4000]) if m else None
        else:
            res.update(status='undecided', reason='unrecognised kani output: ' + c[-600:])
        results.append(res)
    return results
