#!/usr/bin/env python3
"""record_seed.py <Cxx> <n> "<confirm RESULT line>" "<check outcome>" — copy a confirmed seeded change into /verif/seeded/<id>/"""
import json, os, shutil, sys
pid, n, confirm, outcome = sys.argv[1:5]
root = os.environ.get('SEED_ROOT', '/tmp/wt_')
src = '%s%s/SEED%s' % (root, pid, n)
dst = '/verif/seeded/%s-%s' % (pid, int(n) + int(os.environ.get('SEED_OFFSET', '0')))
os.makedirs(dst, exist_ok=True)
for f in ('patch.diff', 'demo.rs'):
    shutil.copyfile(os.path.join(src, f), os.path.join(dst, f))
m = json.load(open(os.path.join(src, 'meta.json')))
meta = dict(property=pid, breaks=m.get('summary'), needs_to_manifest=m.get('needs_to_manifest'),
            author='independent sub-agent given only the property text and its own worktree',
            confirmed_by_me=dict(what_i_ran='/tmp/confirm_seed.sh: git apply patch; cargo test --workspace --offline; cargo test --test seed_demo with and without the change', result=confirm),
            check_outcome=outcome)
json.dump(meta, open(os.path.join(dst, 'meta.json'), 'w'), indent=1)
print('recorded', dst)
