use vstd::prelude::*;
macro_rules! assert_eq { ($a:expr, $b:expr) => { rt_assert($a == $b) } }
macro_rules! assert { ($a:expr) => { rt_assert($a) } }
verus! {

pub struct IoError;
pub type Result<T> = std::result::Result<T, IoError>;
pub struct BE;

#[verifier::external_body]
pub fn rt_assert(c: bool) ensures c { unimplemented!() }

pub open spec fn be16(s: Seq<u8>, o: int) -> u16 { ((s[o] as u16) * 256 + (s[o+1] as u16)) as u16 }

pub trait ReadBytesExt: Sized {
	spec fn bytes(&self) -> Seq<u8>;
	fn read_u16<B>(&mut self) -> (r: Result<u16>)
		ensures match r {
			Ok(x) => old(self).bytes().len() >= 2 && x == be16(old(self).bytes(), 0) && final(self).bytes() == old(self).bytes().subrange(2, old(self).bytes().len() as int),
			Err(_) => old(self).bytes().len() < 2,
		};
}
impl<'a> ReadBytesExt for &'a [u8] {
	open spec fn bytes(&self) -> Seq<u8> { (*self)@ }
	#[verifier::external_body]
	fn read_u16<B>(&mut self) -> (r: Result<u16>) { unimplemented!() }
}

pub struct SplitAccumulator {
	pub raw: Vec<u8>,
	pub actual_size: u32,
}

fn handle_splitter_event(buf: &[u8], accumulator: &mut SplitAccumulator) -> (res: Result<Option<u8>>)
	ensures res is Ok ==> final(accumulator).raw@ == old(accumulator).raw@ + buf@.subrange(0, 512),
{
	assert_eq!(buf.len(), 516);
	let actual_size = (&buf[512..514]).read_u16::<BE>()?;
	assert!(actual_size <= 512);
	let wrapped_event = buf[514];
	let is_final = buf[515] != 0;

	// bytes beyond `actual_size` are meaningless,
	// but save them anyway for lossless round-tripping
	accumulator.raw.extend_from_slice(&buf[0..512]);
	accumulator.actual_size += actual_size as u32;

	Ok(match is_final {
		true => Some(wrapped_event),
		_ => None,
	})
}

} // verus!
fn main() {}
