use vstd::prelude::*;
macro_rules! assert_eq { ($a:expr, $b:expr) => { rt_assert($a == $b) } }
verus! {
pub struct IoError;
pub type Result<T> = std::result::Result<T, IoError>;
pub struct BE;
pub fn rt_assert(c: bool) requires c {}

pub open spec fn be32(s: Seq<u8>, o: int) -> u32 { ((s[o] as u32) * 16777216 + (s[o+1] as u32) * 65536 + (s[o+2] as u32) * 256 + (s[o+3] as u32)) as u32 }

pub trait ReadBytesExt: Sized {
	spec fn bytes(&self) -> Seq<u8>;
	fn read_u8(&mut self) -> (r: Result<u8>)
		ensures match r {
			Ok(x) => old(self).bytes().len() >= 1 && x == old(self).bytes()[0] && final(self).bytes() == old(self).bytes().subrange(1, old(self).bytes().len() as int),
			Err(_) => old(self).bytes().len() < 1,
		};
	fn read_u32<B>(&mut self) -> (r: Result<u32>)
		ensures match r {
			Ok(x) => old(self).bytes().len() >= 4 && x == be32(old(self).bytes(), 0) && final(self).bytes() == old(self).bytes().subrange(4, old(self).bytes().len() as int),
			Err(_) => old(self).bytes().len() < 4,
		};
}
impl<'a> ReadBytesExt for &'a [u8] {
	open spec fn bytes(&self) -> Seq<u8> { (*self)@ }
	#[verifier::external_body] fn read_u8(&mut self) -> (r: Result<u8>) { unimplemented!() }
	#[verifier::external_body] fn read_u32<B>(&mut self) -> (r: Result<u32>) { unimplemented!() }
}

pub struct Col { pub v: Vec<Option<u32>> }
impl Col {
	pub open spec fn view(&self) -> Seq<Option<u32>> { self.v@ }
	#[verifier::external_body] pub fn push(&mut self, x: Option<u32>) ensures final(self)@ == old(self)@.push(x) { unimplemented!() }
}
pub struct Bitmap { pub v: Vec<bool> }
impl Bitmap {
	pub open spec fn view(&self) -> Seq<bool> { self.v@ }
	#[verifier::external_body] pub fn push(&mut self, x: bool) ensures final(self)@ == old(self)@.push(x) { unimplemented!() }
}
pub struct Version(pub u8, pub u8, pub u8);
pub struct Pre { pub random_seed: Col }
impl Pre {
	pub fn read_push(&mut self, r: &mut &[u8], version: Version) -> (res: Result<()>)
		ensures res is Ok ==> old(r)@.len() >= 4 && final(self).random_seed@ == old(self).random_seed@.push(Some(be32(old(r)@, 0))),
			res is Err ==> old(r)@.len() < 4,
	{
		{ let x = r.read_u32::<BE>()?; self.random_seed.push(Some(x)) };
		Ok(())
	}
}
pub struct Data { pub pre: Pre, pub validity: Option<Bitmap> }
pub struct PortData { pub leader: Data, pub follower: Option<Data> }
pub struct Frames { pub ports: Vec<PortData> }
pub struct Game { pub frames: Frames, pub version: Version }
pub struct ParseState { pub port_indexes: [usize; 4], pub game: Game }

pub open spec fn event_ok(state: ParseState, buf: Seq<u8>) -> bool {
	&&& buf.len() >= 6 + 4
	&&& buf[4] < 4
	&&& state.port_indexes[buf[4] as int] < state.game.frames.ports@.len()
	&&& (buf[5] != 0 ==> state.game.frames.ports@[state.port_indexes[buf[4] as int] as int].follower is Some)
}

fn frame_pre_arm(state: &mut ParseState, buf: &Vec<u8>) -> (res: Result<()>)
	requires event_ok(*old(state), buf@),
	ensures
		res is Ok,
		final(state).port_indexes == old(state).port_indexes,
		final(state).game.frames.ports@.len() == old(state).game.frames.ports@.len(),
		// frame condition: every other port slot untouched
		forall|k: int| 0 <= k < old(state).game.frames.ports@.len() && k != old(state).port_indexes[buf@[4] as int]
			==> final(state).game.frames.ports@[k] == old(state).game.frames.ports@[k],
		// the addressed character gained exactly the decoded row
		buf@[5] == 0 ==> ({
			let pi = old(state).port_indexes[buf@[4] as int] as int;
			&&& final(state).game.frames.ports@[pi].leader.pre.random_seed@ == old(state).game.frames.ports@[pi].leader.pre.random_seed@.push(Some(be32(buf@, 6)))
			&&& final(state).game.frames.ports@[pi].follower == old(state).game.frames.ports@[pi].follower
			&&& (old(state).game.frames.ports@[pi].leader.validity is Some ==> final(state).game.frames.ports@[pi].leader.validity.unwrap()@ == old(state).game.frames.ports@[pi].leader.validity.unwrap()@.push(true))
		}),
{
	let r = &mut &*buf.as_slice();
	let id = r.read_u32::<BE>()?;
	let port = r.read_u8()?;
	let is_follower = r.read_u8()? != 0;
	let port_index = state.port_indexes[port as usize];
	if is_follower {
		if let Some(v) = state.game.frames.ports[port_index]
			.follower
			.as_mut()
			.unwrap()
			.validity
			.as_mut() { v.push(true); }
		state.game.frames.ports[port_index]
			.follower
			.as_mut()
			.unwrap()
			.pre
			.read_push(r, Version(3, 0, 0))?;
	} else {
		if let Some(v) = state.game.frames.ports[port_index]
			.leader
			.validity
			.as_mut() { v.push(true); }
		state.game.frames.ports[port_index]
			.leader
			.pre
			.read_push(r, Version(3, 0, 0))?;
	}
	Ok(())
}
}
fn main() {}
