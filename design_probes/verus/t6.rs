use vstd::prelude::*;
verus! {

pub struct MutableBitmap { pub v: Vec<bool> }
impl MutableBitmap {
	pub open spec fn view(&self) -> Seq<bool> { self.v@ }
	#[verifier::external_body]
	pub fn push(&mut self, x: bool) ensures final(self)@ == old(self)@.push(x) { unimplemented!() }
	#[verifier::external_body]
	pub fn from_len_set(len: usize) -> (r: Self) ensures r@ == Seq::new(len as nat, |i: int| true) { unimplemented!() }
	#[verifier::external_body]
	pub fn len(&self) -> (r: usize) ensures r == self@.len() { unimplemented!() }
}

pub assume_specification<T, F: FnOnce() -> T>[Option::<T>::get_or_insert_with](o: &mut Option<T>, f: F) -> (r: &mut T)
	requires *old(o) is None ==> f.requires(()),
	ensures
		*old(o) is Some ==> *r == (*old(o)).unwrap(),
		*old(o) is None ==> f.ensures((), *r),
		*final(o) == Some(*final(r)),
;

pub struct Pos { pub validity: Option<MutableBitmap>, pub n: usize }

impl Pos {
	pub fn len(&self) -> (r: usize) ensures r == self.n { self.n }

	pub fn t_asmut_map(&mut self)
		ensures old(self).validity is Some ==> final(self).validity is Some && final(self).validity.unwrap()@ == old(self).validity.unwrap()@.push(true),
			old(self).validity is None ==> final(self).validity is None,
	{
		self.validity.as_mut().map(|v| v.push(true));
	}

	pub fn push_null(&mut self)
		ensures final(self).validity is Some,
			old(self).validity is Some ==> final(self).validity.unwrap()@ == old(self).validity.unwrap()@.push(false),
			old(self).validity is None ==> final(self).validity.unwrap()@ == Seq::new(old(self).n as nat, |i: int| true).push(false),
	{
		let len = self.len();
		self.validity
			.get_or_insert_with(|| MutableBitmap::from_len_set(len))
			.push(false);
	}
}

} // verus!
fn main() {}
