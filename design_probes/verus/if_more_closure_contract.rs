use vstd::prelude::*;
verus! {
pub struct Error;
pub type Result<T> = std::result::Result<T, Error>;

#[verifier::external_body]
fn read_u8(r: &mut &[u8]) -> (res: Result<u8>)
	ensures match res {
		Ok(x) => old(r)@.len() >= 1 && x == old(r)@[0] && final(r)@ == old(r)@.subrange(1, old(r)@.len() as int),
		Err(_) => old(r)@.len() < 1 && final(r)@ == old(r)@,
	}
{ unimplemented!() }

fn if_more<F, T>(r: &mut &[u8], f: F) -> (res: Result<Option<T>>)
where
	F: FnOnce(&mut &[u8]) -> Result<T>,
	requires
		forall|x: &mut &[u8]| f.requires((x,)),
	ensures
		old(r)@.len() == 0 ==> res == Ok::<Option<T>, Error>(None) && final(r)@ == old(r)@,
		old(r)@.len() > 0 ==> exists|x: &mut &[u8], y: Result<T>| f.ensures((x,), y) && *x == *old(r) && *final(x) == *final(r) && (y is Ok ==> res == Ok::<Option<T>, Error>(Some(y->Ok_0))) && (y is Err ==> res is Err),
{
	Ok(match r.is_empty() {
		true => None,
		_ => Some(f(r)?),
	})
}

fn user(r: &mut &[u8]) -> (res: Result<Option<bool>>)
	ensures
		old(r)@.len() == 0 ==> res == Ok::<Option<bool>, Error>(None),
		old(r)@.len() > 0 ==> res == Ok::<Option<bool>, Error>(Some(old(r)@[0] != 0)) && final(r)@ == old(r)@.subrange(1, old(r)@.len() as int),
{
	let is_pal = if_more(r, |r: &mut &[u8]| -> (out: Result<bool>)
		ensures old(r)@.len() > 0 ==> out == Ok::<bool, Error>(old(r)@[0] != 0) && final(r)@ == old(r)@.subrange(1, old(r)@.len() as int),
		{ Ok(read_u8(r)? != 0) })?;
	Ok(is_pal)
}
}
fn main() {}
