use vstd::prelude::*;
verus! {

pub struct IoError;
pub type Result<T> = std::result::Result<T, IoError>;

pub struct BE;

pub open spec fn be16(s: Seq<u8>, o: int) -> u16 { ((s[o] as u16) * 256 + (s[o+1] as u16)) as u16 }

pub trait ReadBytesExt: Sized {
	spec fn bytes(&self) -> Seq<u8>;

	fn read_u8(&mut self) -> (r: Result<u8>)
		ensures match r {
			Ok(x) => old(self).bytes().len() >= 1 && x == old(self).bytes()[0] && final(self).bytes() == old(self).bytes().subrange(1, old(self).bytes().len() as int),
			Err(_) => old(self).bytes().len() < 1 && final(self).bytes() == old(self).bytes(),
		};

	fn read_u16<B>(&mut self) -> (r: Result<u16>)
		ensures match r {
			Ok(x) => old(self).bytes().len() >= 2 && x == be16(old(self).bytes(), 0) && final(self).bytes() == old(self).bytes().subrange(2, old(self).bytes().len() as int),
			Err(_) => old(self).bytes().len() < 2,
		};
}

impl<'a> ReadBytesExt for &'a [u8] {
	open spec fn bytes(&self) -> Seq<u8> { (*self)@ }

	#[verifier::external_body]
	fn read_u8(&mut self) -> (r: Result<u8>) { unimplemented!() }

	#[verifier::external_body]
	fn read_u16<B>(&mut self) -> (r: Result<u16>) { unimplemented!() }
}

pub struct MutablePrimitiveArray<T> { pub v: Vec<Option<T>> }

impl<T> MutablePrimitiveArray<T> {
	pub open spec fn view(&self) -> Seq<Option<T>> { self.v@ }
	#[verifier::external_body]
	pub fn push(&mut self, x: Option<T>)
		ensures final(self)@ == old(self)@.push(x)
	{ unimplemented!() }
}

pub struct Version(pub u8, pub u8, pub u8);
impl Version {
	pub open spec fn ge(&self, major: u8, minor: u8) -> bool { self.0 > major || (self.0 == major && self.1 >= minor) }
	pub fn gte(&self, major: u8, minor: u8) -> (r: bool) ensures r == self.ge(major, minor)
	{
		self.0 > major || (self.0 == major && self.1 >= minor)
	}
}

pub struct Start {
	pub random_seed: MutablePrimitiveArray<u16>,
	pub scene_frame_counter: Option<MutablePrimitiveArray<u16>>,
}

impl Start {
	pub fn read_push(&mut self, r: &mut &[u8], version: Version) -> (res: Result<()>)
		requires version.ge(3,10) ==> old(self).scene_frame_counter is Some,
		ensures res is Ok ==> old(r)@.len() >= 2 && final(self).random_seed@ == old(self).random_seed@.push(Some(be16(old(r)@, 0))),
			res is Ok && version.ge(3,10) ==> old(r)@.len() >= 4 && final(self).scene_frame_counter.unwrap()@ == old(self).scene_frame_counter.unwrap()@.push(Some(be16(old(r)@, 2))),
	{
		{ let x = r.read_u16::<BE>()?; self.random_seed.push(Some(x)) };
		if version.gte(3, 10) {
			{ let x = r.read_u16::<BE>()?; self.scene_frame_counter.as_mut().unwrap().push(Some(x)) }
		};
		Ok(())
	}
}

} // verus!
fn main() {}
