use vstd::prelude::*;
verus! {

pub struct LogW { pub out: Vec<u8> }
impl LogW {
	pub open spec fn n(&self) -> nat { self.out@.len() }
	#[verifier::external_body]
	pub fn emit(&mut self, k: usize) ensures final(self).n() == old(self).n() + k { unimplemented!() }
}

pub open spec fn count_true(s: Seq<bool>, upto: int) -> nat
	decreases upto
{
	if upto <= 0 { 0 } else { count_true(s, upto - 1) + if s[upto - 1] { 1nat } else { 0nat } }
}

proof fn lemma_mul_step(k: nat, c: nat) ensures (k + 1) * c == k * c + c { assert((k + 1) * c == k * c + c) by (nonlinear_arith); }


// shape of Frame::write for one port without follower: per frame: start event, pre if valid, post if valid, end event
fn write_frames(w: &mut LogW, valid: &Vec<bool>, sz_start: usize, sz_pre: usize, sz_post: usize, sz_end: usize)
	requires sz_start < 100, sz_pre < 100, sz_post < 100, sz_end < 100, valid@.len() < 1000000, old(w).n() == 0,
	ensures final(w).n() == valid@.len() * (1 + sz_start) + count_true(valid@, valid@.len() as int) * (1 + sz_pre)
		+ count_true(valid@, valid@.len() as int) * (1 + sz_post) + valid@.len() * (1 + sz_end),
{
	let mut idx: usize = 0;
	proof { assert(0 * (1 + sz_start) == 0 && 0 * (1 + sz_end) == 0 && 0 * (1 + sz_pre) == 0 && 0 * (1 + sz_post) == 0) by (nonlinear_arith); }
	while idx < valid.len()
		invariant
			idx <= valid@.len(), valid@.len() < 1000000, sz_start < 100, sz_pre < 100, sz_post < 100, sz_end < 100,
			w.n() == idx * (1 + sz_start) + count_true(valid@, idx as int) * (1 + sz_pre)
				+ count_true(valid@, idx as int) * (1 + sz_post) + idx * (1 + sz_end),
		decreases valid@.len() - idx,
	{
		w.emit(1 + sz_start);
		if valid[idx] { w.emit(1 + sz_pre); }
		if valid[idx] { w.emit(1 + sz_post); }
		w.emit(1 + sz_end);
		proof {
			lemma_mul_step(idx as nat, (1 + sz_start) as nat);
			lemma_mul_step(idx as nat, (1 + sz_end) as nat);
			lemma_mul_step(count_true(valid@, idx as int), (1 + sz_pre) as nat);
			lemma_mul_step(count_true(valid@, idx as int), (1 + sz_post) as nat);
		}
		idx = idx + 1;
	}
}
}
fn main() {}
