use vstd::prelude::*;
verus! {

pub const FIRST_INDEX: i32 = -123;

pub trait PairIter: Sized {
	spec fn rem(&self) -> Seq<(usize, i32)>;
	fn next(&mut self) -> (r: Option<(usize, i32)>)
		ensures
			old(self).rem().len() == 0 ==> r is None && final(self).rem() == old(self).rem(),
			old(self).rem().len() > 0 ==> r == Some(old(self).rem()[0]) && final(self).rem() == old(self).rem().subrange(1, old(self).rem().len() as int);
}

pub open spec fn seen_before(s: Seq<(usize, i32)>, k: int) -> bool {
	exists|j: int| 0 <= j < k && s[j].1 == s[k].1
}

fn rollbacks_<I: PairIter>(len: usize, max_id: Option<i32>, ids: I) -> (result: Vec<bool>)
	requires
		forall|k: int| 0 <= k < ids.rem().len() ==> (#[trigger] ids.rem()[k]).0 < len && FIRST_INDEX <= ids.rem()[k].1,
		forall|k: int| 0 <= k < ids.rem().len() ==> max_id is Some && (#[trigger] ids.rem()[k]).1 <= max_id.unwrap(),
		forall|j: int, k: int| 0 <= j < k < ids.rem().len() ==> ids.rem()[j].0 != ids.rem()[k].0,
		max_id is Some ==> max_id.unwrap() >= FIRST_INDEX && max_id.unwrap() < 1000000000,
	ensures
		result@.len() == len,
		forall|k: int| 0 <= k < ids.rem().len() ==> result@[(#[trigger] ids.rem()[k]).0 as int] == seen_before(ids.rem(), k),
{
	let mut ids = ids;
	let ghost all = ids.rem();
	let mut result = vec![false; len];
	let unique_id_count = match max_id { Some(idx) => 1 + (idx - FIRST_INDEX) as usize, None => 0 };
	let mut seen = vec![false; unique_id_count];
	let ghost mut n: int = 0;
	loop
		invariant
			0 <= n <= all.len(), ids.rem() == all.subrange(n, all.len() as int),
			result@.len() == len, seen@.len() == unique_id_count,
			max_id is Some ==> unique_id_count == 1 + (max_id.unwrap() - FIRST_INDEX),
			forall|k: int| 0 <= k < all.len() ==> (#[trigger] all[k]).0 < len && FIRST_INDEX <= all[k].1 && max_id is Some && all[k].1 <= max_id.unwrap(),
			forall|j: int, k: int| 0 <= j < k < all.len() ==> all[j].0 != all[k].0,
			forall|z: int| 0 <= z < seen@.len() ==> (seen@[z] == exists|j: int| 0 <= j < n && all[j].1 - FIRST_INDEX == z),
			forall|k: int| 0 <= k < n ==> result@[(#[trigger] all[k]).0 as int] == seen_before(all, k),
		decreases all.len() - n,
	{
		match ids.next() {
			None => break,
			Some((idx, id)) => {
				let zero_based_id = (id - FIRST_INDEX) as usize;
				proof { assert(all[n] == (idx, id)); }
				if !seen[zero_based_id] {
					seen[zero_based_id] = true;
					result[idx] = false;
				} else {
					result[idx] = true;
				}
				proof { n = n + 1; }
			}
		}
	}
	result
}

}
fn main() {}
