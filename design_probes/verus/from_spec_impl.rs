use vstd::prelude::*;
verus! {
pub struct IoError;
pub enum Error { InvalidData, Io(IoError) }
impl vstd::std_specs::convert::FromSpecImpl<IoError> for Error {
	open spec fn obeys_from_spec() -> bool { true }
	open spec fn from_spec(e: IoError) -> Error { Error::Io(e) }
}
impl From<IoError> for Error {
	fn from(e: IoError) -> (r: Error) { Error::Io(e) }
}
pub type Result<T> = std::result::Result<T, Error>;
pub type IoResult<T> = std::result::Result<T, IoError>;

#[verifier::external_body]
fn rd(x: u8) -> (r: IoResult<u8>) ensures x < 10 ==> r == Ok::<u8, IoError>(x), x >= 10 ==> r is Err { unimplemented!() }

fn conv(x: u8) -> (res: Result<u8>)
	ensures x < 10 ==> res == Ok::<u8, Error>(x), x >= 10 ==> res is Err,
{
	let v = rd(x)?;
	Ok(v)
}
}
fn main() {}
