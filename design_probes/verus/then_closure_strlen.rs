use vstd::prelude::*;
verus! {
pub struct Col { pub v: Vec<u8> }
impl Col {
	#[verifier::external_body]
	pub fn with_capacity(c: usize) -> (r: Self) ensures r.v@.len() == 0 { unimplemented!() }
}
pub struct Version(pub u8, pub u8, pub u8);
impl Version {
	pub open spec fn ge(&self, major: u8, minor: u8) -> bool { self.0 > major || (self.0 == major && self.1 >= minor) }
	pub fn gte(&self, major: u8, minor: u8) -> (r: bool) ensures r == self.ge(major, minor)
	{ self.0 > major || (self.0 == major && self.1 >= minor) }
}
pub struct S { pub a: Col, pub b: Option<Col> }
impl S {
	fn with_capacity(capacity: usize, version: Version) -> (r: Self)
		ensures r.b is Some == version.ge(3, 10), r.b is Some ==> r.b.unwrap().v@.len() == 0
	{
		Self {
			a: Col::with_capacity(capacity),
			b: version
				.gte(3, 10)
				.then(|| Col::with_capacity(capacity)),
		}
	}
}
fn slen(s: &str) -> (r: usize) { s.len() }
}
fn main() {}
