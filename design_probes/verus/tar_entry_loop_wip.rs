use vstd::prelude::*;
macro_rules! err { ($( $arg: expr ),*) => { mk_err() } }
macro_rules! debug { ($( $arg: expr ),*) => { () } }
verus! {
pub struct Error;
pub type Result<T> = std::result::Result<T, Error>;
#[verifier::external_body] pub fn mk_err() -> Error { unimplemented!() }

pub struct Entry { pub name: &'static str, pub data: Vec<u8> }
impl Entry {
	pub fn entry_name(&self) -> (r: Option<&'static str>) ensures r == Some(self.name) { Some(self.name) }
}
pub struct Entries { pub rem: Vec<Entry>, pub pos: usize }
impl Entries {
	pub open spec fn remaining(&self) -> Seq<Entry> { self.rem@.subrange(self.pos as int, self.rem@.len() as int) }
	pub open spec fn wf(&self) -> bool { self.pos <= self.rem@.len() }
	#[verifier::external_body]
	pub fn next(&mut self) -> (r: Option<Result<Entry>>)
		requires old(self).wf(),
		ensures final(self).wf(), final(self).rem == old(self).rem,
			old(self).remaining().len() == 0 ==> r is None && final(self).pos == old(self).pos,
			old(self).remaining().len() > 0 ==> final(self).pos == old(self).pos + 1 && (r is Some) && (r.unwrap() is Ok ==> r.unwrap()->Ok_0 == old(self).remaining()[0]),
	{ unimplemented!() }
}

#[verifier::external_body]
fn read_start(e: Entry) -> (r: Result<u32>) { unimplemented!() }
#[verifier::external_body]
fn read_frames(e: Entry) -> (r: Result<u64>) { unimplemented!() }

pub open spec fn index_of_frames(s: Seq<Entry>) -> int
	decreases s.len()
{
	if s.len() == 0 { 0 } else if s[0].name == "frames.arrow" { 0 } else { 1 + index_of_frames(s.subrange(1, s.len() as int)) }
}

fn read(entries: Entries) -> (res: Result<(u32, u64)>)
	requires entries.wf(), entries.pos == 0,
	ensures res is Ok ==> exists|i: int, j: int| 0 <= i < entries.rem@.len() && 0 <= j < entries.rem@.len() && entries.rem@[i].name == "start.raw" && entries.rem@[j].name == "frames.arrow" && i < j,
{
	let ghost rem0 = entries.rem;
	let mut entries = entries;
	let mut start: Option<u32> = None;
	let mut frames: Option<u64> = None;
	let ghost mut si: int = -1;
	let ghost mut fi: int = -1;
	loop
		invariant entries.wf(), entries.rem == rem0,
			frames is None,
			start is Some ==> 0 <= si < entries.pos && entries.rem@[si].name == "start.raw",
		decreases entries.rem@.len() - entries.pos,
	{
		match entries.next() { None => break, Some(entry) => {
		let file = entry?;
		proof { assert(file == entries.rem@[entries.pos - 1]); }
		match file.entry_name() {
			Some("start.raw") => { proof { si = entries.pos - 1; } start = Some(read_start(file)?) },
			Some("frames.arrow") => {
				let version = start
					.ok_or(err!("no start"))?;
				frames = Some(read_frames(file)?);
				proof { fi = entries.pos - 1; }
				assert(0 <= si < fi && entries.rem@[fi].name == "frames.arrow");
				return Ok((version, frames.unwrap()));
			}
			_ => debug!("=> skipping"),
		};
		}}
	}
	Err(err!("missing frames"))
}
}
fn main() {}
