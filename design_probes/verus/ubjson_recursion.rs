use vstd::prelude::*;
macro_rules! err { ($( $arg: expr ),*) => { mk_err() } }
verus! {
pub struct Error;
pub type Result<T> = std::result::Result<T, Error>;
#[verifier::external_body] pub fn mk_err() -> Error { unimplemented!() }

pub enum Value { Str(Vec<u8>), Num(i32), Object(JsMap) }
pub struct JsMap { pub kv: Vec<(Vec<u8>, Value)> }
impl JsMap {
	#[verifier::external_body]
	pub fn new() -> (r: Self) ensures r.kv@.len() == 0 { unimplemented!() }
	#[verifier::external_body]
	pub fn insert(&mut self, k: Vec<u8>, v: Value) ensures final(self).kv@ == old(self).kv@.push((k, v)) { unimplemented!() }
}

#[verifier::external_body]
fn read_u8(r: &mut &[u8]) -> (res: Result<u8>)
	ensures match res {
		Ok(x) => old(r)@.len() >= 1 && x == old(r)@[0] && final(r)@ == old(r)@.subrange(1, old(r)@.len() as int),
		Err(_) => old(r)@.len() < 1 && final(r)@ == old(r)@,
	}
{ unimplemented!() }

#[verifier::external_body]
fn to_utf8(r: &mut &[u8]) -> (res: Result<Vec<u8>>)
	ensures res is Ok ==> final(r)@.len() < old(r)@.len(), res is Err ==> final(r)@.len() <= old(r)@.len(),
{ unimplemented!() }

fn to_val(r: &mut &[u8]) -> (res: Result<Value>)
	ensures final(r)@.len() <= old(r)@.len(), res is Ok ==> final(r)@.len() < old(r)@.len(),
	decreases old(r)@.len(), 0int
{
	match read_u8(r)? {
		0x53 => match read_u8(r)? {
			0x55 => Ok(Value::Str(to_utf8(r)?)),
			c => Err(err!("Expected 0x55 for string length, but got: {}", c)),
		},
		0x7b => Ok(Value::Object(read_map(r)?)),
		c => Err(err!("unexpected UBJSON value type: {}", c)),
	}
}

fn to_key(r: &mut &[u8]) -> (res: Result<Option<Vec<u8>>>)
	ensures final(r)@.len() <= old(r)@.len(), res is Ok ==> final(r)@.len() < old(r)@.len(),
{
	match read_u8(r)? {
		0x55 => Ok(Some(to_utf8(r)?)),
		0x7d => Ok(None),
		c => Err(err!("unexpected UBJSON key type: {}", c)),
	}
}

fn read_map(r: &mut &[u8]) -> (res: Result<JsMap>)
	ensures final(r)@.len() <= old(r)@.len(),
	decreases old(r)@.len(), 1int
{
	let mut m = JsMap::new();
	while match to_key(r)? {
		Some(k) => {
			m.insert(k, to_val(r)?);
			true
		}
		None => false,
	}
		invariant r@.len() <= old(r)@.len(),
		decreases r@.len(),
	{}
	Ok(m)
}
}
fn main() {}
