use vstd::prelude::*;
verus! {

pub struct MutableBitmap { pub v: Vec<bool> }
impl MutableBitmap {
	pub open spec fn view(&self) -> Seq<bool> { self.v@ }
	#[verifier::external_body]
	pub fn push(&mut self, x: bool) ensures final(self)@ == old(self)@.push(x) { unimplemented!() }
	#[verifier::external_body]
	pub fn from_len_set(len: usize) -> (r: Self) ensures r@ == Seq::new(len as nat, |i: int| true) { unimplemented!() }
}

pub struct Data { pub validity: Option<MutableBitmap>, pub n: usize }

impl Data {
	pub open spec fn slen(&self) -> nat { self.n as nat }
	pub fn len(&self) -> (r: usize) ensures r == self.n { self.n }

	pub fn t_asmut_map(&mut self)
		ensures old(self).validity is Some ==> final(self).validity is Some && final(self).validity.unwrap()@ == old(self).validity.unwrap()@.push(true),
			old(self).validity is None ==> final(self).validity is None,
	{
		if let Some(v) = self.validity.as_mut() { v.push(true); }
	}

	pub fn push_null(&mut self)
		requires old(self).n < 1000000
		ensures final(self).n == old(self).n + 1,
			final(self).validity is Some,
			old(self).validity is Some ==> final(self).validity.unwrap()@ == old(self).validity.unwrap()@.push(false),
			old(self).validity is None ==> final(self).validity.unwrap()@ == Seq::new(old(self).n as nat, |i: int| true).push(false),
	{
		let len = self.len();
		if self.validity.is_none() { self.validity = Some(MutableBitmap::from_len_set(len)); }
		self.validity.as_mut().unwrap().push(false);
		self.n = self.n + 1;
	}
}

pub struct PortData { pub leader: Data, pub follower: Option<Data> }
pub struct Frames { pub ports: Vec<PortData>, pub n: usize }

impl Frames {
	pub fn len(&self) -> (r: usize) ensures r == self.n { self.n }

	fn frame_close(&mut self)
		requires old(self).n < 1000000,
			forall|i: int| 0 <= i < old(self).ports@.len() ==> old(self).ports@[i].leader.n <= old(self).n,
		ensures final(self).n == old(self).n,
			final(self).ports@.len() == old(self).ports@.len(),
			forall|i: int| 0 <= i < final(self).ports@.len() ==> final(self).ports@[i].leader.n == final(self).n,
	{
		let len = self.len();
		let mut idx_: usize = 0;
		let n_ = self.ports.len();
		while idx_ < n_
			invariant
				n_ == self.ports@.len(), idx_ <= n_, len == self.n, len < 1000000, self.n == old(self).n,
				forall|i: int| 0 <= i < idx_ ==> self.ports@[i].leader.n == len,
				forall|i: int| idx_ <= i < n_ ==> self.ports@[i].leader.n <= len,
			decreases n_ - idx_,
		{
			let p = &mut self.ports[idx_];
			while p.leader.len() < len
				invariant len < 1000000, p.leader.n <= len,
				decreases len - p.leader.n,
			{
				p.leader.push_null();
			}
			if let Some(f) = &mut p.follower {
				while f.len() < len
					invariant len < 1000000,
					decreases len - f.n,
				{
					f.push_null();
				}
			}
			idx_ = idx_ + 1;
		}
	}
}

} // verus!
fn main() {}
