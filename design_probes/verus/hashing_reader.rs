use vstd::prelude::*;
verus! {
pub struct IoError;
pub type IoResult<T> = std::result::Result<T, IoError>;

pub struct Xxh3 { pub fed: Ghost<Seq<u8>> }
impl Xxh3 {
	#[verifier::external_body]
	pub fn update(&mut self, b: &[u8]) ensures final(self).fed@ == old(self).fed@ + b@ { unimplemented!() }
}

pub trait Read {
	spec fn consumed(&self) -> Seq<u8>;
	spec fn inv(&self) -> bool;
	fn read(&mut self, buf: &mut [u8]) -> (res: IoResult<usize>)
		requires old(self).inv(),
		ensures final(self).inv(),
			final(buf)@.len() == old(buf)@.len(),
			res is Ok ==> res->Ok_0 <= final(buf)@.len() && final(self).consumed() == old(self).consumed() + final(buf)@.subrange(0, res->Ok_0 as int),
			res is Err ==> final(self).consumed() == old(self).consumed();
}

pub struct HashingReader<R: Read> {
	pub reader: R,
	pub hasher: Option<Box<Xxh3>>,
}

impl<R: Read> Read for HashingReader<R> {
	open spec fn consumed(&self) -> Seq<u8> { self.reader.consumed() }
	open spec fn inv(&self) -> bool { self.reader.inv() && (self.hasher is Some ==> self.hasher.unwrap().fed@ == self.reader.consumed()) }

	fn read(&mut self, buf: &mut [u8]) -> (res: IoResult<usize>) {
		let n = self.reader.read(buf)?;
		if let Some(h) = self.hasher.as_mut() { h.update(&buf[..n]); }
		Ok(n)
	}
}
}
fn main() {}
