use vstd::prelude::*;
verus! {

pub struct Error;
pub type Result<T> = std::result::Result<T, Error>;

pub trait ReadBytesExt: Sized {
	spec fn bytes(&self) -> Seq<u8>;
	fn read_u8(&mut self) -> (r: Result<u8>)
		ensures match r {
			Ok(x) => old(self).bytes().len() >= 1 && x == old(self).bytes()[0] && final(self).bytes() == old(self).bytes().subrange(1, old(self).bytes().len() as int),
			Err(_) => old(self).bytes().len() < 1 && final(self).bytes() == old(self).bytes(),
		};
}
impl<'a> ReadBytesExt for &'a [u8] {
	open spec fn bytes(&self) -> Seq<u8> { (*self)@ }
	#[verifier::external_body]
	fn read_u8(&mut self) -> (r: Result<u8>) { unimplemented!() }
}

fn if_more<F, T>(r: &mut &[u8], f: F) -> (res: Result<Option<T>>)
where
	F: FnOnce(&mut &[u8]) -> Result<T>,
{
	Ok(match r.is_empty() {
		true => None,
		_ => Some(f(r)?),
	})
}

fn user(r: &mut &[u8]) -> (res: Result<Option<u8>>)
	ensures res is Ok && old(r)@.len() == 0 ==> res->Ok_0 is None,
		res is Ok && old(r)@.len() > 0 ==> res->Ok_0 == Some(old(r)@[0]),
{
	let x = if_more(r, |r| { Ok(r.read_u8()?) })?;
	Ok(x)
}

} // verus!
fn main() {}
