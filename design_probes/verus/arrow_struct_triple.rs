use vstd::prelude::*;
verus! {

pub struct Version(pub u8, pub u8, pub u8);
impl Version {
	pub open spec fn ge(&self, major: u8, minor: u8) -> bool { self.0 > major || (self.0 == major && self.1 >= minor) }
	pub fn gte(&self, major: u8, minor: u8) -> (r: bool) ensures r == self.ge(major, minor)
	{ self.0 > major || (self.0 == major && self.1 >= minor) }
}

pub enum DataType { UInt32, Int32, Float32, Struct(Vec<Field>) }
pub struct Field { pub name: &'static str, pub data_type: DataType, pub is_nullable: bool }
impl Field {
	pub fn new(name: &'static str, data_type: DataType, is_nullable: bool) -> (r: Field)
		ensures r.name == name, r.data_type == data_type, r.is_nullable == is_nullable
	{ Field { name, data_type, is_nullable } }
}

pub struct Bitmap { pub v: Vec<bool> }
pub struct PrimitiveArray<T> { pub v: Vec<T> }
pub enum ArrayBox { U32(PrimitiveArray<u32>), I32(PrimitiveArray<i32>), Struct(StructArray) }
pub struct AnyRef<'a> { pub a: &'a ArrayBox }

impl PrimitiveArray<u32> {
	pub fn boxed(self) -> (r: ArrayBox) ensures r == ArrayBox::U32(self) { ArrayBox::U32(self) }
}
impl ArrayBox {
	pub fn as_any(&self) -> (r: AnyRef<'_>) ensures r.a == self { AnyRef { a: self } }
	pub open spec fn dt(&self) -> DataType { match self { ArrayBox::U32(_) => DataType::UInt32, ArrayBox::I32(_) => DataType::Int32, ArrayBox::Struct(s) => s.data_type } }
}
pub trait DowncastTo<T> { spec fn dspec(&self) -> Option<T>; fn downcast_ref_(&self) -> (r: Option<&T>) ensures (r is Some) == (self.dspec() is Some), r is Some ==> *r.unwrap() == self.dspec().unwrap(); }
impl<'a> DowncastTo<PrimitiveArray<u32>> for AnyRef<'a> {
	open spec fn dspec(&self) -> Option<PrimitiveArray<u32>> { match self.a { ArrayBox::U32(p) => Some(*p), _ => None } }
	fn downcast_ref_(&self) -> (r: Option<&PrimitiveArray<u32>>) { match self.a { ArrayBox::U32(p) => Some(p), _ => None } }
}
impl<'a> AnyRef<'a> {
	pub fn downcast_ref<T>(&self) -> (r: Option<&T>) where Self: DowncastTo<T>
		ensures (r is Some) == (self.dspec() is Some), r is Some ==> *r.unwrap() == self.dspec().unwrap()
	{ self.downcast_ref_() }
}
impl Clone for PrimitiveArray<u32> {
	#[verifier::external_body]
	fn clone(&self) -> (r: Self) ensures r == *self { unimplemented!() }
}

pub struct StructArray { pub data_type: DataType, pub values: Vec<ArrayBox>, pub validity: Option<Bitmap> }
impl StructArray {
	pub fn new(data_type: DataType, values: Vec<ArrayBox>, validity: Option<Bitmap>) -> (r: Self)
		requires data_type is Struct, data_type->Struct_0@.len() >= 1, data_type->Struct_0@.len() == values@.len(),
			forall|i: int| 0 <= i < values@.len() ==> values@[i].dt() == (#[trigger] data_type->Struct_0@[i]).data_type,
		ensures r.data_type == data_type, r.values == values, r.validity == validity
	{ StructArray { data_type, values, validity } }
	pub fn into_data(self) -> (r: (Vec<Field>, Vec<ArrayBox>, Option<Bitmap>))
		requires self.data_type is Struct
		ensures r.0 == self.data_type->Struct_0, r.1 == self.values, r.2 == self.validity
	{ match self.data_type { DataType::Struct(f) => (f, self.values, self.validity), _ => { proof { assert(false); } (Vec::new(), self.values, self.validity) } } }
}

pub struct Start {
	pub random_seed: PrimitiveArray<u32>,
	pub scene_frame_counter: Option<PrimitiveArray<u32>>,
	pub validity: Option<Bitmap>,
}

impl Start {
	pub open spec fn wf(&self, version: Version) -> bool { (self.scene_frame_counter is Some) == version.ge(3, 10) }

	fn data_type(version: Version) -> (r: DataType)
		ensures r is Struct,
			r->Struct_0@.len() == (if version.ge(3, 10) { 2int } else { 1int }),
			r->Struct_0@[0].name == "random_seed", r->Struct_0@[0].data_type == DataType::UInt32,
			version.ge(3, 10) ==> r->Struct_0@[1].name == "scene_frame_counter" && r->Struct_0@[1].data_type == DataType::UInt32,
	{
		let mut fields = vec![];
		{
			fields.push(Field::new("random_seed", DataType::UInt32, false));
			if version.gte(3, 10) {
				fields.push(Field::new("scene_frame_counter", DataType::UInt32, false))
			}
		};
		DataType::Struct(fields)
	}

	fn into_struct_array(self, version: Version) -> (r: StructArray)
		requires self.wf(version),
		ensures r.values@.len() == (if version.ge(3, 10) { 2int } else { 1int }),
			r.values@[0] == ArrayBox::U32(self.random_seed),
			version.ge(3, 10) ==> r.values@[1] == ArrayBox::U32(self.scene_frame_counter.unwrap()),
			r.validity == self.validity, r.data_type is Struct,
	{
		let mut values = vec![];
		values.push(self.random_seed.boxed());
		if version.gte(3, 10) {
			values.push(self.scene_frame_counter.unwrap().boxed())
		};
		StructArray::new(Self::data_type(version), values, self.validity)
	}

	fn from_struct_array(array: StructArray, version: Version) -> (r: Self)
		requires array.data_type is Struct, array.values@.len() >= 1, array.values@[0] is U32,
			array.values@.len() >= 2 ==> array.values@[1] is U32,
		ensures ArrayBox::U32(r.random_seed) == array.values@[0],
			(r.scene_frame_counter is Some) == (array.values@.len() >= 2),
			r.scene_frame_counter is Some ==> ArrayBox::U32(r.scene_frame_counter.unwrap()) == array.values@[1],
			r.validity == array.validity,
	{
		let (_, values, validity) = array.into_data();
		Self {
			random_seed: values[0]
				.as_any()
				.downcast_ref::<PrimitiveArray<u32>>()
				.unwrap()
				.clone(),
			scene_frame_counter: match values.get(1) { Some(x) => Some(
				x.as_any()
					.downcast_ref::<PrimitiveArray<u32>>()
					.unwrap()
					.clone()
			), None => None },
			validity: validity,
		}
	}
}
}
fn main() {}
