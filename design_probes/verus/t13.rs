use vstd::prelude::*;
verus! {
pub struct E;
pub uninterp spec fn f32_bits(x: f32) -> u32;
pub open spec fn be32(s: Seq<u8>, o: int) -> u32 { ((s[o] as u32) * 16777216 + (s[o+1] as u32) * 65536 + (s[o+2] as u32) * 256 + (s[o+3] as u32)) as u32 }

#[verifier::external_body]
fn read_f32(r: &mut &[u8]) -> (res: Result<f32, E>)
	ensures match res {
		Ok(x) => old(r)@.len() >= 4 && f32_bits(x) == be32(old(r)@, 0) && final(r)@ == old(r)@.subrange(4, old(r)@.len() as int),
		Err(_) => old(r)@.len() < 4,
	}
{ unimplemented!() }

#[verifier::external_body]
fn write_f32(w: &mut Vec<u8>, x: f32)
	ensures final(w)@.len() == old(w)@.len() + 4, final(w)@.subrange(0, old(w)@.len() as int) == old(w)@, be32(final(w)@, old(w)@.len() as int) == f32_bits(x),
{ unimplemented!() }

pub struct Col { pub v: Vec<Option<f32>> }

fn rt(r: &mut &[u8], w: &mut Vec<u8>, c: &mut Col) -> (res: Result<(), E>)
	ensures res is Ok ==> be32(final(w)@, old(w)@.len() as int) == be32(old(r)@, 0),
{
	let x = read_f32(r)?;
	c.v.push(Some(x));
	let y = c.v[c.v.len() - 1].unwrap();
	write_f32(w, y);
	Ok(())
}
}
fn main() {}
