use peppi::frame::{mutable, immutable, PortOccupancy};
use peppi::game::Port;
use peppi::io::slippi::Version;
use std::io::Cursor;

#[test]
fn v3_0_struct_array() {
	let ports = [PortOccupancy { port: Port::P1, follower: false }];
	let v = Version(3, 0, 0);
	let f: immutable::Frame = mutable::Frame::with_capacity(0, v, &ports).into();
	let _ = f.into_struct_array(v, &ports);
}

#[test]
fn endless_game_rewrite() {
	// take a real file, drop its Game End by parsing and setting end = None
	let buf = std::fs::read("tests/data/game.slp").unwrap();
	let mut game = peppi::io::slippi::read(&mut Cursor::new(&buf), None).unwrap();
	game.end = None;
	let mut out = Vec::new();
	peppi::io::slippi::write(&mut out, &game).unwrap();
	let declared = u32::from_be_bytes([out[11], out[12], out[13], out[14]]) as usize;
	// find actual raw length: position of metadata marker = 15 + raw
	let meta_pos = out.windows(10).position(|w| w == b"U\x08metadata").unwrap();
	println!("declared={} actual={}", declared, meta_pos - 15);
	let r = peppi::io::slippi::read(&mut Cursor::new(&out), None);
	println!("reread: {:?}", r.as_ref().map(|_| ()).map_err(|e| e.to_string()));
	assert_eq!(declared, meta_pos - 15);
}

#[test]
fn slpp_no_metadata_and_no_frames() {
	let buf = std::fs::read("tests/data/game.slp").unwrap();
	let mut game = peppi::io::slippi::read(&mut Cursor::new(&buf), None).unwrap();
	game.metadata = None;
	let mut out = Vec::new();
	peppi::io::peppi::write(&mut out, game, None).unwrap();
	let r = peppi::io::peppi::read(Cursor::new(&out), None);
	println!("no-metadata: {:?}", r.as_ref().map(|_| ()).map_err(|e| e.to_string()));
	let opts = peppi::io::slippi::de::Opts { skip_frames: true, ..Default::default() };
	let game = peppi::io::slippi::read(&mut Cursor::new(&buf), Some(&opts)).unwrap();
	let mut out = Vec::new();
	peppi::io::peppi::write(&mut out, game, None).unwrap();
	let r2 = peppi::io::peppi::read(Cursor::new(&out), None);
	println!("no-frames: {:?}", r2.as_ref().map(|_| ()).map_err(|e| e.to_string()));
	assert!(r.is_ok() && r2.is_ok());
}
