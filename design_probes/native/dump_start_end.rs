use std::io::Cursor;
#[test]
fn dump() {
	let mut names: Vec<_> = std::fs::read_dir("tests/data").unwrap().map(|e| e.unwrap().path()).collect();
	names.sort();
	for p in names {
		let buf = std::fs::read(&p).unwrap();
		if let Ok(g) = peppi::io::slippi::read(&mut Cursor::new(&buf), None) {
			let hex = |b: &[u8]| b.iter().map(|x| format!("{:02x}", x)).collect::<String>();
			println!("DUMP\t{}\t{}\t{}\t{}\t{}", p.file_name().unwrap().to_str().unwrap(),
				serde_json::to_string(&g.start).unwrap(), hex(&g.start.bytes.0),
				g.end.as_ref().map(|e| serde_json::to_string(e).unwrap()).unwrap_or("null".into()),
				g.end.as_ref().map(|e| hex(&e.bytes.0)).unwrap_or_default());
		}
	}
}
