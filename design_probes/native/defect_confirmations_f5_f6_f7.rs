use std::io::Cursor;
use std::panic::{catch_unwind, AssertUnwindSafe};
use peppi::io::slippi::de::Opts;

fn rd(buf: &[u8], skip: bool) -> String {
	let opts = Opts { skip_frames: skip, ..Default::default() };
	match catch_unwind(AssertUnwindSafe(|| peppi::io::slippi::read(&mut Cursor::new(buf), Some(&opts)))) {
		Ok(Ok(_)) => "Ok".into(),
		Ok(Err(e)) => format!("Err({})", e),
		Err(p) => format!("PANIC({})", p.downcast_ref::<String>().cloned().or_else(|| p.downcast_ref::<&str>().map(|s| s.to_string())).unwrap_or_default()),
	}
}

#[test]
fn f5_skip_underflow() {
	let mut buf = std::fs::read("tests/data/game.slp").unwrap();
	// declare a tiny raw_len (5) -> raw_len - bytes_read underflows in the skip block
	buf[11..15].copy_from_slice(&5u32.to_be_bytes());
	println!("F5 skip_frames raw_len=5: {}", rd(&buf, true));
}

#[test]
fn f6_event_consistency() {
	let buf = std::fs::read("tests/data/v3.12.slp").unwrap();
	// locate first FramePre (0x37) after start: payload table tells sizes; brute force: find the first
	// occurrence of 0x3A (FrameStart) event followed by frame id -123
	let pos = buf.windows(5).position(|w| w == [0x3A, 0xFF, 0xFF, 0xFF, 0x85]).unwrap();
	// F6a: corrupt frame id of the following pre-frame event
	let pre = pos + buf[pos..].windows(5).position(|w| w == [0x37, 0xFF, 0xFF, 0xFF, 0x85]).unwrap();
	let mut b = buf.clone(); b[pre + 4] = 0x86;
	println!("F6a wrong frame id in FramePre: {}", rd(&b, false));
	// F6b: port 9
	let mut b = buf.clone(); b[pre + 5] = 9;
	println!("F6b port=9 in FramePre: {}", rd(&b, false));
	// F6c: follower flag on non-ICs port
	let mut b = buf.clone(); b[pre + 6] = 1;
	println!("F6c follower on non-ICs: {}", rd(&b, false));
}

#[test]
fn f7_truncated_slpp() {
	let buf = std::fs::read("tests/data/game.slp").unwrap();
	let game = peppi::io::slippi::read(&mut Cursor::new(&buf), None).unwrap();
	let mut out = Vec::new();
	peppi::io::peppi::write(&mut out, game, None).unwrap();
	println!("slpp len {}", out.len());
	// cut well inside frames.arrow
	for cut in [out.len() - 3000, out.len() / 2] {
		let part = out[..cut].to_vec();
		let (tx, rx) = std::sync::mpsc::channel();
		std::thread::spawn(move || {
			let r = catch_unwind(AssertUnwindSafe(|| peppi::io::peppi::read(Cursor::new(&part), None)));
			let _ = tx.send(match r { Ok(Ok(_)) => "Ok".to_string(), Ok(Err(e)) => format!("Err({})", e), Err(_) => "PANIC".into() });
		});
		match rx.recv_timeout(std::time::Duration::from_secs(5)) {
			Ok(s) => println!("F7 cut at {}: {}", cut, s),
			Err(_) => println!("F7 cut at {}: STILL RUNNING after 5 s (sleep loop)", cut),
		}
	}
}
