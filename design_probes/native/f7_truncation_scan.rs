use std::io::Cursor;
use std::panic::{catch_unwind, AssertUnwindSafe};

#[test]
fn f7_scan() {
	let buf = std::fs::read("tests/data/game.slp").unwrap();
	let game = peppi::io::slippi::read(&mut Cursor::new(&buf), None).unwrap();
	let mut out = Vec::new();
	peppi::io::peppi::write(&mut out, game, None).unwrap();
	let magic = out.windows(8).position(|w| w == b"ARROW1\0\0").unwrap();
	println!("magic at {}", magic);
	let mut hangs = vec![];
	let mut oks = 0; let mut errs = 0; let mut panics = 0;
	let mut cut = magic + 5093;
	while cut < magic + 5094 {
		let part = out[..cut].to_vec();
		let (tx, rx) = std::sync::mpsc::channel();
		std::thread::spawn(move || {
			let r = catch_unwind(AssertUnwindSafe(|| peppi::io::peppi::read(Cursor::new(&part), None)));
			let _ = tx.send(match r { Ok(Ok(_)) => 0, Ok(Err(_)) => 1, Err(_) => 2 });
		});
		match rx.recv_timeout(std::time::Duration::from_millis(4500)) {
			Ok(0) => oks += 1, Ok(1) => errs += 1, Ok(_) => { panics += 1; println!("panic at cut {}", cut); }
			Err(_) => { hangs.push(cut); }
		}
		cut += 1;
	}
	println!("F7 scan: ok={} err={} panic={} hangs at {:?} (offsets rel. magic: {:?})", oks, errs, panics, hangs, hangs.iter().map(|h| h - magic).collect::<Vec<_>>());
}
