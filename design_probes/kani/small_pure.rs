extern crate alloc;
#[cfg(kani)]
mod proofs {
    use peppi::verif_hooks::*;
    use peppi::io::slippi::Version;
    use peppi::game::shift_jis::MeleeString;
    fn fmt_stub(_args: std::fmt::Arguments<'_>) -> String { String::new() }

    #[kani::proof]
    #[kani::stub(alloc::fmt::format, fmt_stub)]
    fn max_version() {
        let v = Version(kani::any(), kani::any(), kani::any());
        let res = assert_max_version(v);
        let le = (v.0 as u32) << 16 | (v.1 as u32) << 8 | (v.2 as u32) <= (3u32 << 16 | 15u32 << 8);
        assert!(res.is_ok() == le);
        std::mem::forget(res);
    }

    #[kani::proof]
    #[kani::unwind(6)]
    fn normalize_char() {
        let c: char = kani::any();
        let mut buf = [0u8; 4];
        let s = MeleeString(String::from(&*c.encode_utf8(&mut buf)));
        let n = s.to_normalized();
        let mut it = n.chars();
        let out = it.next().unwrap();
        assert!(it.next().is_none());
        let cu = c as u32;
        let exp = if cu >= 0xff01 && cu <= 0xff5e { cu - 0xff00 + 0x20 } else if cu == 0x3000 { 0x20 } else if cu == 0x2019 { 0x27 } else if cu == 0x201d { 0x22 } else { cu };
        assert!(out as u32 == exp);
    }

    #[kani::proof]
    #[kani::unwind(12)]
    fn version_display_parse() {
        let v = Version(kani::any(), kani::any(), kani::any());
        let s = v.to_string();
        let r: Result<Version, _> = s.parse();
        assert!(r.is_ok());
        assert!(r.unwrap() == v);
    }
}
