#[cfg(kani)]
mod proofs {
    use peppi::io::slippi::Version;
    use peppi::frame::mutable::Data;

    fn be32(b: &[u8], o: usize) -> u32 { u32::from_be_bytes([b[o], b[o+1], b[o+2], b[o+3]]) }
    fn be16(b: &[u8], o: usize) -> u16 { u16::from_be_bytes([b[o], b[o+1]]) }

    #[kani::proof]
    #[kani::unwind(9)]
    fn pre_layout() {
        let v = Version(kani::any(), kani::any(), 0);
        let buf: [u8; 64] = kani::any();
        let len: usize = 64;
        let mut d = Data::with_capacity(0, v);
        let mut r = &buf[..len];
        let res = d.pre.read_push(&mut r, v);
        // spec size
        let size = 52 + if v.gte(1,2) {1} else {0} + if v.gte(1,4) {4} else {0} + if v.gte(3,15) {1} else {0};
        if len >= size {
            assert!(res.is_ok());
            assert!(r.len() == len - size);
            assert!(d.pre.random_seed.values()[0] == be32(&buf, 0));
            assert!(d.pre.state.values()[0] == be16(&buf, 4));
            assert!(d.pre.position.x.values()[0].to_bits() == be32(&buf, 6));
            assert!(d.pre.position.y.values()[0].to_bits() == be32(&buf, 10));
            assert!(d.pre.direction.values()[0].to_bits() == be32(&buf, 14));
            assert!(d.pre.joystick.x.values()[0].to_bits() == be32(&buf, 18));
            assert!(d.pre.joystick.y.values()[0].to_bits() == be32(&buf, 22));
            assert!(d.pre.cstick.x.values()[0].to_bits() == be32(&buf, 26));
            assert!(d.pre.cstick.y.values()[0].to_bits() == be32(&buf, 30));
            assert!(d.pre.triggers.values()[0].to_bits() == be32(&buf, 34));
            assert!(d.pre.buttons.values()[0] == be32(&buf, 38));
            assert!(d.pre.buttons_physical.values()[0] == be16(&buf, 42));
            assert!(d.pre.triggers_physical.l.values()[0].to_bits() == be32(&buf, 44));
            assert!(d.pre.triggers_physical.r.values()[0].to_bits() == be32(&buf, 48));
            assert!(d.pre.raw_analog_x.is_some() == v.gte(1,2));
            if v.gte(1,2) { assert!(d.pre.raw_analog_x.as_ref().unwrap().values()[0] == buf[52] as i8); }
            assert!(d.pre.percent.is_some() == v.gte(1,4));
            if v.gte(1,4) { assert!(d.pre.percent.as_ref().unwrap().values()[0].to_bits() == be32(&buf, 53)); }
            assert!(d.pre.raw_analog_y.is_some() == v.gte(3,15));
            if v.gte(3,15) { assert!(d.pre.raw_analog_y.as_ref().unwrap().values()[0] == buf[57] as i8); }
        } else {
            assert!(res.is_err());
        }
        std::mem::forget(res);
        std::mem::forget(d);
    }
}
