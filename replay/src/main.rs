//! Native replayer: runs a recorded input against the REAL peppi code (path dependency on /repo,
//! built with --cfg hohav_peppi_verif) and reports whether the named clause holds on it.
//! Exit 0: clause holds on this input; exit 1: clause violated (prints what differed); exit 3: usage.
use std::process::exit;

fn c15(args: &[String]) -> i32 {
	// c15 <first|last> <id>...
	use arrow2::array::PrimitiveArray;
	use peppi::frame::{immutable::Frame, Rollbacks};
	let keep = if args[0] == "first" { Rollbacks::ExceptFirst } else { Rollbacks::ExceptLast };
	let ids: Vec<i32> = args[1..].iter().map(|s| s.parse().unwrap()).collect();
	let frame = Frame {
		id: PrimitiveArray::from_vec(ids.clone()),
		ports: vec![],
		start: None,
		end: None,
		item_offset: None,
		item: None,
	};
	let got = frame.rollbacks(keep);
	let n = ids.len();
	let want: Vec<bool> = (0..n)
		.map(|i| match keep {
			Rollbacks::ExceptFirst => (0..i).any(|j| ids[j] == ids[i]),
			Rollbacks::ExceptLast => (i + 1..n).any(|j| ids[j] == ids[i]),
		})
		.collect();
	if got == want {
		println!("c15 ok: mask {:?}", got);
		0
	} else {
		println!("c15 VIOLATED: ids {:?} got {:?} want {:?}", ids, got, want);
		1
	}
}

fn c15_search() -> i32 {
	// all id sequences of length <= 6 over {-123, -122, -121}, both modes: a search, not a proof
	for len in 0..=6usize {
		let total = 3usize.pow(len as u32);
		for code in 0..total {
			let mut c = code;
			let mut ids = vec![];
			for _ in 0..len {
				ids.push((-123 + (c % 3) as i32).to_string());
				c /= 3;
			}
			for mode in ["first", "last"] {
				let mut a = vec![mode.to_string()];
				a.extend(ids.iter().cloned());
				let r = std::panic::catch_unwind(|| c15(&a));
				match r {
					Ok(0) => {}
					_ => {
						println!("WITNESS c15 {}", a.join(" "));
						return 1;
					}
				}
			}
		}
	}
	0
}

fn main() {
	let args: Vec<String> = std::env::args().skip(1).collect();
	if args.is_empty() {
		eprintln!("usage: replay <clause> args...");
		exit(3);
	}
	let rc = match args[0].as_str() {
		"c15" => c15(&args[1..]),
		"c15-search" => c15_search(),
		_ => {
			eprintln!("unknown clause {}", args[0]);
			3
		}
	};
	exit(rc);
}
