//! Native replayer: runs a recorded input against the REAL peppi code (path dependency on /repo,
//! built with --cfg hohav_peppi_verif) and reports whether the named clause holds on it.
//! Exit 0: clause holds on this input; exit 1: clause violated (prints what differed); exit 3: usage.
use std::process::exit;

mod gen;
mod oracles;
mod tables_gen;
mod slpp;
mod slpp_oracles;
mod arrow_oracle;
mod c09;
mod cases;
mod sjis;
mod spec_tables;
mod c05_oracle;
mod c16_oracle;
mod c19_oracle;

fn c15(args: &[String]) -> i32 {
	// c15 <first|last> <id>...
	use arrow2::array::PrimitiveArray;
	use peppi::frame::{immutable::Frame, Rollbacks};
	let keep = if args[0].starts_with("first") { Rollbacks::ExceptFirst } else { Rollbacks::ExceptLast };
	let ids: Vec<i32> = args[1..].iter().map(|s| s.parse().unwrap()).collect();
	// "<mode>-open": the last frame row was opened but never closed (a 3.0+ game cut before its last Frame End), so the item
	// offsets delimit one frame fewer than there are rows; the mask is about the ROWS
	let item_offset = if args[0].ends_with("-open") && !ids.is_empty() {
		Some(arrow2::offset::OffsetsBuffer::<i32>::try_from(vec![0i32; ids.len()]).unwrap())
	} else {
		None
	};
	let frame = Frame {
		id: PrimitiveArray::from_vec(ids.clone()),
		ports: vec![],
		start: None,
		end: None,
		item_offset,
		item: None,
	};
	let got = frame.rollbacks(keep);
	let n = ids.len();
	let want: Vec<bool> = (0..n)
		.map(|i| match keep {
			Rollbacks::ExceptFirst => (0..i).any(|j| ids[j] == ids[i]),
			Rollbacks::ExceptLast => (i + 1..n).any(|j| ids[j] == ids[i]),
		})
		.collect();
	if got == want {
		println!("c15 ok: mask {:?}", got);
		0
	} else {
		println!("c15 VIOLATED: ids {:?} got {:?} want {:?}", ids, got, want);
		1
	}
}

fn c15_search() -> i32 {
	// all id sequences of length <= 6 over {-123, -122, -121}, both modes: a search, not a proof
	for len in 0..=6usize {
		let total = 3usize.pow(len as u32);
		for code in 0..total {
			let mut c = code;
			let mut ids = vec![];
			for _ in 0..len {
				ids.push((-123 + (c % 3) as i32).to_string());
				c /= 3;
			}
			for mode in ["first", "last", "first-open", "last-open"] {
				let mut a = vec![mode.to_string()];
				a.extend(ids.iter().cloned());
				let r = std::panic::catch_unwind(|| c15(&a));
				match r {
					Ok(0) => {}
					_ => {
						println!("WITNESS c15 {}", a.join(" "));
						return 1;
					}
				}
			}
		}
	}
	0
}

/// c17 <file.slp> <keep-end|drop-end> <keep-meta|drop-meta>: the written file declares the raw length it actually has,
/// can be read again, and re-writing the re-read game reproduces the written bytes.
fn c17(args: &[String]) -> i32 {
	use std::io::Cursor;
	let buf = std::fs::read(&args[0]).unwrap();
	let mut game = peppi::io::slippi::read(&mut Cursor::new(&buf), None).unwrap();
	if args[1] == "drop-end" {
		game.end = None;
	}
	if args[2] == "drop-meta" {
		game.metadata = None;
	}
	let mut out = Vec::new();
	peppi::io::slippi::write(&mut out, &game).unwrap();
	let declared = u32::from_be_bytes([out[11], out[12], out[13], out[14]]) as usize;
	// the raw element ends where the tail begins: `U\x08metadata{`...`}}` or the lone closing brace
	let marker = b"U\x08metadata{";
	let raw_end = match &game.metadata {
		Some(_) => out.windows(marker.len()).rposition(|w| w == marker).unwrap(),
		None => out.len() - 1,
	};
	let actual = raw_end - 15;
	if declared != actual {
		println!("c17 VIOLATED: declared raw length {} but the raw element has {} bytes ({} {} {})", declared, actual, args[0], args[1], args[2]);
		return 1;
	}
	let again = match peppi::io::slippi::read(&mut Cursor::new(&out), None) {
		Ok(g) => g,
		Err(e) => {
			println!("c17 VIOLATED: written file cannot be read again: {}", e);
			return 1;
		}
	};
	let mut out2 = Vec::new();
	peppi::io::slippi::write(&mut out2, &again).unwrap();
	if out2 != out {
		println!("c17 VIOLATED: re-writing the re-read game differs from the written file");
		return 1;
	}
	println!("c17 ok: declared == actual == {}", declared);
	0
}

/// c06 <file.slp> <mutation> [skip]: reading a corrupted file returns (Ok or Err) — it must not panic.
/// mutations: raw-len-5 | wrong-frame-id | port-9 | follower-flag | none
fn c06(args: &[String]) -> i32 {
	use std::io::Cursor;
	let mut buf = std::fs::read(&args[0]).unwrap();
	let skip = args.len() > 2 && args[2] == "skip";
	// locate the first Frame Pre event (0x37) after Game Start using the payload-size table
	let table_len = buf[16] as usize; // size byte of the Event Payloads event (includes itself)
	let mut sizes = [0usize; 256];
	let mut i = 17;
	while i + 2 < 16 + table_len + 1 {
		sizes[buf[i] as usize] = u16::from_be_bytes([buf[i + 1], buf[i + 2]]) as usize;
		i += 3;
	}
	let mut pos = 16 + table_len; // first event after the table
	let mut first_pre = None;
	for _ in 0..64 {
		let code = buf[pos] as usize;
		if code == 0x37 {
			first_pre = Some(pos);
			break;
		}
		pos += 1 + sizes[code];
	}
	match args[1].as_str() {
		"raw-len-5" => {
			buf[11..15].copy_from_slice(&5u32.to_be_bytes());
		}
		"wrong-frame-id" => {
			let p = first_pre.unwrap();
			buf[p + 1..p + 5].copy_from_slice(&1000i32.to_be_bytes());
		}
		"port-9" => {
			let p = first_pre.unwrap();
			buf[p + 5] = 9;
		}
		"follower-flag" => {
			let p = first_pre.unwrap();
			buf[p + 6] = 1;
		}
		_ => {}
	}
	let opts = peppi::io::slippi::de::Opts { skip_frames: skip, ..Default::default() };
	let r = std::panic::catch_unwind(|| peppi::io::slippi::read(&mut Cursor::new(&buf), Some(&opts)).map(|_| ()).map_err(|e| e.to_string()));
	match r {
		Ok(res) => {
			println!("c06 ok: reader returned {:?}", res);
			0
		}
		Err(_) => {
			println!("c06 VIOLATED: reader panicked ({} {})", args[0], args[1]);
			1
		}
	}
}

/// Half of each (version, ports, history) group, rotating through the gecko / end / metadata combinations from group
/// to group; then every `stride`-th of what is left.
fn thin(cases: &mut Vec<gen::Spec>, stride: usize) {
	let (mut group, mut inner, mut key) = (0usize, 0usize, None);
	cases.retain(|c| {
		let k = Some((c.ver, c.players, c.hist));
		if k != key {
			group += key.is_some() as usize;
			inner = 0;
			key = k;
		}
		inner += 1;
		(inner - 1) % 2 == group % 2
	});
	let mut n = 0;
	cases.retain(|_| {
		n += 1;
		(n - 1) % stride == 0
	});
}

fn is_case_id(s: &str) -> bool {
	s.starts_with('v') && s.contains("/p=")
}

/// Synthetic-replay oracles: `<name>-search` enumerates the candidate set, `<name> <case-id> [sub-case args]` replays one case.
fn synth(cmd: &str, args: &[String]) -> i32 {
	use oracles::{Outcome, Progress};
	let t0 = std::time::Instant::now();
	let (name, searching) = match cmd.strip_suffix("-search") {
		Some(n) => (n, true),
		None => (cmd, false),
	};
	// replay filters (sub-case arguments printed after the case-id in a WITNESS line)
	let a1 = args.get(1).cloned();
	let a2 = args.get(2).cloned();
	let c06 = |s: &gen::Spec, p: &Progress| -> Outcome {
		match (&a1, &a2) {
			(Some(m), Some(o)) if !searching => oracles::c06_case(s, p, Some((m.as_str(), o.as_str())), t0),
			_ => oracles::c06_case(s, p, None, t0),
		}
	};
	// the whole sub-case label of a WITNESS line, for the oracles whose labels have several words
	let only: Option<String> = if searching || args.len() < 2 { None } else { Some(args[1..].join(" ")) };
	let c02 = |s: &gen::Spec, p: &Progress| -> Outcome { slpp_oracles::c02(s, p, only.as_deref()) };
	let c18 = |s: &gen::Spec, p: &Progress| -> Outcome { slpp_oracles::c18(s, p, only.as_deref()) };
	let c07s = |s: &gen::Spec, p: &Progress| -> Outcome { slpp_oracles::c07s(s, p, only.as_deref()) };
	let c10s = |s: &gen::Spec, p: &Progress| -> Outcome { slpp_oracles::c10s(s, p, only.as_deref()) };
	let c09 = |s: &gen::Spec, p: &Progress| -> Outcome { c09::c09(s, p, only.as_deref()) };
	let c07 = |s: &gen::Spec, p: &Progress| -> Outcome { oracles::c07(s, p, if searching { None } else { a1.as_deref() }) };
	let check: oracles::Check = match name {
		"c03" => &oracles::c03,
		"c04" => &oracles::c04,
		"c13" => &oracles::c13,
		"c01" => &oracles::c01,
		"c17" => &oracles::c17_case,
		"c12" => &oracles::c12,
		"c07" => &c07,
		"c06" => &c06,
		"c08" => &oracles::c08,
		"c11" => &oracles::c11,
		"c02" => &c02,
		"c18" => &c18,
		"c07s" => &c07s,
		"c10s" => &c10s,
		"c14" => &arrow_oracle::c14,
		"c09" => &c09,
		_ => {
			eprintln!("unknown clause {}", cmd);
			return 3;
		}
	};
	let hang: Option<&(dyn Fn(&gen::Spec, usize) -> String + Sync)> = match name {
		"c06" => Some(&oracles::c06_label),
		"c07" => Some(&oracles::c07_label),
		"c02" => Some(&slpp_oracles::c02_label),
		"c18" => Some(&slpp_oracles::c18_label),
		"c07s" => Some(&slpp_oracles::c07s_label),
		"c10s" => Some(&slpp_oracles::c10s_label),
		_ => None,
	};
	if searching {
		let mut cases = gen::candidates();
		match name {
			// every prefix of every file is too much for one run
			"c07" => thin(&mut cases, 1),
			// ... and three archives per file with thousands of prefixes each even more so: 1/22 of the candidates, about
			// 2 minutes on 16 cores (stride 7: 589 cases, 3.4 minutes).  The stride is coprime to the group sizes, so the
			// gecko / end / metadata combinations keep rotating.
			"c07s" => thin(&mut cases, 11),
			// a 16-bit boundary in the number of frame rows can only show on long games: a few 70000-frame replays
			"c01" | "c02" | "c14" | "c17" | "c13" => cases.extend(gen::long_candidates()),
			// only the newest layout can be relabelled around the version ceiling
			"c09" => cases.retain(|c| c.ver == (3, 16, 0) && c.gecko.is_none()),
			_ => {}
		}
		let rc = oracles::search(name, &cases, check, hang, t0);
		if rc == 0 && name == "c06" {
			// stack depth: a stack overflow aborts the whole process, so the probe runs in a child process
			return c06_deep_probe(&cases[0]);
		}
		rc
	} else {
		let Some(id) = args.first() else {
			eprintln!("usage: replay {} <case-id>", name);
			return 3;
		};
		match gen::Spec::parse(id) {
			Ok(spec) => oracles::replay(name, &spec, check, hang, t0),
			Err(e) => {
				eprintln!("{}", e);
				3
			}
		}
	}
}

/// C20 (string half), exhaustive: for all 2^24 triples of both Version types, parsing the displayed text gives the version
/// back, the text is "<major>.<minor>.<patch>" in decimal, and a handful of malformed neighbours of it are rejected.
fn c20_strings() -> i32 {
	use std::str::FromStr;
	let bad = std::sync::atomic::AtomicBool::new(false);
	let first: std::sync::Mutex<Option<String>> = std::sync::Mutex::new(None);
	std::thread::scope(|sc| {
		for t in 0..16u32 {
			let (bad, first) = (&bad, &first);
			sc.spawn(move || {
				for a in (t * 16)..(t * 16 + 16) {
					for b in 0..=255u32 {
						for c in 0..=255u32 {
							let (a, b, c) = (a as u8, b as u8, c as u8);
							let want = format!("{}.{}.{}", a, b, c);
							let s1 = peppi::io::slippi::Version(a, b, c).to_string();
							let s2 = peppi::io::peppi::Version(a, b, c).to_string();
							let ok = s1 == want && s2 == want
								&& matches!(peppi::io::slippi::Version::from_str(&s1), Ok(v) if v == peppi::io::slippi::Version(a, b, c))
								&& matches!(peppi::io::peppi::Version::from_str(&s2), Ok(v) if v == peppi::io::peppi::Version(a, b, c));
							let rejected = c != 0
								|| [format!("{}.{}", a, b), format!("{}.{}.{}.0", a, b, c), format!("{}.{}.", a, b), format!("{}..{}", a, b), format!("{}.{}.256", a, b), format!("{}.{}.-1", a, b), format!("{}.{}.{} ", a, b, c)]
									.iter()
									.all(|m| peppi::io::slippi::Version::from_str(m).is_err() && peppi::io::peppi::Version::from_str(m).is_err());
							if !(ok && rejected) && !bad.swap(true, std::sync::atomic::Ordering::SeqCst) {
								*first.lock().unwrap() = Some(format!("{} {} {}", a, b, c));
							}
						}
					}
				}
			});
		}
	});
	match first.into_inner().unwrap() {
		Some(w) => {
			println!("WITNESS c20-strings {}", w);
			println!("c20-strings VIOLATED: display/parse of version {} does not round-trip (or a malformed neighbour is accepted)", w);
			1
		}
		None => {
			println!("c20-strings ok: all 16777216 version triples x 2 types display as major.minor.patch and parse back; malformed neighbours rejected");
			0
		}
	}
}

/// Oracles with case-ids of their own (not gen::Spec): `<name>-search`, `<name> <case-id> [sub-case]`.
fn by_id(cmd: &str, args: &[String]) -> i32 {
	let t0 = std::time::Instant::now();
	let (name, searching) = match cmd.strip_suffix("-search") {
		Some(n) => (n, true),
		None => (cmd, false),
	};
	if !searching && args.is_empty() {
		eprintln!("usage: replay {} <case-id>", name);
		return 3;
	}
	let fail = |e: String| -> i32 {
		eprintln!("{}: {}", name, e);
		3
	};
	match name {
		"c05" => {
			let lay = match c05_oracle::selfcheck() {
				Ok(l) => l,
				Err(e) => return fail(e),
			};
			if searching {
				let cases = c05_oracle::candidates(lay);
				cases::search_ids(name, &cases, &c05_oracle::check, &|| "Game Start length classes x port type patterns x teams x fillings, every legal Game End block".to_string(), t0)
			} else {
				cases::replay_id(name, &args[0], &c05_oracle::check)
			}
		}
		"c16" => {
			if let Err(e) = c16_oracle::selfcheck() {
				return fail(e);
			}
			if searching {
				let cases = c16_oracle::candidates();
				cases::search_ids(name, &cases, &c16_oracle::check, &|| format!("metadata trees spliced into a synthetic replay ({}): .slp read, .slp write, .slpp metadata.json, .slpp read", c16_oracle::stats(&cases)), t0)
			} else {
				cases::replay_id(name, &args[0], &c16_oracle::check)
			}
		}
		"c19" => {
			let lay = match c19_oracle::selfcheck() {
				Ok(l) => l,
				Err(e) => return fail(e),
			};
			if searching {
				let cases = c19_oracle::candidates(lay);
				cases::search_ids(name, &cases, &|id| c19_oracle::check(id, None), &c19_oracle::stats, t0)
			} else {
				// the sub-case label of a WITNESS line, if any
				let only = args.get(1).cloned();
				cases::replay_id(name, &args[0], &|id| c19_oracle::check(id, only.as_deref()))
			}
		}
		_ => 3,
	}
}

/// A replay whose metadata element nests `DEEP` maps, read under every option combination (run in a child process).
const DEEP: usize = 200_000;
fn c06_deep(spec: &gen::Spec) -> i32 {
	let (bytes, exp) = gen::build(spec);
	let mut file = bytes[..exp.tail_off].to_vec();
	file.extend_from_slice(b"U\x08metadata{");
	for _ in 0..DEEP {
		file.extend_from_slice(b"U\x01a{");
	}
	file.extend(std::iter::repeat(b'}').take(DEEP + 2));
	for (skip, hash) in [(false, false), (true, false), (false, true), (true, true)] {
		let o = peppi::io::slippi::de::Opts { skip_frames: skip, compute_hash: hash, ..Default::default() };
		let r = std::panic::catch_unwind(|| peppi::io::slippi::read(std::io::Cursor::new(&file), Some(&o)).map(|_| ()).map_err(|e| e.to_string()));
		if r.is_err() {
			println!("c06-deep: the reader panicked");
			return 1;
		}
	}
	println!("c06-deep ok: {} nested metadata maps are answered with a value or an error", DEEP);
	0
}

fn c06_deep_probe(spec: &gen::Spec) -> i32 {
	let exe = std::env::current_exe().expect("own path");
	let out = std::process::Command::new(exe).arg("c06-deep").arg(spec.case_id()).output();
	match out {
		Ok(o) if o.status.success() => 0,
		Ok(o) => {
			println!("WITNESS c06-deep {}", spec.case_id());
			println!("c06 VIOLATED: reading a replay whose metadata nests {} maps ended the process abnormally ({}): {}", DEEP, o.status, String::from_utf8_lossy(&o.stderr).lines().last().unwrap_or(""));
			1
		}
		Err(e) => {
			println!("NOTE c06-deep probe could not be started: {}", e);
			0
		}
	}
}

fn main() {
	let args: Vec<String> = std::env::args().skip(1).collect();
	if args.is_empty() {
		eprintln!("usage: replay <clause> args...");
		exit(3);
	}
	let rc = match args[0].as_str() {
		"c15" => c15(&args[1..]),
		"slpp" => slpp::run(&args[1..]),
		"c20-strings" => c20_strings(),
		"c15-search" => c15_search(),
		"c17" if !args.get(1).map_or(false, |a| is_case_id(a)) => c17(&args[1..]),
		"c06" if !args.get(1).map_or(false, |a| is_case_id(a)) => c06(&args[1..]),
		"c07s-scan" => match args.get(1).map(|a| gen::Spec::parse(a)) {
			// c07s-scan <case-id> <none|lz4|zstd>: every prefix of the archive, classified (diagnostic)
			Some(Ok(spec)) => slpp_oracles::c07s_scan(&spec, args.get(2).map_or("none", |s| s.as_str())),
			_ => 3,
		},
		"c06-deep" => match args.get(1).map(|a| gen::Spec::parse(a)) {
			Some(Ok(spec)) => c06_deep(&spec),
			_ => 3,
		},
		"cases" => {
			// list the candidate set (case-ids), for inspection
			for c in gen::candidates() {
				println!("{}", c.case_id());
			}
			0
		}
		"dump" => match args.get(1).map(|a| gen::Spec::parse(a)) {
			// dump <case-id> <out.slp>: write the generated file
			Some(Ok(spec)) => {
				std::fs::write(&args[2], gen::build(&spec).0).unwrap();
				0
			}
			_ => 3,
		},
		"c05-search" | "c05" | "c16-search" | "c16" | "c19-search" | "c19" => by_id(&args[0], &args[1..]),
		other => synth(other, &args[1..]),
	};
	exit(rc);
}
