//! c14: the Arrow struct array of a game's frames has the schema the field tables prescribe, holds the in-memory
//! columns unchanged, and imports back to frames that serialise to the original file.
//! The expected schema is built from tables_gen.rs (generated from spec/frame_layout.json), never from peppi.
use crate::gen::{self, build, Expected, Spec};
use crate::oracles::{first_diff, guard, parse_valid, viol, write_game, Outcome, Progress};
use crate::slpp_oracles::{is_f4, known};
use crate::tables_gen::{self as tb, Event, Ty, END, ITEM, POST, PRE, START};
use arrow2::array::{Array, ListArray, PrimitiveArray, StructArray};
use arrow2::datatypes::{DataType, Field};
use peppi::frame::immutable as im;
use peppi::game::immutable::Game;
use Outcome::*;

// ---------------------------------------------------------------------------------------------- expected schema

enum Node {
	Leaf(Ty),
	Struct(Vec<(String, Node)>),
}

/// Dotted paths become nested structs, in order of first appearance.
fn insert(children: &mut Vec<(String, Node)>, path: &[&str], ty: Ty) {
	if path.len() == 1 {
		children.push((path[0].to_string(), Node::Leaf(ty)));
		return;
	}
	let idx = match children.iter().position(|(n, _)| n == path[0]) {
		Some(i) => i,
		None => {
			children.push((path[0].to_string(), Node::Struct(vec![])));
			children.len() - 1
		}
	};
	if let Node::Struct(c) = &mut children[idx].1 {
		insert(c, &path[1..], ty);
	}
}

fn prim(ty: Ty) -> DataType {
	match ty {
		Ty::U8 => DataType::UInt8,
		Ty::I8 => DataType::Int8,
		Ty::U16 => DataType::UInt16,
		Ty::I16 => DataType::Int16,
		Ty::U32 => DataType::UInt32,
		Ty::I32 => DataType::Int32,
		Ty::F32 => DataType::Float32,
	}
}

fn to_type(children: &[(String, Node)]) -> DataType {
	DataType::Struct(
		children
			.iter()
			.map(|(n, c)| {
				let t = match c {
					Node::Leaf(t) => prim(*t),
					Node::Struct(c) => to_type(c),
				};
				Field::new(n.as_str(), t, false)
			})
			.collect(),
	)
}

fn event_type(ev: &Event, v: (u8, u8)) -> DataType {
	let mut root = vec![];
	for f in ev.fields.iter().filter(|f| f.present(v)) {
		insert(&mut root, &f.path.split('.').collect::<Vec<_>>(), f.ty);
	}
	to_type(&root)
}

fn port_name(p: u8) -> String {
	format!("P{}", p + 1)
}

pub fn expected_type(exp: &Expected) -> DataType {
	let v = (exp.ver.0, exp.ver.1);
	let data = DataType::Struct(vec![Field::new("pre", event_type(&PRE, v), false), Field::new("post", event_type(&POST, v), false)]);
	let mut ports = vec![];
	for (p, c) in exp.players.iter().enumerate() {
		let Some(c) = c else { continue };
		let mut who = vec![Field::new("leader", data.clone(), false)];
		if *c == gen::ICS {
			who.push(Field::new("follower", data.clone(), false));
		}
		ports.push(Field::new(port_name(p as u8), DataType::Struct(who), false));
	}
	let mut top = vec![Field::new("id", DataType::Int32, false), Field::new("ports", DataType::Struct(ports), false)];
	if START.exists(v) {
		top.push(Field::new("start", event_type(&START, v), false));
	}
	if END.exists(v) {
		top.push(Field::new("end", event_type(&END, v), false));
	}
	if ITEM.exists(v) {
		top.push(Field::new("item", DataType::List(Box::new(Field::new("item", event_type(&ITEM, v), false))), false));
	}
	DataType::Struct(top)
}

/// The first path at which the two types differ in field names, order, nesting or primitive type.
fn diff(path: &str, want: &DataType, got: &DataType) -> Result<(), String> {
	match (want, got) {
		(DataType::Struct(w), DataType::Struct(g)) => {
			for i in 0..w.len().max(g.len()) {
				match (w.get(i), g.get(i)) {
					(Some(a), Some(b)) if a.name == b.name => diff(&format!("{}.{}", path, a.name), &a.data_type, &b.data_type)?,
					(a, b) => return Err(format!("{}: field #{} is {:?} but the field tables give {:?} (None = no such field)", path, i, b.map(|f| &f.name), a.map(|f| &f.name))),
				}
			}
			Ok(())
		}
		(DataType::List(w), DataType::List(g)) => diff(&format!("{}[]", path), &w.data_type, &g.data_type),
		(DataType::Struct(_), _) | (_, DataType::Struct(_)) | (DataType::List(_), _) | (_, DataType::List(_)) => Err(format!("{}: nesting differs: {:?} but the field tables give {:?}", path, got, want)),
		(w, g) if w == g => Ok(()),
		(w, g) => Err(format!("{}: type {:?} but the field tables give {:?}", path, g, w)),
	}
}

// ---------------------------------------------------------------------------------------------- columns

/// Per field of an event table: the in-memory column as bit patterns; None = no such column.
type Cols = Vec<Option<Vec<u64>>>;

fn snap(ev: &Event, len: impl Fn(usize) -> Option<usize>, col: impl Fn(usize, usize) -> Option<u64>) -> Cols {
	(0..ev.fields.len()).map(|k| len(k).map(|n| (0..n).map(|i| col(k, i).unwrap()).collect())).collect()
}

struct Snap {
	ids: Vec<i32>,
	/// aligned with Expected::chars
	chars: Vec<(Cols, Cols)>,
	start: Option<Cols>,
	end: Option<Cols>,
	item: Option<Cols>,
	offsets: Option<Vec<i32>>,
}

fn snapshot(fr: &im::Frame, exp: &Expected) -> Result<Snap, String> {
	let mut chars = vec![];
	for c in &exp.chars {
		let pd = fr.ports.iter().find(|p| p.port as u8 == c.0).ok_or(format!("no in-memory data for port {}", c.0))?;
		let d = if c.1 { pd.follower.as_ref().ok_or(format!("no in-memory follower data for port {}", c.0))? } else { &pd.leader };
		chars.push((snap(&PRE, |k| tb::pre_col_len(&d.pre, k), |k, i| tb::pre_col(&d.pre, k, i)), snap(&POST, |k| tb::post_col_len(&d.post, k), |k, i| tb::post_col(&d.post, k, i))));
	}
	Ok(Snap {
		ids: fr.id.values().to_vec(),
		chars,
		start: fr.start.as_ref().map(|s| snap(&START, |k| tb::start_col_len(s, k), |k, i| tb::start_col(s, k, i))),
		end: fr.end.as_ref().map(|e| snap(&END, |k| tb::end_col_len(e, k), |k, i| tb::end_col(e, k, i))),
		item: fr.item.as_ref().map(|t| snap(&ITEM, |k| tb::item_col_len(t, k), |k, i| tb::item_col(t, k, i))),
		offsets: fr.item_offset.as_ref().map(|o| o.as_slice().to_vec()),
	})
}

fn child<'a>(s: &'a StructArray, name: &str, what: &str) -> Result<&'a dyn Array, String> {
	let i = s.fields().iter().position(|f| f.name == name).ok_or(format!("{}: no field {:?}", what, name))?;
	Ok(s.values()[i].as_ref())
}

fn as_struct<'a>(a: &'a dyn Array, what: &str) -> Result<&'a StructArray, String> {
	a.as_any().downcast_ref::<StructArray>().ok_or(format!("{}: not a struct array", what))
}

fn sub<'a>(s: &'a StructArray, name: &str, what: &str) -> Result<&'a StructArray, String> {
	as_struct(child(s, name, what)?, &format!("{}.{}", what, name))
}

fn leaf(a: &dyn Array, ty: Ty, what: &str) -> Result<Vec<u64>, String> {
	fn get<T: arrow2::types::NativeType>(a: &dyn Array, what: &str, f: impl Fn(T) -> u64) -> Result<Vec<u64>, String> {
		let p = a.as_any().downcast_ref::<PrimitiveArray<T>>().ok_or(format!("{}: not a primitive array of the table's type", what))?;
		Ok(p.values().iter().map(|x| f(*x)).collect())
	}
	match ty {
		Ty::U8 => get::<u8>(a, what, |x| x as u64),
		Ty::I8 => get::<i8>(a, what, |x| x as u8 as u64),
		Ty::U16 => get::<u16>(a, what, |x| x as u64),
		Ty::I16 => get::<i16>(a, what, |x| x as u16 as u64),
		Ty::U32 => get::<u32>(a, what, |x| x as u64),
		Ty::I32 => get::<i32>(a, what, |x| x as u32 as u64),
		Ty::F32 => get::<f32>(a, what, |x| x.to_bits() as u64),
	}
}

/// Every leaf of the event's struct array holds the values of the in-memory column of the same field.
fn check_event(what: &str, ev: &Event, v: (u8, u8), s: &StructArray, cols: &Cols, rows: usize) -> Result<(), String> {
	if s.len() != rows {
		return Err(format!("{}: struct array has {} rows, expected {}", what, s.len(), rows));
	}
	for (k, f) in ev.fields.iter().enumerate() {
		let w = format!("{}.{}", what, f.path);
		if !f.present(v) {
			if cols[k].is_some() {
				return Err(format!("{}: in-memory column exists but the field does not at this version", w));
			}
			continue;
		}
		let parts: Vec<&str> = f.path.split('.').collect();
		let mut cur = s;
		for part in &parts[..parts.len() - 1] {
			cur = sub(cur, part, what)?;
		}
		let got = leaf(child(cur, parts[parts.len() - 1], &w)?, f.ty, &w)?;
		let Some(want) = &cols[k] else { return Err(format!("{}: no in-memory column", w)) };
		if &got != want {
			let i = got.iter().zip(want).position(|(a, b)| a != b).unwrap_or(got.len().min(want.len()));
			return Err(format!("{}: {} values in the struct array, {} in memory; first difference at row {} ({:x?} vs {:x?})", w, got.len(), want.len(), i, got.get(i), want.get(i)));
		}
		if got.len() != rows {
			return Err(format!("{}: {} values for {} rows", w, got.len(), rows));
		}
	}
	Ok(())
}

fn check_array(arr: &StructArray, exp: &Expected, snap: &Snap) -> Result<(), String> {
	let v = (exp.ver.0, exp.ver.1);
	diff("frame", &expected_type(exp), arr.data_type())?;
	let rows = exp.rows.len();
	if arr.len() != rows {
		return Err(format!("the struct array has {} rows for {} frames", arr.len(), rows));
	}
	let ids = child(arr, "id", "frame")?.as_any().downcast_ref::<PrimitiveArray<i32>>().ok_or("frame.id: not an Int32 array")?;
	if ids.values().as_slice() != &snap.ids[..] || ids.validity().is_some() {
		return Err(format!("frame.id holds {:?} but the in-memory ids are {:?}", ids.values().as_slice(), snap.ids));
	}
	let ports = sub(arr, "ports", "frame")?;
	for (k, c) in exp.chars.iter().enumerate() {
		let who = format!("frame.ports.{}.{}", port_name(c.0), if c.1 { "follower" } else { "leader" });
		let port = sub(ports, &port_name(c.0), "frame.ports")?;
		let data = sub(port, if c.1 { "follower" } else { "leader" }, &format!("frame.ports.{}", port_name(c.0)))?;
		if data.len() != rows {
			return Err(format!("{}: {} rows for {} frames", who, data.len(), rows));
		}
		// the enclosing structs carry no validity of their own: a null there would hide the characters below it
		if let Some(b) = port.validity().filter(|b| b.unset_bits() > 0) {
			return Err(format!("frame.ports.{} marks {} rows null at the PORT level: a character present in such a row reads as absent", port_name(c.0), b.unset_bits()));
		}
		if let Some(b) = ports.validity().filter(|b| b.unset_bits() > 0) {
			return Err(format!("frame.ports marks {} rows null", b.unset_bits()));
		}
		for r in 0..rows {
			let got = data.validity().map_or(true, |b| b.get_bit(r));
			let want = exp.rows[r].chars[k].is_some();
			if got != want {
				return Err(format!("{} row {}: marked {} but the character {} events in that frame", who, r, if got { "valid" } else { "null" }, if want { "had" } else { "had no" }));
			}
		}
		check_event(&format!("{}.pre", who), &PRE, v, sub(data, "pre", &who)?, &snap.chars[k].0, rows)?;
		check_event(&format!("{}.post", who), &POST, v, sub(data, "post", &who)?, &snap.chars[k].1, rows)?;
	}
	if START.exists(v) {
		check_event("frame.start", &START, v, sub(arr, "start", "frame")?, snap.start.as_ref().ok_or("no in-memory start columns")?, rows)?;
	}
	if END.exists(v) {
		check_event("frame.end", &END, v, sub(arr, "end", "frame")?, snap.end.as_ref().ok_or("no in-memory end columns")?, rows)?;
	}
	if ITEM.exists(v) {
		let list = child(arr, "item", "frame")?.as_any().downcast_ref::<ListArray<i32>>().ok_or("frame.item: not a list array")?;
		let want = snap.offsets.as_ref().ok_or("no in-memory item offsets")?;
		if list.offsets().as_slice() != &want[..] {
			return Err(format!("frame.item offsets {:?} but the in-memory item_offset is {:?}", list.offsets().as_slice(), want));
		}
		if list.len() != rows {
			return Err(format!("frame.item has {} lists for {} frames", list.len(), rows));
		}
		let total = *want.last().unwrap_or(&0) as usize;
		check_event("frame.item[]", &ITEM, v, as_struct(list.values().as_ref(), "frame.item[]")?, snap.item.as_ref().ok_or("no in-memory item columns")?, total)?;
	}
	Ok(())
}

pub fn c14(spec: &Spec, _p: &Progress) -> Outcome {
	let (bytes, exp) = build(spec);
	let game = match parse_valid(&bytes) {
		Ok(g) => g,
		Err(o) => return o,
	};
	match write_game(&game) {
		Ok(Ok(r)) if r == bytes => {}
		_ => return Holds, // C01's business
	}
	let Game { start, end, frames, metadata, gecko_codes, hash, quirks } = game;
	let version = start.slippi.version;
	let ports = match guard(|| peppi::game::port_occupancy(&start)) {
		Ok(p) => p,
		Err(pn) => return viol(format!("port_occupancy panicked: {}", pn)),
	};
	let snap = match guard(|| snapshot(&frames, &exp)) {
		Ok(Ok(s)) => s,
		Ok(Err(e)) => return viol(e),
		Err(pn) => return viol(format!("reading the in-memory columns panicked: {}", pn)),
	};
	let arr = match guard(move || frames.into_struct_array(version, &ports)) {
		Ok(a) => a,
		Err(pn) if is_f4(spec.v2(), &pn) && known("F4") => return Holds,
		Err(pn) => return viol(format!("into_struct_array panicked: {}", pn)),
	};
	match guard(|| check_array(&arr, &exp, &snap)) {
		Ok(Ok(())) => {}
		Ok(Err(e)) => return viol(e),
		Err(pn) => return viol(format!("walking the struct array panicked: {}", pn)),
	}
	let frames = match guard(move || im::Frame::from_struct_array(arr, version)) {
		Ok(f) => f,
		Err(pn) => return viol(format!("from_struct_array panicked on the array into_struct_array produced: {}", pn)),
	};
	let game = Game { start, end, frames, metadata, gecko_codes, hash, quirks };
	match write_game(&game) {
		Ok(Ok(out)) if out == bytes => Holds,
		Ok(Ok(out)) => viol(format!("frames -> struct array -> frames no longer serialise to the original file: {}", first_diff(&out, &bytes))),
		Ok(Err(e)) => viol(format!("frames -> struct array -> frames cannot be written: {}", e)),
		Err(pn) => viol(format!("writing frames -> struct array -> frames panicked: {}", pn)),
	}
}
