//! The Game Start / Game End layouts of spec/game_start_layout.json and spec/game_end_layout.json, read at run time
//! (directory: $PEPPI_SPEC, default /verif/spec).  Anything in the tables that this reader does not understand is a
//! hard error, so the tables and the oracles cannot drift apart silently.
use crate::sjis;
use serde_json::{Map, Value};
use std::sync::OnceLock;

#[derive(Clone, Debug, PartialEq)]
pub enum Ty {
	U8,
	I8,
	U16,
	U32,
	F32,
	Bytes(usize),
	BoolNonzero,
	/// width in bytes, (value, variant name)
	Enum(usize, Vec<(u64, String)>),
	CstrUtf8(usize),
	SjisCstr(usize),
	/// the byte that means nobody, first and last port number
	PortOrNone(u8, u8, u8),
	/// one i8 per port: -1 absent, 0..=3 placement
	Placements,
}

impl Ty {
	pub fn width(&self) -> usize {
		match self {
			Ty::U8 | Ty::I8 | Ty::BoolNonzero | Ty::PortOrNone(..) => 1,
			Ty::U16 => 2,
			Ty::U32 | Ty::F32 => 4,
			Ty::Bytes(n) | Ty::CstrUtf8(n) | Ty::SjisCstr(n) | Ty::Enum(n, _) => *n,
			Ty::Placements => 4,
		}
	}
}

#[derive(Clone, Copy, Debug, PartialEq)]
pub enum Cond {
	Always,
	IsTeams,
	TypeIsCpu,
}

#[derive(Clone, Debug)]
pub struct Field {
	pub path: String,
	pub ty: Ty,
	/// offset into the block (top-level fields) or into the player slot (player fields)
	pub offset: usize,
	/// 0: always present
	pub min_len: usize,
	pub cond: Cond,
}

#[derive(Clone, Debug)]
pub struct Tail {
	pub path: String,
	pub ty: Ty,
	pub base: usize,
	pub stride: usize,
	pub rel: usize,
	pub min_len: usize,
}

impl Tail {
	pub fn offset(&self, port: usize) -> usize {
		self.base + self.stride * port + self.rel
	}
}

#[derive(Debug)]
pub struct StartLayout {
	/// ((major, minor), block length), ascending
	pub classes: Vec<((u8, u8), usize)>,
	pub fields: Vec<Field>,
	pub base: usize,
	pub stride: usize,
	pub slots: usize,
	pub ports: usize,
	pub player_fields: Vec<Field>,
	pub tails: Vec<Tail>,
}

#[derive(Debug)]
pub struct EndLayout {
	pub classes: Vec<((u8, u8), usize)>,
	pub fields: Vec<Field>,
}

#[derive(Debug)]
pub struct Layouts {
	pub start: StartLayout,
	pub end: EndLayout,
}

impl StartLayout {
	pub fn field(&self, path: &str) -> &Field {
		self.fields.iter().find(|f| f.path == path).unwrap_or_else(|| panic!("(oracle) the Game Start table has no field {}", path))
	}
	pub fn player_field(&self, path: &str) -> &Field {
		self.player_fields.iter().find(|f| f.path == path).unwrap_or_else(|| panic!("(oracle) the Game Start table has no player field {}", path))
	}
	pub fn tail(&self, path: &str) -> &Tail {
		self.tails.iter().find(|f| f.path == path).unwrap_or_else(|| panic!("(oracle) the Game Start table has no per-port field {}", path))
	}
	pub fn slot(&self, port: usize) -> usize {
		self.base + self.stride * port
	}
	pub fn class_version(&self, len: usize) -> Option<(u8, u8)> {
		self.classes.iter().find(|c| c.1 == len).map(|c| c.0)
	}
}

// ---------------------------------------------------------------------------------------------- values

#[derive(Clone, Debug, PartialEq)]
pub enum Val {
	U(u64),
	I(i64),
	/// bit pattern of an f32
	F(u32),
	B(bool),
	Bytes(Vec<u8>),
	Str(String),
	/// enum variant by name; "None" for the zero value of an optional enum
	Name(String),
	Port(Option<u8>),
	/// (port, placement) of the ports that have one
	Places(Vec<(u8, u8)>),
	Absent,
	/// the block holds something the spec gives no meaning to
	Invalid(String),
}

fn be(raw: &[u8]) -> u64 {
	raw.iter().fold(0u64, |a, b| (a << 8) | *b as u64)
}

/// The value of a field of type `ty` at `off` of `raw`, by the spec alone.
pub fn decode(ty: &Ty, raw: &[u8], off: usize) -> Val {
	let b = &raw[off..off + ty.width()];
	match ty {
		Ty::U8 | Ty::U16 | Ty::U32 => Val::U(be(b)),
		Ty::I8 => Val::I(b[0] as i8 as i64),
		Ty::F32 => Val::F(be(b) as u32),
		Ty::Bytes(_) => Val::Bytes(b.to_vec()),
		Ty::BoolNonzero => Val::B(b[0] != 0),
		Ty::Enum(_, names) => match names.iter().find(|(v, _)| *v == be(b)) {
			Some((_, n)) => Val::Name(n.clone()),
			None => Val::Invalid(format!("enum value {}", be(b))),
		},
		Ty::CstrUtf8(_) => match std::str::from_utf8(sjis::until_nul(b)) {
			Ok(s) => Val::Str(s.to_string()),
			Err(_) => Val::Invalid(format!("not UTF-8: {:02x?}", b)),
		},
		Ty::SjisCstr(_) => match sjis::decode(sjis::until_nul(b)) {
			Some(s) => Val::Str(s),
			None => Val::Invalid(format!("not Shift-JIS: {:02x?}", b)),
		},
		Ty::PortOrNone(none, lo, hi) => match b[0] {
			x if x == *none => Val::Port(None),
			x if *lo <= x && x <= *hi => Val::Port(Some(x)),
			x => Val::Invalid(format!("port {}", x)),
		},
		Ty::Placements => {
			let mut out = vec![];
			for (port, x) in b.iter().enumerate() {
				match *x as i8 {
					-1 => {}
					p @ 0..=3 => out.push((port as u8, p as u8)),
					p => return Val::Invalid(format!("placement {}", p)),
				}
			}
			Val::Places(out)
		}
	}
}

// ---------------------------------------------------------------------------------------------- loading

fn parse_enum(body: &str) -> Result<Vec<(u64, String)>, String> {
	body.split(',')
		.map(|e| {
			let (k, n) = e.split_once(':').ok_or(format!("enum entry {:?}", e))?;
			Ok((k.trim().parse::<u64>().map_err(|_| format!("enum key {:?}", k))?, n.trim().to_string()))
		})
		.collect()
}

fn parse_ty(s: &str) -> Result<Ty, String> {
	let num = |t: &str| t.parse::<usize>().map_err(|_| format!("type {:?}", s));
	Ok(match s {
		"u8" => Ty::U8,
		"i8" => Ty::I8,
		"u16" => Ty::U16,
		"u32" => Ty::U32,
		"f32" => Ty::F32,
		"bool_nonzero" => Ty::BoolNonzero,
		_ => {
			if let Some(n) = s.strip_prefix("bytes") {
				Ty::Bytes(num(n)?)
			} else if let Some(b) = s.strip_prefix("enum_u8{").and_then(|r| r.strip_suffix('}')) {
				Ty::Enum(1, parse_enum(b)?)
			} else if let Some(b) = s.strip_prefix("enum_u32{").and_then(|r| r.strip_suffix('}')) {
				Ty::Enum(4, parse_enum(b)?)
			} else if let Some(n) = s.strip_prefix("sjis_cstr") {
				Ty::SjisCstr(num(n)?)
			} else if let Some(n) = s.strip_prefix("cstr").and_then(|r| r.strip_suffix("_utf8")) {
				Ty::CstrUtf8(num(n)?)
			} else if let Some(b) = s.strip_prefix("port_or_none{").and_then(|r| r.strip_suffix('}')) {
				// {255:None,0..3:Port}
				let (mut none, mut range) = (None, None);
				for e in b.split(',') {
					let (k, n) = e.split_once(':').ok_or(format!("type {:?}", s))?;
					match (n.trim(), k.trim().split_once("..")) {
						("None", None) => none = Some(k.trim().parse::<u8>().map_err(|_| format!("type {:?}", s))?),
						("Port", Some((lo, hi))) => range = Some((lo.parse::<u8>().map_err(|_| format!("type {:?}", s))?, hi.parse::<u8>().map_err(|_| format!("type {:?}", s))?)),
						_ => return Err(format!("type {:?}", s)),
					}
				}
				match (none, range) {
					(Some(n), Some((lo, hi))) => Ty::PortOrNone(n, lo, hi),
					_ => return Err(format!("type {:?}", s)),
				}
			} else if s.starts_with("i8 per port i in 0..3;") && s.contains("-1 = player absent") && s.contains("0..3 = placement") && s.contains("anything else is an error") {
				Ty::Placements
			} else {
				return Err(format!("unknown type {:?}", s));
			}
		}
	})
}

fn only_keys(o: &Map<String, Value>, what: &str, known: &[&str]) -> Result<(), String> {
	match o.keys().find(|k| !known.contains(&k.as_str())) {
		Some(k) => Err(format!("{}: key {:?} is not understood", what, k)),
		None => Ok(()),
	}
}

fn obj<'a>(v: &'a Value, what: &str) -> Result<&'a Map<String, Value>, String> {
	v.as_object().ok_or(format!("{} is not an object", what))
}

fn num(o: &Map<String, Value>, k: &str, what: &str) -> Result<usize, String> {
	o.get(k).and_then(|v| v.as_u64()).map(|v| v as usize).ok_or(format!("{}: no number {:?}", what, k))
}

fn text<'a>(o: &'a Map<String, Value>, k: &str, what: &str) -> Result<&'a str, String> {
	o.get(k).and_then(|v| v.as_str()).ok_or(format!("{}: no string {:?}", what, k))
}

fn classes(o: &Map<String, Value>, what: &str) -> Result<Vec<((u8, u8), usize)>, String> {
	let mut out = vec![];
	for (k, v) in obj(o.get("length_classes").ok_or(format!("{}: no length_classes", what))?, "length_classes")? {
		let (a, b) = k.split_once('.').ok_or(format!("{}: length class {:?}", what, k))?;
		let ver = (a.parse::<u8>().map_err(|_| format!("length class {:?}", k))?, b.parse::<u8>().map_err(|_| format!("length class {:?}", k))?);
		out.push((ver, v.as_u64().ok_or(format!("length class {:?}", k))? as usize));
	}
	out.sort();
	if out.windows(2).any(|w| w[0].1 >= w[1].1) {
		return Err(format!("{}: length classes do not grow with the version", what));
	}
	Ok(out)
}

fn fields(list: &Value, what: &str, off_key: &str, keys: &[&str]) -> Result<Vec<Field>, String> {
	let mut out = vec![];
	for f in list.as_array().ok_or(format!("{}: fields is not an array", what))? {
		let o = obj(f, what)?;
		only_keys(o, what, keys)?;
		let path = text(o, "path", what)?.to_string();
		let ty = parse_ty(text(o, "type", &path)?)?;
		if let Some(s) = o.get("stride") {
			if ty != Ty::Placements || s.as_u64() != Some(1) {
				return Err(format!("{} {}: stride {} is not understood", what, path, s));
			}
		}
		let cond = match o.get("present_iff").map(|v| v.as_str()) {
			None => Cond::Always,
			Some(Some("is_teams")) => Cond::IsTeams,
			Some(Some("type == Cpu")) => Cond::TypeIsCpu,
			Some(other) => return Err(format!("{} {}: condition {:?} is not understood", what, path, other)),
		};
		let min_len = match o.get("min_len") {
			None => 0,
			Some(_) => num(o, "min_len", &path)?,
		};
		let offset = num(o, off_key, &path)?;
		if min_len != 0 && min_len < offset + ty.width() {
			return Err(format!("{} {}: min_len {} does not contain the field", what, path, min_len));
		}
		out.push(Field { path, ty, offset, min_len, cond });
	}
	Ok(out)
}

fn load_from(dir: &str) -> Result<Layouts, String> {
	let read = |name: &str| -> Result<Value, String> {
		let p = format!("{}/{}", dir, name);
		let t = std::fs::read_to_string(&p).map_err(|e| format!("cannot read {}: {}", p, e))?;
		serde_json::from_str(&t).map_err(|e| format!("{}: {}", p, e))
	};
	let s = read("game_start_layout.json")?;
	let so = obj(&s, "game_start_layout")?;
	only_keys(so, "game_start_layout", &["_source", "length_classes", "fields", "players"])?;
	let po = obj(so.get("players").ok_or("game_start_layout: no players")?, "players")?;
	only_keys(po, "players", &["_note", "base", "stride", "slots", "ports", "fields", "per_port_tails"])?;
	let mut tails = vec![];
	for t in po.get("per_port_tails").and_then(|v| v.as_array()).ok_or("players: no per_port_tails")? {
		let o = obj(t, "per_port_tails")?;
		only_keys(o, "per_port_tails", &["path", "type", "base", "stride", "rel", "min_len"])?;
		let path = text(o, "path", "per_port_tails")?.to_string();
		let tail = Tail { ty: parse_ty(text(o, "type", &path)?)?, base: num(o, "base", &path)?, stride: num(o, "stride", &path)?, rel: num(o, "rel", &path)?, min_len: num(o, "min_len", &path)?, path };
		tails.push(tail);
	}
	let start = StartLayout {
		classes: classes(so, "game_start_layout")?,
		fields: fields(so.get("fields").ok_or("game_start_layout: no fields")?, "game_start_layout", "offset", &["path", "type", "offset", "min_len"])?,
		base: num(po, "base", "players")?,
		stride: num(po, "stride", "players")?,
		slots: num(po, "slots", "players")?,
		ports: num(po, "ports", "players")?,
		player_fields: fields(po.get("fields").ok_or("players: no fields")?, "players", "rel", &["path", "type", "rel", "present_iff"])?,
		tails,
	};
	if start.ports != 4 {
		return Err(format!("players: {} ports", start.ports));
	}
	for t in &start.tails {
		if t.min_len < t.offset(start.ports - 1) + t.ty.width() {
			return Err(format!("per-port field {}: min_len {} does not contain port {}", t.path, t.min_len, start.ports));
		}
	}
	let min = start.classes.first().map_or(0, |c| c.1);
	for f in &start.fields {
		if f.min_len == 0 && f.offset + f.ty.width() > min {
			return Err(format!("field {} has no min_len but does not fit the smallest block ({} bytes)", f.path, min));
		}
	}
	if start.slot(start.slots) > min {
		return Err("the player slots do not fit the smallest block".to_string());
	}
	let e = read("game_end_layout.json")?;
	let eo = obj(&e, "game_end_layout")?;
	only_keys(eo, "game_end_layout", &["_source", "length_classes", "fields"])?;
	let end = EndLayout { classes: classes(eo, "game_end_layout")?, fields: fields(eo.get("fields").ok_or("game_end_layout: no fields")?, "game_end_layout", "offset", &["path", "type", "offset", "min_len", "stride"])? };
	Ok(Layouts { start, end })
}

pub fn load() -> Result<&'static Layouts, String> {
	static L: OnceLock<Result<Layouts, String>> = OnceLock::new();
	L.get_or_init(|| load_from(&std::env::var("PEPPI_SPEC").unwrap_or_else(|_| "/verif/spec".to_string()))).as_ref().map_err(|e| e.clone())
}
