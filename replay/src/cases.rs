//! Driver for oracles whose cases are textual ids of their own (c05, c16, c19), and the smallest possible .slp around a
//! given Game Start / Game End payload.  Same output convention as oracles::search / oracles::replay.
use crate::gen::SIGNATURE;
use crate::oracles::{guard, Outcome};
use std::sync::atomic::{AtomicUsize, Ordering};
use std::sync::Mutex;
use std::time::Instant;
use Outcome::*;

pub type IdCheck<'a> = &'a (dyn Fn(&str) -> Outcome + Sync);

/// Runs `check` over `cases` on all cores; prints the WITNESS with the smallest case index, if any.  `what`: a sentence
/// about the candidate set for the ok line (evaluated after the run, so it can carry counters).
pub fn search_ids(name: &str, cases: &[String], check: IdCheck, what: &dyn Fn() -> String, t0: Instant) -> i32 {
	std::panic::set_hook(Box::new(|_| {}));
	let threads = std::thread::available_parallelism().map_or(4, |n| n.get()).min(16).min(cases.len().max(1));
	let next = AtomicUsize::new(0);
	let best = AtomicUsize::new(usize::MAX);
	let found: Mutex<Vec<(usize, String, String)>> = Mutex::new(vec![]);
	let panics: Mutex<Vec<(usize, String)>> = Mutex::new(vec![]);
	std::thread::scope(|s| {
		for _ in 0..threads {
			s.spawn(|| loop {
				let i = next.fetch_add(1, Ordering::SeqCst);
				if i >= cases.len() || i > best.load(Ordering::SeqCst) {
					break;
				}
				match guard(|| check(&cases[i])) {
					Ok(Holds) => {}
					Ok(Violated { extra, msg }) => {
						best.fetch_min(i, Ordering::SeqCst);
						found.lock().unwrap().push((i, extra, msg));
					}
					Ok(Panicked(m)) => panics.lock().unwrap().push((i, m)),
					Err(m) => panics.lock().unwrap().push((i, format!("(outside peppi) {}", m))),
				}
			});
		}
	});
	let mut panics = panics.into_inner().unwrap();
	panics.sort();
	for (i, m) in panics.iter().take(5) {
		println!("NOTE {}-search: panic on {} (counts against the no-panic property only): {}", name, cases[*i], m);
	}
	let mut found = found.into_inner().unwrap();
	found.sort();
	match found.first() {
		Some((i, extra, msg)) => {
			println!("WITNESS {} {}{}{}", name, cases[*i], if extra.is_empty() { "" } else { " " }, extra);
			println!("{} VIOLATED: {} [{}]", name, msg, cases[*i]);
			1
		}
		None => {
			println!("{}-search ok: {} cases, {} panics, {} ms; {}", name, cases.len(), panics.len(), t0.elapsed().as_millis(), what());
			0
		}
	}
}

/// Replays one case: prints `<name> VIOLATED: ...` and returns 1, or returns 0.
pub fn replay_id(name: &str, id: &str, check: IdCheck) -> i32 {
	std::panic::set_hook(Box::new(|_| {}));
	match guard(|| check(id)) {
		Ok(Holds) => {
			println!("{} ok: {}", name, id);
			0
		}
		Ok(Violated { msg, .. }) if msg.starts_with("bad case-id") => {
			eprintln!("{}", msg);
			3
		}
		Ok(Violated { msg, .. }) => {
			println!("{} VIOLATED: {} [{}]", name, msg, id);
			1
		}
		Ok(Panicked(m)) | Err(m) => {
			println!("{} not evaluated: peppi panicked (counts against the no-panic property c06 only): {} [{}]", name, m, id);
			0
		}
	}
}

/// `key=value` parts of a `/`-separated case-id after its first part.
pub fn id_parts(id: &str) -> Vec<(&str, &str)> {
	id.split('/').filter_map(|p| p.split_once('=')).collect()
}

pub fn id_get<'a>(id: &'a str, key: &str) -> Option<&'a str> {
	id_parts(id).into_iter().find(|(k, _)| *k == key).map(|(_, v)| v)
}

pub fn hex(b: &[u8]) -> String {
	b.iter().map(|x| format!("{:02x}", x)).collect()
}

pub fn unhex(s: &str) -> Option<Vec<u8>> {
	if s.len() % 2 != 0 || !s.is_ascii() {
		return None;
	}
	(0..s.len() / 2).map(|i| u8::from_str_radix(&s[2 * i..2 * i + 2], 16).ok()).collect()
}

/// The tail of a file with an empty metadata map.
pub const EMPTY_META: &[u8] = b"U\x08metadata{}}";

/// Signature, raw length, a payload-size table declaring only Game Start and Game End, the Game Start event, no
/// frames, the Game End event (if any), then `tail` (`U\x08metadata{...}}` or the lone `}`).
pub fn mini_slp(start: &[u8], end_size: usize, end: Option<&[u8]>, tail: &[u8]) -> Vec<u8> {
	let mut b = vec![];
	b.extend_from_slice(&SIGNATURE);
	b.extend_from_slice(&[0; 4]);
	b.extend_from_slice(&[0x35, 7, 0x36]);
	b.extend_from_slice(&(start.len() as u16).to_be_bytes());
	b.push(0x39);
	b.extend_from_slice(&(end_size as u16).to_be_bytes());
	b.push(0x36);
	b.extend_from_slice(start);
	if let Some(e) = end {
		assert_eq!(e.len(), end_size);
		b.push(0x39);
		b.extend_from_slice(e);
	}
	let raw_len = (b.len() - 15) as u32;
	b[11..15].copy_from_slice(&raw_len.to_be_bytes());
	b.extend_from_slice(tail);
	b
}
