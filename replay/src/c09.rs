//! c09: both writers refuse exactly the games whose version exceeds 3.16.0 (compared as major, minor, patch).
//! A v3.16 synthetic replay is relabelled (version bytes of the Game Start block) with versions around the
//! ceiling, read in full and with skip_frames (a zero-frame game), and handed to both writers.
use crate::gen::{build_ext, Spec};
use crate::oracles::{guard, opts, read_with, viol, write_game, Outcome, Progress};

pub const RELABELS: [(u8, u8, u8); 11] =
	[(3, 16, 0), (3, 15, 255), (3, 14, 0), (3, 16, 1), (3, 16, 255), (3, 17, 0), (3, 255, 0), (4, 0, 0), (4, 0, 1), (200, 1, 1), (255, 255, 255)];

fn allowed(v: (u8, u8, u8)) -> bool {
	v <= (3, 16, 0)
}

/// `only`: "<major> <minor> <patch> <s0|s1>" runs exactly one sub-case
pub fn c09(spec: &Spec, _p: &Progress, only: Option<&str>) -> Outcome {
	if spec.v2() != (3, 16) {
		return Outcome::Holds;
	}
	for v in RELABELS {
		for skip in [false, true] {
			let label = format!("{} {} {} {}", v.0, v.1, v.2, if skip { "s1" } else { "s0" });
			if let Some(o) = only {
				if o != label {
					continue;
				}
			}
			let (bytes, _) = build_ext(spec, 0, Some(v));
			// the reader is forward compatible: if it rejects the relabelled file there is nothing to write
			let game = match read_with(&bytes, Some(&opts(skip, false))) {
				Ok(Ok(g)) => g,
				_ => continue,
			};
			let slp = write_game(&game);
			let slp_ok = matches!(slp, Ok(Ok(_)));
			if let Err(p) = &slp {
				return Outcome::Violated { extra: label.clone(), msg: format!("[{}] the .slp writer panicked: {}", label, p) };
			}
			let slpp = guard(move || {
				let mut out = vec![];
				peppi::io::peppi::write(&mut out, game, None).map(|_| ()).map_err(|e| e.to_string())
			});
			let slpp_ok = match &slpp {
				Ok(r) => r.is_ok(),
				// known finding F4 territory does not apply to 3.16+; any panic here is a violation of "returns an error"
				Err(p) => return Outcome::Violated { extra: label.clone(), msg: format!("[{}] the .slpp writer panicked: {}", label, p) },
			};
			if allowed(v) {
				// at or below the ceiling the writers must not refuse on account of the version
				if !slp_ok {
					return Outcome::Violated { extra: label.clone(), msg: format!("[{}] the .slp writer refused a supported version", label) };
				}
			} else if slp_ok || slpp_ok {
				return Outcome::Violated {
					extra: label.clone(),
					msg: format!("[{}] version {}.{}.{} exceeds 3.16.0 but was written ({}{})", label, v.0, v.1, v.2, if slp_ok { ".slp " } else { "" }, if slpp_ok { ".slpp" } else { "" }),
				};
			}
		}
	}
	let _ = viol;
	Outcome::Holds
}
