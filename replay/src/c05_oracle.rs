//! c05: every exposed Game Start / Game End field equals the value at its spec offset of the raw block, optionals are
//! present exactly when the block is long enough, players are the ports with a human / CPU / demo type byte in port
//! order, the JSON rendering carries the same values, the raw blocks are retained.
//! Expected values come from spec_tables (the JSON transcription of the public spec) alone.
//!
//! case-id: `len=<start block length>/types=<4 of H C D E X N>/teams=<0|1>/fill=<n>/end=<hex of the end block>`
//! (H human, C CPU, D demo, E empty = 3, N = 4, X = 0xFF; `fill` seeds all other bytes of the start block).
use crate::cases::{hex, id_get, mini_slp, unhex, EMPTY_META};
use crate::gen::Rng;
use crate::oracles::{guard, read_with, viol, Outcome};
use crate::sjis;
use crate::spec_tables::{self as st, decode, Cond, Field, Layouts, Ty, Val};
use peppi::game::{End, Player, Start};
use serde_json::Value;
use Outcome::*;

// ---------------------------------------------------------------------------------------------- accessors

fn u(x: impl Into<u64>) -> Val {
	Val::U(x.into())
}

fn opt<T>(o: Option<T>, f: impl FnOnce(T) -> Val) -> Val {
	o.map_or(Val::Absent, f)
}

fn name(x: impl std::fmt::Debug) -> Val {
	Val::Name(format!("{:?}", x))
}

/// None: the table names a path this oracle has no accessor for.
fn start_val(s: &Start, path: &str) -> Option<Val> {
	Some(match path {
		"slippi.version.0" => u(s.slippi.version.0),
		"slippi.version.1" => u(s.slippi.version.1),
		"slippi.version.2" => u(s.slippi.version.2),
		"bitfield" => Val::Bytes(s.bitfield.to_vec()),
		"is_raining_bombs" => Val::B(s.is_raining_bombs),
		"is_teams" => Val::B(s.is_teams),
		"item_spawn_frequency" => Val::I(s.item_spawn_frequency as i64),
		"self_destruct_score" => Val::I(s.self_destruct_score as i64),
		"stage" => u(s.stage),
		"timer" => u(s.timer),
		"item_spawn_bitfield" => Val::Bytes(s.item_spawn_bitfield.to_vec()),
		"damage_ratio" => Val::F(s.damage_ratio.to_bits()),
		"random_seed" => u(s.random_seed),
		"is_pal" => opt(s.is_pal, Val::B),
		"is_frozen_ps" => opt(s.is_frozen_ps, Val::B),
		"scene.minor" => opt(s.scene, |x| u(x.minor)),
		"scene.major" => opt(s.scene, |x| u(x.major)),
		"language" => opt(s.language, name),
		"match.id" => opt(s.r#match.as_ref(), |m| Val::Str(m.id.clone())),
		"match.game" => opt(s.r#match.as_ref(), |m| u(m.game)),
		"match.tiebreaker" => opt(s.r#match.as_ref(), |m| u(m.tiebreaker)),
		_ => return None,
	})
}

fn player_val(p: &Player, path: &str) -> Option<Val> {
	Some(match path {
		"character" => u(p.character),
		"type" => name(p.r#type),
		"stocks" => u(p.stocks),
		"costume" => u(p.costume),
		"team.shade" => opt(p.team, |t| u(t.shade)),
		"team.color" => opt(p.team, |t| u(t.color)),
		"handicap" => u(p.handicap),
		"bitfield" => u(p.bitfield),
		"cpu_level" => opt(p.cpu_level, |l| u(l)),
		"offense_ratio" => Val::F(p.offense_ratio.to_bits()),
		"defense_ratio" => Val::F(p.defense_ratio.to_bits()),
		"model_scale" => Val::F(p.model_scale.to_bits()),
		"ucf.dash_back" => opt(p.ucf, |x| x.dash_back.map_or(Val::Name("None".to_string()), name)),
		"ucf.shield_drop" => opt(p.ucf, |x| x.shield_drop.map_or(Val::Name("None".to_string()), name)),
		"name_tag" => opt(p.name_tag.as_ref(), |t| Val::Str(t.as_str().to_string())),
		"netplay.name" => opt(p.netplay.as_ref(), |n| Val::Str(n.name.as_str().to_string())),
		"netplay.code" => opt(p.netplay.as_ref(), |n| Val::Str(n.code.as_str().to_string())),
		"netplay.suid" => opt(p.netplay.as_ref().and_then(|n| n.suid.as_ref()), |s| Val::Str(s.clone())),
		_ => return None,
	})
}

fn end_val(e: &End, path: &str) -> Option<Val> {
	Some(match path {
		"method" => name(e.method),
		"lras_initiator" => opt(e.lras_initiator, |p| Val::Port(p.map(|p| p as u8))),
		"players[i].placement" => opt(e.players.as_ref(), |v| Val::Places(v.iter().map(|p| (p.port as u8, p.placement)).collect())),
		_ => return None,
	})
}

// ---------------------------------------------------------------------------------------------- JSON

enum Nav<'a> {
	Found(&'a Value),
	MissingKey(String),
	HitNull,
}

fn nav<'a>(root: &'a Value, path: &str) -> Nav<'a> {
	let mut cur = root;
	for seg in path.split('.') {
		cur = match cur {
			Value::Null => return Nav::HitNull,
			Value::Array(a) => match seg.parse::<usize>().ok().and_then(|i| a.get(i)) {
				Some(v) => v,
				None => return Nav::MissingKey(seg.to_string()),
			},
			Value::Object(o) => match o.get(seg) {
				Some(v) => v,
				None => return Nav::MissingKey(seg.to_string()),
			},
			_ => return Nav::MissingKey(seg.to_string()),
		};
	}
	Nav::Found(cur)
}

fn port_name(p: u8) -> String {
	format!("P{}", p + 1)
}

fn json_is(v: &Value, want: &Val) -> bool {
	match want {
		Val::U(n) => v.as_u64() == Some(*n),
		Val::I(n) => v.as_i64() == Some(*n),
		Val::F(bits) => {
			let f = f32::from_bits(*bits);
			if f.is_finite() {
				v.as_f64() == Some(f as f64)
			} else {
				v.is_null()
			}
		}
		Val::B(b) => v.as_bool() == Some(*b),
		Val::Bytes(b) => v.as_array().map_or(false, |a| a.len() == b.len() && a.iter().zip(b).all(|(x, y)| x.as_u64() == Some(*y as u64))),
		Val::Str(s) => v.as_str() == Some(s.as_str()),
		Val::Name(n) if n == "None" => v.is_null(),
		Val::Name(n) => v.as_str() == Some(n.as_str()),
		Val::Port(None) => v.is_null(),
		Val::Port(Some(p)) => v.as_str() == Some(port_name(*p).as_str()),
		Val::Places(ps) => v.as_array().map_or(false, |a| {
			a.len() == ps.len() && a.iter().zip(ps).all(|(x, (port, place))| x.as_object().map_or(false, |o| o.len() == 2 && o.get("port").and_then(|p| p.as_str()) == Some(port_name(*port).as_str()) && o.get("placement").and_then(|p| p.as_u64()) == Some(*place as u64)))
		}),
		Val::Absent | Val::Invalid(_) => false,
	}
}

/// `gated`: the field is absent because the block is too short (key omitted) rather than by a condition (null).
fn check_json(what: &str, root: &Value, path: &str, want: &Val, gated: bool) -> Result<(), String> {
	// `players[i].placement` lives under the key `players`
	let jpath = if path == "players[i].placement" { "players" } else { path };
	match (nav(root, jpath), want) {
		(Nav::MissingKey(_), Val::Absent) if gated => Ok(()),
		(Nav::HitNull, Val::Absent) if !gated => Ok(()),
		(Nav::Found(v), Val::Absent) if !gated && v.is_null() => Ok(()),
		(Nav::Found(v), Val::Absent) => Err(format!("{} JSON {}: {} although the field is absent (an absent version-gated field must be omitted, an absent conditional one null)", what, path, v)),
		(Nav::MissingKey(k), Val::Absent) => Err(format!("{} JSON {}: key {:?} omitted, but a conditional field that is absent must be null", what, path, k)),
		(Nav::HitNull, Val::Absent) => Err(format!("{} JSON {}: null on the way to a version-gated field that must be omitted", what, path)),
		(Nav::Found(v), w) if json_is(v, w) => Ok(()),
		(Nav::Found(v), w) => Err(format!("{} JSON {}: {} but the block holds {:?}", what, path, v, w)),
		(Nav::MissingKey(k), w) => Err(format!("{} JSON {}: key {:?} missing, but the block holds {:?}", what, path, k, w)),
		(Nav::HitNull, w) => Err(format!("{} JSON {}: null, but the block holds {:?}", what, path, w)),
	}
}

// ---------------------------------------------------------------------------------------------- expectations

fn want_top(f: &Field, raw: &[u8]) -> Val {
	if raw.len() < f.min_len.max(f.offset + f.ty.width()) {
		Val::Absent
	} else {
		decode(&f.ty, raw, f.offset)
	}
}

/// The ports whose type byte names a player type, in port order.
fn listed_ports(lay: &Layouts, raw: &[u8]) -> Vec<usize> {
	let ty = lay.start.player_field("type");
	(0..lay.start.ports).filter(|p| matches!(decode(&ty.ty, raw, lay.start.slot(*p) + ty.offset), Val::Name(_))).collect()
}

fn want_player(lay: &Layouts, raw: &[u8], port: usize, f: &Field) -> Val {
	let slot = lay.start.slot(port);
	let holds = match f.cond {
		Cond::Always => true,
		Cond::IsTeams => want_top(lay.start.field("is_teams"), raw) == Val::B(true),
		Cond::TypeIsCpu => {
			let ty = lay.start.player_field("type");
			decode(&ty.ty, raw, slot + ty.offset) == Val::Name("Cpu".to_string())
		}
	};
	if holds {
		decode(&f.ty, raw, slot + f.offset)
	} else {
		Val::Absent
	}
}

fn differs(what: &str, path: &str, got: &Val, want: &Val) -> String {
	format!("{} {}: parsed {:x?} but the block holds {:x?} at the spec offset (Absent = not present at this block length / condition)", what, path, got, want)
}

pub fn compare_start(lay: &Layouts, s: &Start, raw: &[u8]) -> Result<(), String> {
	if s.bytes.0 != raw {
		return Err(format!("start.bytes: the retained block ({} bytes) is not the block of the file ({} bytes)", s.bytes.0.len(), raw.len()));
	}
	let json = serde_json::to_value(s).map_err(|e| format!("Game Start does not serialise to JSON: {}", e))?;
	for f in &lay.start.fields {
		let want = want_top(f, raw);
		let got = start_val(s, &f.path).ok_or(format!("(oracle) no accessor for Game Start path {}", f.path))?;
		if got != want {
			return Err(differs("Game Start", &f.path, &got, &want));
		}
		check_json("Game Start", &json, &f.path, &want, true)?;
	}
	let ports = listed_ports(lay, raw);
	let got_ports: Vec<usize> = s.players.iter().map(|p| p.port as usize).collect();
	if got_ports != ports {
		return Err(format!("Game Start players: ports {:?} listed, but the type bytes name players at ports {:?} (0-based)", got_ports, ports));
	}
	let jplayers = json.get("players").and_then(|p| p.as_array()).ok_or("Game Start JSON players: not an array")?;
	if jplayers.len() != ports.len() {
		return Err(format!("Game Start JSON players: {} entries for {} players", jplayers.len(), ports.len()));
	}
	for ((p, port), jp) in s.players.iter().zip(&ports).zip(jplayers) {
		let what = format!("Game Start port {}", port + 1);
		if jp.get("port").and_then(|x| x.as_str()) != Some(port_name(*port as u8).as_str()) {
			return Err(format!("{} JSON port: {:?}", what, jp.get("port")));
		}
		for f in &lay.start.player_fields {
			let want = want_player(lay, raw, *port, f);
			let got = player_val(p, &f.path).ok_or(format!("(oracle) no accessor for player path {}", f.path))?;
			if got != want {
				return Err(differs(&what, &f.path, &got, &want));
			}
			check_json(&what, jp, &f.path, &want, false)?;
		}
		for t in &lay.start.tails {
			let want = if raw.len() >= t.min_len { decode(&t.ty, raw, t.offset(*port)) } else { Val::Absent };
			let got = player_val(p, &t.path).ok_or(format!("(oracle) no accessor for player path {}", t.path))?;
			if got != want {
				return Err(differs(&what, &t.path, &got, &want));
			}
			check_json(&what, jp, &t.path, &want, true)?;
		}
	}
	Ok(())
}

pub fn compare_end(lay: &Layouts, e: &End, raw: &[u8]) -> Result<(), String> {
	if e.bytes.0 != raw {
		return Err(format!("end.bytes: the retained block {:02x?} is not the block of the file {:02x?}", e.bytes.0, raw));
	}
	let json = serde_json::to_value(e).map_err(|e| format!("Game End does not serialise to JSON: {}", e))?;
	for f in &lay.end.fields {
		let want = want_top(f, raw);
		let got = end_val(e, &f.path).ok_or(format!("(oracle) no accessor for Game End path {}", f.path))?;
		if got != want {
			return Err(differs("Game End", &f.path, &got, &want));
		}
		check_json("Game End", &json, &f.path, &want, true)?;
	}
	Ok(())
}

// ---------------------------------------------------------------------------------------------- generator

pub const TYPE_LETTERS: [(char, Option<&str>, u8); 6] = [('H', Some("Human"), 0), ('C', Some("Cpu"), 0), ('D', Some("Demo"), 0), ('E', None, 3), ('N', None, 4), ('X', None, 0xFF)];

fn type_byte(lay: &Layouts, letter: char) -> Result<u8, String> {
	let Ty::Enum(1, names) = &lay.start.player_field("type").ty else { return Err("(oracle) the player type is not a one-byte enum".to_string()) };
	let (_, nm, raw) = TYPE_LETTERS.iter().find(|t| t.0 == letter).ok_or(format!("bad case-id: player type letter {:?}", letter))?;
	match nm {
		Some(n) => names.iter().find(|(_, x)| x == n).map(|(v, _)| *v as u8).ok_or(format!("(oracle) the table has no player type {}", n)),
		None if names.iter().any(|(v, _)| *v == *raw as u64) => Err(format!("(oracle) type byte {} is a player type in the table", raw)),
		None => Ok(*raw),
	}
}

fn utf8_field(rng: &mut Rng, n: usize) -> Vec<u8> {
	// at most n-1 bytes of text: the spec calls these NUL-terminated strings
	let k = match rng.below(4) {
		0 => 0,
		1 => n - 1,
		_ => rng.below(n),
	};
	const CHARS: [&str; 8] = ["a", "Z", "0", "-", "\u{e9}", "\u{3042}", "\u{1F600}", "~"];
	let mut t = String::new();
	while t.len() < k {
		let c = CHARS[rng.below(CHARS.len())];
		t.push_str(if t.len() + c.len() <= k { c } else { "x" });
	}
	let junk = rng.below(2) == 0;
	let mut f = t.into_bytes();
	f.push(0);
	let rest = if junk { rng.bytes(n) } else { vec![0; n] };
	f.extend_from_slice(&rest[..n - f.len()]);
	f
}

/// Bytes for a field of type `ty` that the spec gives a meaning to; None: any bytes will do.
fn legal(rng: &mut Rng, ty: &Ty) -> Option<Vec<u8>> {
	match ty {
		Ty::Enum(w, names) => {
			let v = names[rng.below(names.len())].0;
			Some(v.to_be_bytes()[8 - w..].to_vec())
		}
		Ty::BoolNonzero => Some(vec![[0u8, 0, 1, 1, 2, 0x80, 0xFF][rng.below(7)]]),
		Ty::SjisCstr(n) => Some(sjis::valid_field(rng, *n)),
		Ty::CstrUtf8(n) => Some(utf8_field(rng, *n)),
		Ty::PortOrNone(none, lo, hi) => {
			let k = rng.below((*hi - *lo) as usize + 2);
			Some(vec![if k == 0 { *none } else { *lo + k as u8 - 1 }])
		}
		Ty::Placements => Some((0..4).map(|_| [0xFFu8, 0, 1, 2, 3][rng.below(5)]).collect()),
		_ => None,
	}
}

fn put(raw: &mut [u8], off: usize, bytes: &[u8]) {
	if off + bytes.len() <= raw.len() {
		raw[off..off + bytes.len()].copy_from_slice(bytes);
	}
}

fn fnv(s: &str) -> u64 {
	s.bytes().fold(0xcbf2_9ce4_8422_2325u64, |h, b| (h ^ b as u64).wrapping_mul(0x100_0000_01b3))
}

pub fn start_block(lay: &Layouts, len: usize, types: &str, teams: bool, fill: u64) -> Result<Vec<u8>, String> {
	let ver = lay.start.class_version(len).ok_or(format!("bad case-id: {} is not a Game Start length class", len))?;
	if types.chars().count() != lay.start.ports {
		return Err(format!("bad case-id: types {:?}", types));
	}
	let mut rng = Rng::new(fnv(&format!("{}/{}/{}/{}", len, types, teams, fill)));
	let mut raw = rng.bytes(len);
	for f in &lay.start.fields {
		if let Some(b) = legal(&mut rng, &f.ty) {
			put(&mut raw, f.offset, &b);
		}
	}
	// presence of the optional fields is a matter of the block LENGTH: every fourth filling declares a version older (or newer)
	// than the one that introduced the layout
	let ver = if fill % 4 == 3 { [(0u8, 1u8), (1, 0), (2, 0), (3, 7), (3, 16), (9, 9)][rng.below(6)] } else { (ver.0, ver.1) };
	put(&mut raw, lay.start.field("slippi.version.0").offset, &[ver.0]);
	put(&mut raw, lay.start.field("slippi.version.1").offset, &[ver.1]);
	let t = [1u8, 1, 2, 0x80, 0xFF][rng.below(5)];
	put(&mut raw, lay.start.field("is_teams").offset, &[if teams { t } else { 0 }]);
	for (port, letter) in types.chars().enumerate() {
		let slot = lay.start.slot(port);
		for f in &lay.start.player_fields {
			if let Some(b) = legal(&mut rng, &f.ty) {
				put(&mut raw, slot + f.offset, &b);
			}
		}
		put(&mut raw, slot + lay.start.player_field("type").offset, &[type_byte(lay, letter)?]);
		for t in &lay.start.tails {
			if let Some(b) = legal(&mut rng, &t.ty) {
				if raw.len() >= t.min_len {
					put(&mut raw, t.offset(port), &b);
				}
			}
		}
	}
	Ok(raw)
}

pub fn end_block(lay: &Layouts, rng: &mut Rng, len: usize) -> Vec<u8> {
	let mut raw = rng.bytes(len);
	for f in &lay.end.fields {
		if let Some(b) = legal(rng, &f.ty) {
			put(&mut raw, f.offset, &b);
		}
	}
	raw
}

fn case_id(len: usize, types: &str, teams: bool, fill: u64, end: &[u8]) -> String {
	format!("len={}/types={}/teams={}/fill={}/end={}", len, types, teams as u8, fill, hex(end))
}

const FILLS: u64 = 32;

pub fn candidates(lay: &Layouts) -> Vec<String> {
	let mut out = vec![];
	// every type pattern over human / CPU / demo / empty, and every occupancy subset with the two other empty bytes
	let mut patterns: Vec<String> = vec![];
	for code in 0..256usize {
		patterns.push((0..4).map(|p| ['H', 'C', 'D', 'E'][(code >> (2 * p)) & 3]).collect());
	}
	for empty in ['N', 'X'] {
		for occ in 0..16usize {
			patterns.push((0..4).map(|p| if occ >> p & 1 == 1 { ['H', 'C', 'D', 'C'][(occ + p) % 4] } else { empty }).collect());
		}
	}
	let mut rng = Rng::new(5);
	for (_, len) in &lay.start.classes {
		for types in &patterns {
			for teams in [false, true] {
				for fill in 0..FILLS {
					let elen = lay.end.classes[out.len() % lay.end.classes.len()].1;
					let end = end_block(lay, &mut rng, elen);
					out.push(case_id(*len, types, teams, fill, &end));
				}
			}
		}
	}
	// every end block the spec gives a meaning to, over rotating start blocks
	let bytes_of = |f: &Field| -> Vec<Vec<u8>> {
		match &f.ty {
			Ty::Enum(1, names) => names.iter().map(|(v, _)| vec![*v as u8]).collect(),
			Ty::PortOrNone(none, lo, hi) => std::iter::once(*none).chain(*lo..=*hi).map(|b| vec![b]).collect(),
			Ty::Placements => (0..625usize).map(|c| (0..4).map(|i| [0xFFu8, 0, 1, 2, 3][c / 5usize.pow(i) % 5]).collect()).collect(),
			other => panic!("(oracle) Game End field {} of type {:?} cannot be enumerated", f.path, other),
		}
	};
	for (_, elen) in &lay.end.classes {
		let mut blocks: Vec<Vec<u8>> = vec![vec![0; *elen]];
		for f in lay.end.fields.iter().filter(|f| f.offset + f.ty.width() <= *elen) {
			let vals = bytes_of(f);
			blocks = blocks.iter().flat_map(|b| vals.iter().map(|v| { let mut b = b.clone(); put(&mut b, f.offset, v); b }).collect::<Vec<_>>()).collect();
		}
		for end in blocks {
			let k = out.len();
			let len = lay.start.classes[k % lay.start.classes.len()].1;
			out.push(case_id(len, &patterns[(k * 7) % patterns.len()], k % 2 == 1, k as u64 % FILLS, &end));
		}
	}
	out
}

// ---------------------------------------------------------------------------------------------- check

pub fn build(lay: &Layouts, id: &str) -> Result<(Vec<u8>, Vec<u8>, Vec<u8>), String> {
	let bad = || format!("bad case-id: {}", id);
	let len: usize = id_get(id, "len").and_then(|v| v.parse().ok()).ok_or_else(bad)?;
	let types = id_get(id, "types").ok_or_else(bad)?;
	let teams = id_get(id, "teams").ok_or_else(bad)? == "1";
	let fill: u64 = id_get(id, "fill").and_then(|v| v.parse().ok()).ok_or_else(bad)?;
	let end = id_get(id, "end").and_then(unhex).filter(|e| !e.is_empty()).ok_or_else(bad)?;
	let start = start_block(lay, len, types, teams, fill)?;
	let file = mini_slp(&start, end.len(), Some(&end), EMPTY_META);
	Ok((file, start, end))
}

pub fn check(id: &str) -> Outcome {
	let lay = st::load().expect("spec tables");
	let (file, start, end) = match build(lay, id) {
		Ok(x) => x,
		Err(e) => return viol(e),
	};
	let game = match read_with(&file, None) {
		Ok(Ok(g)) => g,
		Ok(Err(e)) => return viol(format!("the reader rejected a file whose blocks hold only values the spec gives a meaning to: {}", e)),
		Err(p) => return Panicked(format!("read: {}", p)),
	};
	let r = guard(|| {
		compare_start(lay, &game.start, &start)?;
		match &game.end {
			Some(e) => compare_end(lay, e, &end),
			None => Err("the file has a Game End event but the parsed game has none".to_string()),
		}
	});
	match r {
		Ok(Ok(())) => Holds,
		Ok(Err(m)) => viol(m),
		Err(p) => viol(format!("peppi panicked while the parsed game was being viewed: {}", p)),
	}
}

/// Hard errors before a search: the tables load, every table path has an accessor (tried on hand-made values, so that
/// nothing here depends on what the reader accepts), the generator's own blocks hold only values the spec gives a
/// meaning to.
pub fn selfcheck() -> Result<&'static Layouts, String> {
	use peppi::game::{Bytes, EndMethod, PlayerType};
	let lay = st::load()?;
	sjis::selfcheck()?;
	let player = Player { port: peppi::game::Port::P1, character: 0, r#type: PlayerType::Human, stocks: 0, costume: 0, team: None, handicap: 0, bitfield: 0, cpu_level: None, offense_ratio: 0.0, defense_ratio: 0.0, model_scale: 0.0, ucf: None, name_tag: None, netplay: None };
	let start = Start {
		slippi: peppi::io::slippi::Slippi { version: peppi::io::slippi::Version(0, 1, 0) },
		bitfield: [0; 4],
		is_raining_bombs: false,
		is_teams: false,
		item_spawn_frequency: 0,
		self_destruct_score: 0,
		stage: 0,
		timer: 0,
		item_spawn_bitfield: [0; 5],
		damage_ratio: 0.0,
		players: vec![],
		random_seed: 0,
		bytes: Bytes(vec![]),
		is_pal: None,
		is_frozen_ps: None,
		scene: None,
		language: None,
		r#match: None,
	};
	let end = End { method: EndMethod::Game, bytes: Bytes(vec![]), lras_initiator: None, players: None };
	for f in &lay.start.fields {
		start_val(&start, &f.path).ok_or(format!("(oracle) no accessor for Game Start path {}", f.path))?;
	}
	for path in lay.start.player_fields.iter().map(|f| &f.path).chain(lay.start.tails.iter().map(|t| &t.path)) {
		player_val(&player, path).ok_or(format!("(oracle) no accessor for player path {}", path))?;
	}
	for f in &lay.end.fields {
		end_val(&end, &f.path).ok_or(format!("(oracle) no accessor for Game End path {}", f.path))?;
	}
	// a generated block of every length class decodes without Invalid
	for (_, len) in &lay.start.classes {
		let raw = start_block(lay, *len, "HCDE", true, 0)?;
		for f in &lay.start.fields {
			if let Val::Invalid(m) = want_top(f, &raw) {
				return Err(format!("(oracle) generated block: {} is {}", f.path, m));
			}
		}
		for port in 0..lay.start.ports {
			for t in lay.start.tails.iter().filter(|t| raw.len() >= t.min_len) {
				if let Val::Invalid(m) = decode(&t.ty, &raw, t.offset(port)) {
					return Err(format!("(oracle) generated block: port {} {} is {}", port + 1, t.path, m));
				}
			}
		}
	}
	Ok(lay)
}
