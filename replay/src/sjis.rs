//! Shift-JIS helpers for the c05 / c19 oracles: the reference decoding (encoding_rs called directly on the bytes before
//! the first NUL, no replacement characters), a catalogue of valid sequences, and field fillers.
use crate::gen::Rng;
use encoding_rs::SHIFT_JIS;

/// None: not a valid Shift-JIS byte sequence.
pub fn decode(bytes: &[u8]) -> Option<String> {
	SHIFT_JIS.decode_without_bom_handling_and_without_replacement(bytes).map(|c| c.into_owned())
}

pub fn until_nul(field: &[u8]) -> &[u8] {
	&field[..field.iter().position(|b| *b == 0).unwrap_or(field.len())]
}

/// Two-byte sequences used to fill fields; every one decodes to exactly one char (checked by `selfcheck`).
pub const TWO: [[u8; 2]; 24] = [
	[0x82, 0xA0], // hiragana a
	[0x81, 0x49], // full-width !
	[0x83, 0x41], // katakana a
	[0x88, 0x9F], // first level-1 kanji
	[0x81, 0x40], // ideographic space
	[0x82, 0x60], // full-width A
	[0x82, 0x81], // full-width a
	[0x82, 0x4F], // full-width 0
	[0x81, 0x66], // right single quotation mark
	[0x81, 0x68], // right double quotation mark
	[0x81, 0x65], // left single quotation mark
	[0x82, 0xBC], // hiragana zo
	[0x8A, 0xBF], // kanji "kan"
	[0x81, 0x94], // full-width #
	[0x81, 0x97], // full-width @
	[0x81, 0x60], // wave dash / full-width tilde
	[0x83, 0x5C], // katakana so: trail byte is an ASCII backslash
	[0x95, 0x5C], // kanji "hyou": trail byte 0x5C
	[0x81, 0x7C], // minus sign: trail byte is an ASCII |
	[0xE0, 0x40], // first level-2 kanji of the second lead range
	[0xEA, 0xA4], // last level-2 kanji
	[0xFA, 0x40], // IBM extension
	[0xFC, 0x4B], // last IBM extension
	[0xF0, 0x40], // user-defined area
];

pub fn one_byte(rng: &mut Rng) -> u8 {
	// ASCII 0x20..=0x7E (95) or half-width katakana 0xA1..=0xDF (63)
	let k = rng.below(95 + 63);
	if k < 95 {
		0x20 + k as u8
	} else {
		0xA1 + (k - 95) as u8
	}
}

/// Exactly `k` bytes of valid sequences without NUL.
pub fn valid(rng: &mut Rng, k: usize) -> Vec<u8> {
	let mut out = vec![];
	while out.len() < k {
		if k - out.len() >= 2 && rng.below(2) == 0 {
			out.extend_from_slice(&TWO[rng.below(TWO.len())]);
		} else {
			out.push(one_byte(rng));
		}
	}
	out
}

/// A field of `n` bytes: `k` bytes of text, then (if k < n) a NUL and `garbage(n - k - 1)`.
pub fn field(text: &[u8], n: usize, garbage: &[u8]) -> Vec<u8> {
	let mut f = text.to_vec();
	if f.len() < n {
		f.push(0);
		f.extend_from_slice(&garbage[..n - f.len()]);
	}
	assert_eq!(f.len(), n);
	f
}

/// A valid field of `n` bytes in one of the shapes: short + zeros, text + garbage after the NUL, completely full (no
/// NUL), one byte short of full, empty + garbage.
pub fn valid_field(rng: &mut Rng, n: usize) -> Vec<u8> {
	let (k, junk) = match rng.below(6) {
		0 => (rng.below(n), false),
		1 | 2 => (rng.below(n), true),
		3 => (n, false),
		4 => (n - 1, false),
		_ => (0, true),
	};
	let text = valid(rng, k);
	let garbage = if junk { rng.bytes(n) } else { vec![0; n] };
	field(&text, n, &garbage)
}

pub fn selfcheck() -> Result<(), String> {
	for t in TWO {
		match decode(&t) {
			Some(s) if s.chars().count() == 1 && !s.contains('\u{FFFD}') => {}
			other => return Err(format!("(oracle) catalogue sequence {:02x?} decodes to {:?}", t, other)),
		}
	}
	for b in (0x20..=0x7Eu8).chain(0xA1..=0xDF) {
		match decode(&[b]) {
			Some(s) if s.chars().count() == 1 => {}
			other => return Err(format!("(oracle) catalogue byte {:02x} decodes to {:?}", b, other)),
		}
	}
	Ok(())
}
