//! c16: a metadata block of nested maps (string / i32 / map values, distinct keys) reads as the same ordered tree, is
//! written back byte for byte, and survives .slpp (metadata.json and the re-read game) with its key order; a file
//! without metadata has none.
//! The UBJSON bytes are encoded here from the format description, never with peppi's writer.
//!
//! case-id: `tree/seed=<n>/depth=<d>/width=<w>` | `named/<name>` | `nometa`
use crate::cases::id_get;
use crate::gen::{self, Rng};
use crate::oracles::{first_diff, guard, read_with, viol, write_game, Outcome};
use crate::slpp_oracles::tar_walk;
use peppi::io::peppi as pp;
use serde_json::{Map, Value};
use std::io::Cursor;
use std::sync::OnceLock;
use Outcome::*;

#[derive(Clone, Debug, PartialEq)]
pub enum Node {
	Str(String),
	Int(i32),
	Map(Vec<(String, Node)>),
}

// ---------------------------------------------------------------------------------------------- encoding

fn enc_text(out: &mut Vec<u8>, s: &str) {
	assert!(s.len() <= 255);
	out.push(b'U');
	out.push(s.len() as u8);
	out.extend_from_slice(s.as_bytes());
}

/// The entries of a map and its closing brace (the opening brace belongs to the value marker position).
fn enc_entries(out: &mut Vec<u8>, entries: &[(String, Node)]) {
	for (k, v) in entries {
		enc_text(out, k);
		match v {
			Node::Str(s) => {
				out.push(b'S');
				enc_text(out, s);
			}
			Node::Int(i) => {
				out.push(b'l');
				out.extend_from_slice(&i.to_be_bytes());
			}
			Node::Map(m) => {
				out.push(b'{');
				enc_entries(out, m);
			}
		}
	}
	out.push(b'}');
}

/// `U\x08metadata{` entries `}` and the brace that closes the file.
pub fn tail_of(entries: &[(String, Node)]) -> Vec<u8> {
	let mut out = b"U\x08metadata{".to_vec();
	enc_entries(&mut out, entries);
	out.push(b'}');
	out
}

// ---------------------------------------------------------------------------------------------- trees

const INTS: [i32; 12] = [i32::MIN, -1, 0, i32::MAX, -2, -128, -129, 255, 256, 65536, -65536, i32::MIN + 1];

fn long_text(rng: &mut Rng, n: usize) -> String {
	// exactly n bytes; n = 255 = 85 three-byte chars, or ASCII, or a mix
	let mut s = String::new();
	let mode = rng.below(3);
	while s.len() < n {
		let c = match mode {
			0 => "\u{6f22}",
			1 => "q",
			_ => ["\u{6f22}", "q", "\u{e9}", "\u{1F600}", "\u{ff71}"][rng.below(5)],
		};
		s.push_str(if s.len() + c.len() <= n { c } else { "." });
	}
	s
}

fn text(rng: &mut Rng) -> String {
	match rng.below(12) {
		0 => String::new(),
		1 => "a\0b".to_string(),
		2 => "\0".to_string(),
		3 => long_text(rng, 255),
		4 => long_text(rng, 254),
		5 => "\u{ff71}\u{6f22}\u{1F600}".to_string(),
		6 => "}".to_string(),
		7 => "U\u{8}metadata{".to_string(),
		8 => "Sl{".to_string(),
		9 => "tail\0".to_string(),
		_ => {
			let n = rng.below(12);
			(0..n).map(|_| (b'a' + rng.below(26) as u8) as char).collect()
		}
	}
}

fn tree(rng: &mut Rng, depth: usize, width: usize) -> Vec<(String, Node)> {
	let mut entries: Vec<(String, Node)> = vec![];
	let n = if width == 0 { 0 } else { 1 + rng.below(width) };
	for i in 0..n {
		let mut k = text(rng);
		while entries.iter().any(|(e, _)| *e == k) {
			// distinct keys; descending numbering so that insertion order is not sorted order
			k = format!("k{}{}", n - i, (b'a' + rng.below(26) as u8) as char);
		}
		let v = match rng.below(if depth > 0 { 4 } else { 2 }) {
			0 => Node::Str(text(rng)),
			1 => Node::Int(if rng.below(3) == 0 { rng.next() as i32 } else { INTS[rng.below(INTS.len())] }),
			_ => Node::Map(tree(rng, depth - 1, width)),
		};
		entries.push((k, v));
	}
	entries
}

fn chain(depth: usize, leaf: Node) -> Node {
	(0..depth).fold(leaf, |n, i| Node::Map(vec![(format!("d{}", i), n)]))
}

fn named(name: &str) -> Option<Vec<(String, Node)>> {
	let s = |x: &str| x.to_string();
	Some(match name {
		"empty" => vec![],
		"slippi" => vec![
			(s("startAt"), Node::Str(s("2022-06-04T21:58:00Z"))),
			(s("lastFrame"), Node::Int(-39)),
			(s("players"), Node::Map(vec![(s("1"), Node::Map(vec![(s("names"), Node::Map(vec![(s("netplay"), Node::Str(s("y"))), (s("code"), Node::Str(s("Y#2")))])), (s("characters"), Node::Map(vec![(s("18"), Node::Int(124))]))])), (s("0"), Node::Map(vec![(s("characters"), Node::Map(vec![]))]))])),
			(s("playedOn"), Node::Str(s("dolphin"))),
		],
		"ints" => INTS.iter().enumerate().map(|(i, v)| (format!("i{}", INTS.len() - i), Node::Int(*v))).collect(),
		"reverse-keys" => (0..20).rev().map(|i| (format!("{:02}", i), Node::Int(i))).collect(),
		"empty-key" => vec![(s(""), Node::Str(s(""))), (s("b"), Node::Map(vec![(s(""), Node::Map(vec![(s(""), Node::Int(-1))]))]))],
		"nul" => vec![(s("a\0b"), Node::Str(s("c\0d"))), (s("\0"), Node::Str(s("\0\0"))), (s("a"), Node::Str(s("a\0")))],
		"long" => vec![("k".repeat(255), Node::Str("\u{6f22}".repeat(85))), ("\u{6f22}".repeat(85), Node::Str("v".repeat(255))), (s("z"), Node::Str("\u{1F600}".repeat(63) + "abc"))],
		"deep5" => vec![(s("top"), chain(5, Node::Int(i32::MIN))), (s("after"), Node::Str(s("x")))],
		"markers" => vec![(s("}"), Node::Str(s("}"))), (s("{"), Node::Map(vec![(s("l"), Node::Int(0x7b7d_5355))])), (s("S"), Node::Str(s("U")))],
		_ => return None,
	})
}

const NAMED: [&str; 9] = ["empty", "slippi", "ints", "reverse-keys", "empty-key", "nul", "long", "deep5", "markers"];

pub fn candidates() -> Vec<String> {
	let mut out: Vec<String> = vec!["nometa".to_string()];
	out.extend(NAMED.iter().map(|n| format!("named/{}", n)));
	let mut seed = 0;
	for depth in 0..=5 {
		for width in 0..=6 {
			for _ in 0..if width == 0 { 1 } else { 300 } {
				seed += 1;
				out.push(format!("tree/seed={}/depth={}/width={}", seed, depth, width));
			}
		}
	}
	out
}

/// (maps, strings, integers, deepest nesting) over the candidate set, for the ok line.
pub fn stats(ids: &[String]) -> String {
	fn walk(e: &[(String, Node)], d: usize, acc: &mut (usize, usize, usize, usize)) {
		acc.0 += 1;
		acc.3 = acc.3.max(d);
		for (_, v) in e {
			match v {
				Node::Str(_) => acc.1 += 1,
				Node::Int(_) => acc.2 += 1,
				Node::Map(m) => walk(m, d + 1, acc),
			}
		}
	}
	let mut acc = (0, 0, 0, 0);
	for id in ids {
		if let Ok(Some(t)) = tree_of(id) {
			walk(&t, 0, &mut acc);
		}
	}
	format!("{} maps, {} strings, {} integers, nesting up to {} below the metadata map", acc.0, acc.1, acc.2, acc.3)
}

fn tree_of(id: &str) -> Result<Option<Vec<(String, Node)>>, String> {
	let bad = || format!("bad case-id: {}", id);
	if id == "nometa" {
		return Ok(None);
	}
	if let Some(n) = id.strip_prefix("named/") {
		return named(n).map(Some).ok_or_else(bad);
	}
	if !id.starts_with("tree/") {
		return Err(bad());
	}
	let get = |k: &str| id_get(id, k).and_then(|v| v.parse::<u64>().ok()).ok_or_else(bad);
	let (seed, depth, width) = (get("seed")?, get("depth")? as usize, get("width")? as usize);
	if depth > 8 || width > 16 {
		return Err(bad());
	}
	Ok(Some(tree(&mut Rng::new(seed.wrapping_mul(0x1000) + 16), depth, width)))
}

// ---------------------------------------------------------------------------------------------- comparison

/// Ordered comparison: same keys in the same order, same values.
fn same_tree(at: &str, got: &Map<String, Value>, want: &[(String, Node)]) -> Result<(), String> {
	let keys: Vec<&String> = got.keys().collect();
	let want_keys: Vec<&String> = want.iter().map(|(k, _)| k).collect();
	if keys != want_keys {
		return Err(format!("at {}: keys {:?} but the block has {:?} (in this order)", at, keys, want_keys));
	}
	for ((k, g), (_, w)) in got.iter().zip(want) {
		let here = format!("{}/{:?}", at, k);
		match (g, w) {
			(Value::String(a), Node::Str(b)) if a == b => {}
			(Value::Number(a), Node::Int(b)) if a.as_i64() == Some(*b as i64) && !a.is_f64() => {}
			(Value::Object(a), Node::Map(b)) => same_tree(&here, a, b)?,
			_ => return Err(format!("at {}: {} but the block has {:?}", here, g, w)),
		}
	}
	Ok(())
}

fn same_meta(what: &str, got: &Option<Map<String, Value>>, want: &Option<Vec<(String, Node)>>) -> Result<(), String> {
	match (got, want) {
		(None, None) => Ok(()),
		(Some(g), Some(w)) => same_tree("", g, w).map_err(|e| format!("{}: {}", what, e)),
		(Some(g), None) => Err(format!("{}: metadata {:?} although the file has none", what, g)),
		(None, Some(_)) => Err(format!("{}: no metadata although the file has a metadata block", what)),
	}
}

/// (file without tail, its bytes up to the tail) of the first candidate of the synthetic set.
fn base() -> &'static Vec<u8> {
	static B: OnceLock<Vec<u8>> = OnceLock::new();
	B.get_or_init(|| {
		let spec = gen::candidates().into_iter().next().expect("candidate set");
		let (bytes, exp) = gen::build(&spec);
		bytes[..exp.tail_off].to_vec()
	})
}

pub fn file_of(want: &Option<Vec<(String, Node)>>) -> Vec<u8> {
	let mut file = base().clone();
	match want {
		Some(t) => file.extend(tail_of(t)),
		None => file.push(b'}'),
	}
	file
}

pub fn check(id: &str) -> Outcome {
	let want = match tree_of(id) {
		Ok(t) => t,
		Err(e) => return viol(e),
	};
	let file = file_of(&want);
	let parse = || match read_with(&file, None) {
		Ok(Ok(g)) => Ok(g),
		Ok(Err(e)) => Err(viol(format!("the reader rejected the file: {}", e))),
		Err(p) => Err(Panicked(format!("read: {}", p))),
	};
	let game = match parse() {
		Ok(g) => g,
		Err(o) => return o,
	};
	if let Err(m) = same_meta("metadata read from the .slp", &game.metadata, &want) {
		return viol(m);
	}
	match write_game(&game) {
		Ok(Ok(out)) if out == file => {}
		Ok(Ok(out)) => return viol(format!("writing the game back does not reproduce the file: {} (the metadata block starts at offset {})", first_diff(&out, &file), base().len())),
		Ok(Err(e)) => return viol(format!("the game cannot be written back: {}", e)),
		Err(p) => return viol(format!("the .slp writer panicked: {}", p)),
	}
	// the same file as a recorder that never patched the raw-length field leaves it (length 0: events run up to Game End):
	// the metadata element is still there and must still be read
	{
		let mut unpatched = file.clone();
		unpatched[11..15].copy_from_slice(&[0, 0, 0, 0]);
		match read_with(&unpatched, None) {
			Ok(Ok(g)) => {
				if let Err(m) = same_meta("metadata read from the .slp with a zero raw-length field", &g.metadata, &want) {
					return viol(m);
				}
			}
			Ok(Err(e)) => return viol(format!("the reader rejected the file with a zero raw-length field: {}", e)),
			Err(p) => return Panicked(format!("read (zero raw length): {}", p)),
		}
	}
	// .slpp: the JSON copy and the re-read game
	let archive = match guard(move || {
		let mut out = vec![];
		pp::write(&mut out, game, None).map(|_| out).map_err(|e| e.to_string())
	}) {
		Ok(Ok(a)) => a,
		Ok(Err(e)) => return viol(format!("writing the .slpp failed: {}", e)),
		Err(p) => return viol(format!("the .slpp writer panicked: {}", p)),
	};
	let entries = match tar_walk(&archive) {
		Ok(e) => e,
		Err(e) => return viol(format!("the .slpp is not a well-formed tar: {}", e)),
	};
	let Some(mj) = entries.iter().find(|e| e.name == "metadata.json") else { return viol("the .slpp has no metadata.json".to_string()) };
	let stored: Option<Map<String, Value>> = match serde_json::from_slice::<Value>(&mj.data) {
		Ok(Value::Null) => None,
		Ok(Value::Object(m)) => Some(m),
		Ok(other) => return viol(format!("metadata.json holds {}, neither an object nor null", other)),
		Err(e) => return viol(format!("metadata.json is not JSON: {}", e)),
	};
	if let Err(m) = same_meta("metadata.json of the .slpp", &stored, &want) {
		return viol(m);
	}
	let back = match guard(|| pp::read(Cursor::new(&archive), None).map_err(|e| e.to_string())) {
		Ok(Ok(g)) => g,
		Ok(Err(e)) => return viol(format!("the .slpp just written cannot be read: {}", e)),
		Err(p) => return viol(format!("the .slpp reader panicked: {}", p)),
	};
	if let Err(m) = same_meta("metadata read from the .slpp", &back.metadata, &want) {
		return viol(m);
	}
	Holds
}

/// Hard errors before a search: JSON maps keep insertion order in this build, the base file round-trips, the
/// encoder agrees with the metadata of the fixture the synthetic files are built from.
pub fn selfcheck() -> Result<(), String> {
	let v: Value = serde_json::from_str(r#"{"b":1,"a":2,"0":3}"#).map_err(|e| e.to_string())?;
	if v.as_object().map(|o| o.keys().cloned().collect::<Vec<_>>()) != Some(vec!["b".to_string(), "a".to_string(), "0".to_string()]) {
		return Err("(oracle) serde_json maps do not preserve insertion order in this build".to_string());
	}
	let mut a = vec![];
	enc_entries(&mut a, &[("k".to_string(), Node::Map(vec![("s".to_string(), Node::Str("v".to_string())), ("i".to_string(), Node::Int(-2))]))]);
	if a != b"U\x01k{U\x01sSU\x01vU\x01il\xff\xff\xff\xfe}}" {
		return Err(format!("(oracle) encoder self-test: {:02x?}", a));
	}
	let ids = candidates();
	for id in &ids {
		tree_of(id)?;
	}
	Ok(())
}
