//! Synthetic .slp generator: a deterministic `build(spec) -> (bytes, Expected)`, the case-id codec and the
//! structured candidate set.  Byte layouts come from tables_gen.rs (generated from spec/frame_layout.json),
//! never from peppi.  Game Start payload and metadata are lifted from a fixture and patched.
use crate::tables_gen::{Event, Field, Ty, END, ITEM, POST, PRE, START};
use std::sync::OnceLock;

pub const SIGNATURE: [u8; 11] = [0x7b, 0x55, 0x03, 0x72, 0x61, 0x77, 0x5b, 0x24, 0x55, 0x23, 0x6c];
pub const ICS: u8 = 14;

impl Ty {
	pub fn size(self) -> usize {
		match self {
			Ty::U8 | Ty::I8 => 1,
			Ty::U16 | Ty::I16 => 2,
			Ty::U32 | Ty::I32 | Ty::F32 => 4,
		}
	}
}

impl Field {
	pub fn present(&self, v: (u8, u8)) -> bool {
		self.since == (255, 255) || v >= self.since
	}
	/// big-endian value at the table offset of an event body (the bytes after the event header)
	pub fn be(&self, body: &[u8]) -> u64 {
		body[self.offset..self.offset + self.ty.size()].iter().fold(0u64, |a, b| (a << 8) | *b as u64)
	}
}

impl Event {
	pub fn exists(&self, v: (u8, u8)) -> bool {
		v >= self.exists_since
	}
	pub fn body_size(&self, v: (u8, u8)) -> usize {
		self.fields.iter().filter(|f| f.present(v)).map(|f| f.ty.size()).sum()
	}
	pub fn payload_size(&self, v: (u8, u8)) -> usize {
		self.header + self.body_size(v)
	}
}

pub fn game_end_size(v: (u8, u8)) -> usize {
	if v >= (3, 13) {
		6
	} else if v >= (2, 0) {
		2
	} else {
		1
	}
}

pub fn game_start_size(v: (u8, u8)) -> usize {
	const CLASSES: [((u8, u8), usize); 10] = [
		((3, 14), 760),
		((3, 12), 701),
		((3, 11), 700),
		((3, 9), 584),
		((3, 7), 420),
		((2, 0), 418),
		((1, 5), 417),
		((1, 3), 416),
		((1, 0), 352),
		((0, 0), 320),
	];
	CLASSES.iter().find(|(s, _)| v >= *s).unwrap().1
}

/// xorshift64*
pub struct Rng(pub u64);
impl Rng {
	pub fn new(seed: u64) -> Self {
		Rng(seed.wrapping_mul(0x9E37_79B9_7F4A_7C15) | 1)
	}
	pub fn next(&mut self) -> u64 {
		self.0 ^= self.0 >> 12;
		self.0 ^= self.0 << 25;
		self.0 ^= self.0 >> 27;
		self.0.wrapping_mul(0x2545_F491_4F6C_DD1D)
	}
	pub fn bytes(&mut self, n: usize) -> Vec<u8> {
		(0..n).map(|_| (self.next() >> 32) as u8).collect()
	}
	pub fn below(&mut self, n: usize) -> usize {
		((self.next() >> 33) as usize) % n.max(1)
	}
}

#[derive(Clone, Copy, Debug, PartialEq, Eq)]
pub enum EndKind {
	None,
	Single,
	Double,
}

#[derive(Clone, Debug)]
pub struct FrameSpec {
	pub id: i32,
	pub present: Vec<(u8, bool)>,
	pub items: u8,
}

#[derive(Clone, Debug)]
pub struct Spec {
	pub ver: (u8, u8, u8),
	pub players: [Option<u8>; 4],
	pub hist: u8,
	pub frames: Vec<FrameSpec>,
	/// (number of 512-byte blocks, actual size of the last block)
	pub gecko: Option<(u8, u16)>,
	pub end: EndKind,
	pub meta: bool,
	pub seed: u64,
}

pub fn chars_of(players: &[Option<u8>; 4]) -> Vec<(u8, bool)> {
	let mut out = vec![];
	for (p, c) in players.iter().enumerate() {
		if let Some(c) = c {
			out.push((p as u8, false));
			if *c == ICS {
				out.push((p as u8, true));
			}
		}
	}
	out
}

/// The frame list of history `h`, or None when the history does not apply to this version / port configuration.
pub fn history(h: u8, players: &[Option<u8>; 4], v: (u8, u8)) -> Option<Vec<FrameSpec>> {
	let chars = chars_of(players);
	let follower = chars.iter().copied().find(|c| c.1);
	let ics_leader = follower.map(|c| (c.0, false));
	let last_leader = *chars.iter().rev().find(|c| !c.1)?;
	let lone = chars.len() == 1;
	const ROWS: usize = 10; // more than 8, so that validity bitmaps span two bytes
	let straight: [i32; ROWS] = [-123, -122, -121, -120, -119, -118, -117, -116, -115, -114];
	let rolled: [i32; ROWS] = [-123, -122, -121, -122, -121, -120, -119, -118, -119, -118];
	let same: [i32; ROWS] = [-123, -122, -122, -121, -121, -121, -120, -119, -119, -118];
	let items = [0u8, 1, 2, 3, 0, 2, 1, 0, 3, 1];
	// before 2.2 a frame only exists through its first Pre event, so some character must be present
	let droppable = !lone || v >= (2, 2);
	if h == 6 {
		// no frames at all: Game End (if any) follows Game Start directly -- what writing a skip-frames result gives
		return Some(vec![]);
	}
	if h == 10 {
		// exactly one frame (the boundary between "no frames" and "frames"), everybody present, one item where items exist
		return Some(vec![FrameSpec { id: -123, present: chars.clone(), items: if v >= (3, 0) { 1 } else { 0 } }]);
	}
	if h == 9 {
		// long game: more than 2^16 frame rows (sizes and offsets that no longer fit 16 bits), everybody present, no items
		return Some((0..LONG_ROWS).map(|r| FrameSpec { id: -123 + r as i32, present: chars.clone(), items: 0 }).collect());
	}
	let (ids, absent): (&[i32; ROWS], Vec<((u8, bool), Vec<usize>)>) = match h {
		0 => (&straight, vec![]),
		1 if droppable => (&straight, vec![(ics_leader.unwrap_or(chars[0]), vec![2])]),
		2 => (&straight, vec![(follower?, vec![1, 2])]),
		3 if droppable => (&straight, vec![(follower.unwrap_or(last_leader), vec![5, 6, 7, 8, 9])]),
		4 if v >= (2, 2) => (&rolled, vec![]),
		5 if v >= (2, 2) => (&rolled, vec![(follower.unwrap_or(last_leader), vec![2, 3])]),
		// a rollback that replays the SAME frame id at once; a character absent from the first occurrence and present in the replay
		7 if v >= (2, 2) && !lone => (&same, vec![(follower.unwrap_or(last_leader), vec![1, 3, 7])]),
		// the Ice Climbers leader absent while the follower is present (and the other way round two rows later)
		8 => (&straight, vec![(ics_leader?, vec![0, 2, 5, 6]), (follower?, vec![4, 6])]),
		_ => return None,
	};
	Some(
		(0..ROWS)
			.map(|r| FrameSpec {
				id: ids[r],
				present: chars.iter().copied().filter(|c| !absent.iter().any(|(a, rows)| a == c && rows.contains(&r))).collect(),
				items: if v >= (3, 0) { items[r] } else { 0 },
			})
			.collect(),
	)
}

impl Spec {
	pub fn v2(&self) -> (u8, u8) {
		(self.ver.0, self.ver.1)
	}

	pub fn case_id(&self) -> String {
		let p: Vec<String> = self.players.iter().map(|c| c.map_or("-".to_string(), |c| c.to_string())).collect();
		let g = self.gecko.map_or("-".to_string(), |(n, a)| format!("{}x{}", n, a));
		let e = match self.end {
			EndKind::None => 0,
			EndKind::Single => 1,
			EndKind::Double => 2,
		};
		format!("v{}.{}.{}/p={}/h={}/g={}/e={}/m={}/seed={}", self.ver.0, self.ver.1, self.ver.2, p.join(","), self.hist, g, e, self.meta as u8, self.seed)
	}

	pub fn parse(id: &str) -> Result<Spec, String> {
		let bad = |what: &str| format!("bad case-id ({}): {}", what, id);
		let mut parts = id.split('/');
		let v: Vec<u8> = parts.next().and_then(|s| s.strip_prefix('v')).ok_or(bad("version"))?.split('.').map(|x| x.parse().map_err(|_| bad("version"))).collect::<Result<_, _>>()?;
		if v.len() != 3 {
			return Err(bad("version"));
		}
		let mut spec = Spec { ver: (v[0], v[1], v[2]), players: [None; 4], hist: 0, frames: vec![], gecko: None, end: EndKind::Single, meta: true, seed: 1 };
		for part in parts {
			let (k, val) = part.split_once('=').ok_or(bad("key=value"))?;
			match k {
				"p" => {
					let ps: Vec<&str> = val.split(',').collect();
					if ps.len() != 4 {
						return Err(bad("players"));
					}
					for (i, s) in ps.iter().enumerate() {
						spec.players[i] = if *s == "-" { None } else { Some(s.parse().map_err(|_| bad("players"))?) };
					}
				}
				"h" => spec.hist = val.parse().map_err(|_| bad("history"))?,
				"g" => {
					spec.gecko = if val == "-" {
						None
					} else {
						let (n, a) = val.split_once('x').ok_or(bad("gecko"))?;
						let (n, a): (u8, u16) = (n.parse().map_err(|_| bad("gecko"))?, a.parse().map_err(|_| bad("gecko"))?);
						if n == 0 || a == 0 || a > 512 {
							return Err(bad("gecko"));
						}
						Some((n, a))
					}
				}
				"e" => {
					spec.end = match val {
						"0" => EndKind::None,
						"1" => EndKind::Single,
						"2" => EndKind::Double,
						_ => return Err(bad("end")),
					}
				}
				"m" => spec.meta = val == "1",
				"seed" => spec.seed = val.parse().map_err(|_| bad("seed"))?,
				_ => return Err(bad("key")),
			}
		}
		spec.frames = history(spec.hist, &spec.players, spec.v2()).ok_or(bad("history not applicable"))?;
		Ok(spec)
	}
}

pub const VERSIONS: [(u8, u8); 21] = [
	(0, 1),
	(0, 2),
	(1, 0),
	(1, 2),
	(1, 4),
	(2, 0),
	(2, 1),
	(2, 2),
	(3, 0),
	(3, 2),
	(3, 5),
	(3, 6),
	(3, 7),
	(3, 8),
	(3, 9),
	(3, 10),
	(3, 11),
	(3, 12),
	(3, 13),
	(3, 15),
	(3, 16),
];
pub const PORTS: [[Option<u8>; 4]; 5] = [
	[Some(2), None, None, None],
	[Some(2), Some(9), None, None],
	[Some(2), Some(ICS), None, None],
	[Some(2), Some(9), Some(12), Some(20)],
	[Some(2), None, None, Some(ICS)],
];
pub const GECKOS: [Option<(u8, u16)>; 4] = [None, Some((1, 100)), Some((2, 512)), Some((3, 7))];

pub const LONG_ROWS: usize = 70_000;

/// A few long games (history 9: 70000 frames), for the properties where a 16-bit boundary in the frame count can matter.
pub fn long_candidates() -> Vec<Spec> {
	let mut out = vec![];
	for (v, players) in [((0u8, 1u8), PORTS[0]), ((2, 0), PORTS[1]), ((3, 16), PORTS[0])] {
		let frames = history(9, &players, v).unwrap();
		out.push(Spec { ver: (v.0, v.1, 0), players, hist: 9, frames, gecko: None, end: EndKind::Single, meta: true, seed: 900_000 + out.len() as u64 });
	}
	out
}

/// The structured candidate set (about 12k cases), in a fixed order.
pub fn candidates() -> Vec<Spec> {
	let mut out = vec![];
	for v in VERSIONS {
		for players in PORTS {
			for hist in (0..9u8).chain([10u8]) {
				let Some(frames) = history(hist, &players, v) else { continue };
				for gecko in GECKOS {
					if gecko.is_some() && v < (3, 3) {
						continue;
					}
					for end in [EndKind::Single, EndKind::None, EndKind::Double] {
						for meta in [true, false] {
							let seed = out.len() as u64 + 1;
							out.push(Spec { ver: (v.0, v.1, 0), players, hist, frames: frames.clone(), gecko, end, meta, seed });
						}
					}
				}
			}
		}
	}
	out
}

struct Fixture {
	start: Vec<u8>,
	meta: Vec<u8>,
}

/// Game Start payload (760 bytes) and the metadata tail of the v3.16 fixture, located by walking the file structure by hand.
fn fixture() -> &'static Fixture {
	static F: OnceLock<Fixture> = OnceLock::new();
	F.get_or_init(|| {
		let dir = std::env::var("PEPPI_FIXTURES").unwrap_or_else(|_| "/repo/tests/data".to_string());
		let path = format!("{}/v3.16.slp", dir);
		let b = std::fs::read(&path).unwrap_or_else(|e| panic!("cannot read fixture {}: {}", path, e));
		assert_eq!(&b[..11], &SIGNATURE[..]);
		let raw_len = u32::from_be_bytes([b[11], b[12], b[13], b[14]]) as usize;
		assert_eq!(b[15], 0x35);
		let tab = b[16] as usize;
		let mut gs_size = 0;
		let mut i = 17;
		while i + 2 < 16 + tab {
			if b[i] == 0x36 {
				gs_size = u16::from_be_bytes([b[i + 1], b[i + 2]]) as usize;
			}
			i += 3;
		}
		let gs = 16 + tab;
		assert_eq!(b[gs], 0x36);
		assert_eq!(gs_size, 760);
		let meta = b[15 + raw_len..].to_vec();
		assert!(meta.starts_with(b"U\x08metadata{") && meta.ends_with(b"}}"));
		Fixture { start: b[gs + 1..gs + 1 + gs_size].to_vec(), meta }
	})
}

pub fn game_start_payload(ver: (u8, u8, u8), players: &[Option<u8>; 4]) -> Vec<u8> {
	let mut p = fixture().start.clone();
	p.resize(game_start_size((ver.0, ver.1)), 0);
	p[0] = ver.0;
	p[1] = ver.1;
	p[2] = ver.2;
	for (port, c) in players.iter().enumerate() {
		let base = 0x64 + 0x24 * port;
		match c {
			Some(c) => {
				p[base] = *c;
				p[base + 1] = 0;
			}
			None => p[base + 1] = 3,
		}
	}
	if p.len() > 700 && p[700] > 1 {
		p[700] = 1;
	}
	p
}

#[derive(Clone, Copy, Debug, PartialEq, Eq)]
pub struct Ev {
	pub off: usize,
	pub code: u8,
	/// length including the code byte
	pub len: usize,
}

#[derive(Clone, Debug, Default)]
pub struct ExpRow {
	pub id: i32,
	pub start: Option<Vec<u8>>,
	pub end: Option<Vec<u8>>,
	/// aligned with Expected::chars; (pre body, post body) when the character had events in this row
	pub chars: Vec<Option<(Vec<u8>, Vec<u8>)>>,
	pub items: Vec<Vec<u8>>,
}

#[derive(Clone, Debug, Default)]
pub struct Expected {
	pub ver: (u8, u8, u8),
	pub players: [Option<u8>; 4],
	pub chars: Vec<(u8, bool)>,
	pub rows: Vec<ExpRow>,
	/// every event of the raw element, in file order (index 0 = payload sizes, 1 = Game Start)
	pub events: Vec<Ev>,
	pub table: Vec<(u8, u16)>,
	pub raw_len: usize,
	/// offset of the first byte after the raw element
	pub tail_off: usize,
	pub start: Vec<u8>,
	pub gecko: Option<(Vec<u8>, u32)>,
	pub end: Option<Vec<u8>>,
	pub n_end: usize,
	pub meta: bool,
}

fn emit(b: &mut Vec<u8>, events: &mut Vec<Ev>, code: u8, parts: &[&[u8]]) {
	let off = b.len();
	b.push(code);
	for p in parts {
		b.extend_from_slice(p);
	}
	events.push(Ev { off, code, len: b.len() - off });
}

pub fn build(spec: &Spec) -> (Vec<u8>, Expected) {
	build_ext(spec, 0, None)
}

/// `pad`: extra bytes appended to every known event payload (Game Start, Pre, Post, Game End, Frame Start, Item, Frame End);
/// `relabel`: version bytes written into Game Start instead of `spec.ver` (layout still follows `spec.ver`).
pub fn build_ext(spec: &Spec, pad: usize, relabel: Option<(u8, u8, u8)>) -> (Vec<u8>, Expected) {
	let v = spec.v2();
	let mut rng = Rng::new(spec.seed);
	let chars = chars_of(&spec.players);
	let mut exp = Expected { ver: relabel.unwrap_or(spec.ver), players: spec.players, chars: chars.clone(), meta: spec.meta, ..Default::default() };

	let mut start = game_start_payload(relabel.unwrap_or(spec.ver), &spec.players);
	start.extend(rng.bytes(pad));
	let gecko = if v >= (3, 3) { spec.gecko } else { None };
	let gecko_actual = gecko.map(|(n, last)| (n as u32 - 1) * 512 + last as u32);

	// payload table, in the order peppi's writer emits it (c01 compares byte for byte)
	let mut table: Vec<(u8, u16)> = vec![
		(0x36, start.len() as u16),
		(PRE.code, (PRE.payload_size(v) + pad) as u16),
		(POST.code, (POST.payload_size(v) + pad) as u16),
		(0x39, (game_end_size(v) + pad) as u16),
	];
	for ev in [&START, &ITEM, &END] {
		if ev.exists(v) {
			table.push((ev.code, (ev.payload_size(v) + pad) as u16));
		}
	}
	if let Some(a) = gecko_actual {
		table.push((0x3D, a as u16));
		table.push((0x10, 516));
	}

	let mut b: Vec<u8> = vec![];
	b.extend_from_slice(&SIGNATURE);
	b.extend_from_slice(&[0; 4]);
	let mut events: Vec<Ev> = vec![];
	let mut tab = vec![(3 * table.len() + 1) as u8];
	for (c, s) in &table {
		tab.push(*c);
		tab.extend_from_slice(&s.to_be_bytes());
	}
	emit(&mut b, &mut events, 0x35, &[&tab]);
	emit(&mut b, &mut events, 0x36, &[&start]);
	if let Some((n, last)) = gecko {
		let mut all = vec![];
		for k in 0..n {
			let data = rng.bytes(512);
			let is_last = k + 1 == n;
			let size = (if is_last { last } else { 512 }).to_be_bytes();
			emit(&mut b, &mut events, 0x10, &[&data, &size, &[0x3D, is_last as u8]]);
			all.extend(data);
		}
		exp.gecko = Some((all, gecko_actual.unwrap()));
	}
	for f in &spec.frames {
		let mut row = ExpRow { id: f.id, chars: vec![None; chars.len()], ..Default::default() };
		let id = f.id.to_be_bytes();
		let present: Vec<(usize, (u8, bool))> = chars.iter().copied().enumerate().filter(|(_, c)| f.present.contains(c)).collect();
		if START.exists(v) {
			let body = rng.bytes(START.body_size(v));
			emit(&mut b, &mut events, START.code, &[&id, &body, &rng.bytes(pad)]);
			row.start = Some(body);
		}
		let mut pres = vec![];
		for (_, c) in &present {
			let body = rng.bytes(PRE.body_size(v));
			emit(&mut b, &mut events, PRE.code, &[&id, &[c.0, c.1 as u8], &body, &rng.bytes(pad)]);
			pres.push(body);
		}
		if ITEM.exists(v) {
			for _ in 0..f.items {
				let body = rng.bytes(ITEM.body_size(v));
				emit(&mut b, &mut events, ITEM.code, &[&id, &body, &rng.bytes(pad)]);
				row.items.push(body);
			}
		}
		for ((k, c), pre) in present.iter().zip(pres) {
			let body = rng.bytes(POST.body_size(v));
			emit(&mut b, &mut events, POST.code, &[&id, &[c.0, c.1 as u8], &body, &rng.bytes(pad)]);
			row.chars[*k] = Some((pre, body));
		}
		if END.exists(v) {
			let body = rng.bytes(END.body_size(v));
			emit(&mut b, &mut events, END.code, &[&id, &body, &rng.bytes(pad)]);
			row.end = Some(body);
		}
		exp.rows.push(row);
	}
	// Game End: method, [lras initiator], [placements] -- legal values only
	let mut end = vec![[0u8, 1, 2, 3, 7][rng.below(5)]];
	if v >= (2, 0) {
		end.push([255u8, 0, 1, 2, 3][rng.below(5)]);
	}
	if v >= (3, 13) {
		for _ in 0..4 {
			end.push([255u8, 0, 1, 2, 3][rng.below(5)]);
		}
	}
	end.extend(rng.bytes(pad));
	exp.n_end = match spec.end {
		EndKind::None => 0,
		EndKind::Single => 1,
		EndKind::Double => 2,
	};
	for _ in 0..exp.n_end {
		emit(&mut b, &mut events, 0x39, &[&end]);
	}
	if exp.n_end > 0 {
		exp.end = Some(end);
	}
	exp.tail_off = b.len();
	exp.raw_len = b.len() - 15;
	b[11..15].copy_from_slice(&(exp.raw_len as u32).to_be_bytes());
	if spec.meta {
		b.extend_from_slice(&fixture().meta);
	} else {
		b.push(0x7d);
	}
	exp.events = events;
	exp.table = table;
	exp.start = start;
	(b, exp)
}
