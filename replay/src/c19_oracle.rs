//! c19: the fixed-width name fields (name tag, netplay name, connect code) decode as Shift-JIS up to the first NUL, bytes
//! after the NUL are ignored, an invalid sequence before it makes reading fail; normalisation maps U+FF01..U+FF5E,
//! U+3000, U+2019, U+201D to ASCII, leaves every other character alone and is idempotent.
//! Expected decodings come from encoding_rs called directly on the bytes before the first NUL (sjis::decode); field
//! offsets come from the spec tables.
//!
//! case-ids (a sub-case label may follow as a second argument):
//!   `nul/field=<tag|name|code>/len=<block>/port=<0..3>/k=<text bytes>/seed=<n>`    garbage after the NUL, or a full field
//!   `bad/field=../len=../port=../k=../seed=..`                                     an invalid sequence before the NUL
//!   `pair/field=../len=../port=../lead=<hex>`                                      all 256 second bytes after this byte
//!   `norm/lead=<hex>`                                                              normalisation of every char with this lead byte (00: single bytes)
use crate::c05_oracle::{end_block, start_block};
use crate::cases::{hex, id_get, mini_slp, EMPTY_META};
use crate::gen::Rng;
use crate::oracles::{guard, read_with, viol, Outcome};
use crate::sjis::{self, decode, until_nul};
use crate::spec_tables::{self as st, Layouts, Tail, Ty};
use peppi::game::shift_jis::MeleeString;
use std::collections::BTreeSet;
use std::sync::atomic::{AtomicUsize, Ordering};
use std::sync::Mutex;
use Outcome::*;

static N_VALID: AtomicUsize = AtomicUsize::new(0);
static N_INVALID: AtomicUsize = AtomicUsize::new(0);
static N_NORM: AtomicUsize = AtomicUsize::new(0);
static CHANGED: Mutex<BTreeSet<char>> = Mutex::new(BTreeSet::new());
static CHARS: AtomicUsize = AtomicUsize::new(0);

pub fn stats() -> String {
	format!(
		"{} field decodings compared, {} invalid fields rejected, {} one-char sequences normalised ({} distinct chars that change) in {} strings",
		N_VALID.load(Ordering::Relaxed),
		N_INVALID.load(Ordering::Relaxed),
		CHARS.load(Ordering::Relaxed),
		CHANGED.lock().unwrap().len(),
		N_NORM.load(Ordering::Relaxed)
	)
}

fn v(label: &str, msg: String) -> Outcome {
	Violated { extra: label.to_string(), msg: format!("[{}] {}", label, msg) }
}

const FIELDS: [(&str, &str); 3] = [("tag", "name_tag"), ("name", "netplay.name"), ("code", "netplay.code")];

fn tail_of<'a>(lay: &'a Layouts, field: &str) -> Result<(&'a Tail, usize), String> {
	let path = FIELDS.iter().find(|f| f.0 == field).ok_or(format!("bad case-id: field {:?}", field))?.1;
	let t = lay.start.tail(path);
	match t.ty {
		Ty::SjisCstr(n) => Ok((t, n)),
		_ => Err(format!("(oracle) {} is not a Shift-JIS field in the table", path)),
	}
}

/// What the parsed game says the field holds.
fn parsed(game: &peppi::game::immutable::Game, field: &str, port: usize) -> Result<String, String> {
	let p = game.start.players.iter().find(|p| p.port as usize == port).ok_or(format!("port {} is not listed", port + 1))?;
	let s = match field {
		"tag" => p.name_tag.as_ref(),
		"name" => p.netplay.as_ref().map(|n| &n.name),
		_ => p.netplay.as_ref().map(|n| &n.code),
	};
	s.map(|s| s.as_str().to_string()).ok_or(format!("port {} has no {}", port + 1, field))
}

struct Ctx<'a> {
	field: &'a str,
	port: usize,
	off: usize,
	n: usize,
	start: Vec<u8>,
	end: Vec<u8>,
}

fn ctx<'a>(lay: &'a Layouts, id: &'a str, seed: u64) -> Result<Ctx<'a>, String> {
	let bad = || format!("bad case-id: {}", id);
	let field = id_get(id, "field").ok_or_else(bad)?;
	let len: usize = id_get(id, "len").and_then(|x| x.parse().ok()).ok_or_else(bad)?;
	let port: usize = id_get(id, "port").and_then(|x| x.parse().ok()).filter(|p| *p < 4).ok_or_else(bad)?;
	let (t, n) = tail_of(lay, field)?;
	if len < t.min_len {
		return Err(format!("bad case-id: a block of {} bytes has no {}", len, field));
	}
	// all four ports occupied; which kinds they are rotates with the seed
	let types: String = (0..4).map(|p| ['H', 'C', 'D', 'H'][(p + seed as usize) % 4]).collect();
	let mut start = start_block(lay, len, &types, seed % 2 == 1, seed)?;
	// every other name field is empty, so that the field under test is the only Shift-JIS text in the file
	for other in lay.start.tails.iter().filter(|o| matches!(o.ty, Ty::SjisCstr(_)) && len >= o.min_len) {
		for p in 0..lay.start.ports {
			start[other.offset(p)..other.offset(p) + other.ty.width()].fill(0);
		}
	}
	// the shortest Game End block: nothing but the method, so that no other part of the reader is involved
	let end = end_block(lay, &mut Rng::new(seed), lay.end.classes[0].1);
	Ok(Ctx { field, port, off: t.offset(port), n, start, end })
}

/// One file with `content` in the field: the reader must agree with the reference decoding of the bytes before the NUL.
fn one(c: &Ctx, label: &str, content: &[u8]) -> Outcome {
	assert_eq!(content.len(), c.n, "(oracle) field content length");
	let mut start = c.start.clone();
	start[c.off..c.off + c.n].copy_from_slice(content);
	let file = mini_slp(&start, c.end.len(), Some(&c.end), EMPTY_META);
	let want = decode(until_nul(content));
	let got = match read_with(&file, None) {
		Ok(r) => r,
		Err(p) => return Panicked(format!("read [{}]: {}", label, p)),
	};
	match (got, want) {
		(Ok(game), Some(w)) => {
			let text = match guard(|| parsed(&game, c.field, c.port)) {
				Ok(Ok(t)) => t,
				Ok(Err(e)) => return v(label, e),
				Err(p) => return v(label, format!("peppi panicked while the parsed game was being viewed: {}", p)),
			};
			if text != w {
				return v(label, format!("field bytes {} parsed as {:?} but the bytes before the first NUL decode to {:?}", hex(content), text, w));
			}
			if game.start.bytes.0 != start {
				return v(label, "the retained start block differs from the file's".to_string());
			}
			N_VALID.fetch_add(1, Ordering::Relaxed);
			Holds
		}
		(Err(_), None) => {
			N_INVALID.fetch_add(1, Ordering::Relaxed);
			Holds
		}
		(Ok(game), None) => {
			let text = guard(|| parsed(&game, c.field, c.port));
			v(label, format!("field bytes {} are not valid Shift-JIS before the first NUL, but reading succeeded and gave {:?}", hex(content), text))
		}
		(Err(e), Some(w)) => v(label, format!("field bytes {} decode to {:?} but reading failed: {}", hex(content), w, e)),
	}
}

// ---------------------------------------------------------------------------------------------- nul

fn garbage_variants(rng: &mut Rng, n: usize) -> Vec<(String, Vec<u8>)> {
	let mut out: Vec<(String, Vec<u8>)> = vec![("zeros".to_string(), vec![0; n])];
	for b in [0xFFu8, 0x80, 0xFD, 0xFE, 0xA0, 0x81, 0xE0, 0xFC, 0x7F] {
		out.push((format!("all-{:02x}", b), vec![b; n]));
	}
	for k in 0..3 {
		out.push((format!("random{}", k), rng.bytes(n)));
	}
	let mut text = sjis::valid(rng, n);
	out.push(("text".to_string(), text.clone()));
	if n >= 2 {
		// a second NUL, then more
		text[n / 2] = 0;
		out.push(("text-nul-text".to_string(), text.clone()));
		// zeros with a lone lead byte at the very end of the field
		let mut z = vec![0; n];
		z[n - 1] = 0x81;
		out.push(("lead-last".to_string(), z));
	}
	out
}

fn nul_case(lay: &Layouts, id: &str, only: Option<&str>) -> Outcome {
	let bad = || viol(format!("bad case-id: {}", id));
	let Some(seed) = id_get(id, "seed").and_then(|x| x.parse::<u64>().ok()) else { return bad() };
	let Some(k) = id_get(id, "k").and_then(|x| x.parse::<usize>().ok()) else { return bad() };
	let c = match ctx(lay, id, seed) {
		Ok(c) => c,
		Err(e) => return viol(e),
	};
	if k > c.n {
		return bad();
	}
	let mut rng = Rng::new(seed * 64 + k as u64);
	let text = sjis::valid(&mut rng, k);
	if decode(&text).is_none() {
		return viol(format!("(oracle) generated text {} is not valid", hex(&text)));
	}
	let variants = if k == c.n { vec![("full".to_string(), vec![])] } else { garbage_variants(&mut rng, c.n - k - 1) };
	for (label, g) in variants {
		if only.map_or(false, |o| o != label) {
			continue;
		}
		let content = if k == c.n { text.clone() } else { sjis::field(&text, c.n, &g) };
		if until_nul(&content) != &text[..] {
			return viol("(oracle) the text does not end at the first NUL".to_string());
		}
		match one(&c, &label, &content) {
			Holds => {}
			o => return o,
		}
	}
	Holds
}

// ---------------------------------------------------------------------------------------------- bad

/// Sequences that are invalid wherever they stand (followed by anything), and lead bytes that are invalid when nothing
/// or a NUL follows.
const INVALID_ANYWHERE: [&[u8]; 12] = [&[0xA0], &[0xFD], &[0xFE], &[0xFF], &[0x81, 0x7F], &[0x81, 0xFD], &[0x82, 0x20], &[0xFC, 0xFC], &[0x85, 0x40], &[0x81, 0xFF], &[0xE0, 0x3F], &[0xEB, 0x40]];
const LONE_LEADS: [u8; 6] = [0x81, 0x9F, 0xE0, 0xEA, 0xFC, 0x88];

fn bad_case(lay: &Layouts, id: &str, only: Option<&str>) -> Outcome {
	let bad = || viol(format!("bad case-id: {}", id));
	let Some(seed) = id_get(id, "seed").and_then(|x| x.parse::<u64>().ok()) else { return bad() };
	let Some(k) = id_get(id, "k").and_then(|x| x.parse::<usize>().ok()) else { return bad() };
	let c = match ctx(lay, id, seed) {
		Ok(c) => c,
		Err(e) => return viol(e),
	};
	if k > c.n {
		return bad();
	}
	let mut rng = Rng::new(seed * 64 + k as u64 + 7);
	let mut subs: Vec<(String, Vec<u8>)> = vec![];
	// k bytes of text made of head + invalid + rest, then a NUL and zeros / garbage if there is room
	for inv in INVALID_ANYWHERE {
		if inv.len() > k {
			continue;
		}
		for pos in [0, (k - inv.len()) / 2, k - inv.len()] {
			let mut t = sjis::valid(&mut rng, pos);
			t.extend_from_slice(inv);
			t.extend(sjis::valid(&mut rng, k - pos - inv.len()));
			let g = if rng.below(2) == 0 { vec![0; c.n] } else { rng.bytes(c.n) };
			subs.push((format!("inv={}@{}", hex(inv), pos), sjis::field(&t, c.n, &g)));
		}
	}
	// a lead byte with nothing after it: last byte before the NUL, or last byte of a full field
	if k >= 1 {
		for lead in LONE_LEADS {
			let mut t = sjis::valid(&mut rng, k - 1);
			t.push(lead);
			subs.push((format!("lone={:02x}", lead), sjis::field(&t, c.n, &vec![0; c.n])));
		}
	}
	subs.dedup_by(|a, b| a.0 == b.0);
	for (label, content) in subs {
		if only.map_or(false, |o| o != label) {
			continue;
		}
		if decode(until_nul(&content)).is_some() {
			return v(&label, format!("(oracle) field {} was meant to be invalid but the reference decoder accepts it", hex(&content)));
		}
		match one(&c, &label, &content) {
			Holds => {}
			o => return o,
		}
	}
	Holds
}

// ---------------------------------------------------------------------------------------------- pair

fn pair_case(lay: &Layouts, id: &str, only: Option<&str>) -> Outcome {
	let bad = || viol(format!("bad case-id: {}", id));
	let Some(lead) = id_get(id, "lead").and_then(|x| u8::from_str_radix(x, 16).ok()) else { return bad() };
	let c = match ctx(lay, id, lead as u64) {
		Ok(c) => c,
		Err(e) => return viol(e),
	};
	let mut rng = Rng::new(lead as u64 + 1000);
	let head = sjis::valid(&mut rng, c.n - 2);
	for trail in 0..=255u8 {
		// at the start of the field, followed by a NUL; and as the last two bytes of a field without NUL
		let mut first = vec![0; c.n];
		first[0] = lead;
		first[1] = trail;
		let mut last = head.clone();
		last.extend_from_slice(&[lead, trail]);
		for (label, content) in [(format!("first={:02x}{:02x}", lead, trail), first), (format!("last={:02x}{:02x}", lead, trail), last)] {
			if only.map_or(false, |o| o != label) {
				continue;
			}
			match one(&c, &label, &content) {
				Holds => {}
				o => return o,
			}
		}
	}
	Holds
}

// ---------------------------------------------------------------------------------------------- norm

/// The statement's mapping, char by char.
pub fn norm_char(c: char) -> char {
	match c as u32 {
		x @ 0xFF01..=0xFF5E => char::from_u32(x - 0xFEE0).unwrap(),
		0x3000 => ' ',
		0x2019 => '\'',
		0x201D => '"',
		_ => c,
	}
}

/// Every (bytes, char) with this lead byte that the reference decoder maps to exactly one char; lead 0: single bytes.
fn chars_with_lead(lead: u8) -> Vec<(Vec<u8>, char)> {
	let one = |b: Vec<u8>| -> Option<(Vec<u8>, char)> {
		let s = decode(&b)?;
		let mut it = s.chars();
		match (it.next(), it.next()) {
			(Some(c), None) => Some((b, c)),
			_ => None,
		}
	};
	if lead == 0 {
		(1..=255u8).filter_map(|b| one(vec![b])).collect()
	} else if decode(&[lead]).is_some() {
		vec![] // a complete one-byte sequence, covered by lead 0
	} else {
		(0..=255u8).filter_map(|t| one(vec![lead, t])).collect()
	}
}

const ZO: [u8; 2] = [0x82, 0xBC];
const KAN: [u8; 2] = [0x8A, 0xBF];
const HW_A: [u8; 1] = [0xB1];
const FW_EXCL: [u8; 2] = [0x81, 0x49];
const FW_A: [u8; 2] = [0x82, 0x60];

fn norm_string(label: &str, bytes: &[u8], via_replay: Option<(&Layouts, usize)>) -> Result<(), Outcome> {
	let Some(text) = decode(bytes) else { return Err(v(label, format!("(oracle) {} is not valid Shift-JIS", hex(bytes)))) };
	let want: String = text.chars().map(norm_char).collect();
	let ms: MeleeString = match via_replay {
		None => match guard(|| MeleeString::try_from(bytes).map_err(|e| e.to_string())) {
			Ok(Ok(m)) => m,
			Ok(Err(e)) => return Err(v(label, format!("bytes {} decode to {:?} but MeleeString::try_from failed: {}", hex(bytes), text, e))),
			Err(p) => return Err(v(label, format!("MeleeString::try_from panicked on {}: {}", hex(bytes), p))),
		},
		Some((lay, port)) => {
			// the string as the name tag of a replay
			let t = lay.start.tail("name_tag");
			let len = lay.start.classes.iter().map(|c| c.1).find(|l| *l >= t.min_len).ok_or_else(|| viol("(oracle) no block length has a name tag".to_string()))?;
			let mut start = start_block(lay, len, "HHHH", false, 0).map_err(viol)?;
			let n = t.ty.width();
			start[t.offset(port)..t.offset(port) + n].copy_from_slice(&sjis::field(bytes, n, &vec![0xFF; n]));
			let file = mini_slp(&start, 1, Some(&end_block(lay, &mut Rng::new(1), 1)), EMPTY_META);
			match read_with(&file, None) {
				Ok(Ok(g)) => match g.start.players.iter().find(|p| p.port as usize == port).and_then(|p| p.name_tag.clone()) {
					Some(m) => m,
					None => return Err(v(label, format!("port {} has no name tag", port + 1))),
				},
				Ok(Err(e)) => return Err(v(label, format!("name tag {} decodes to {:?} but reading failed: {}", hex(bytes), text, e))),
				Err(p) => return Err(Panicked(format!("read [{}]: {}", label, p))),
			}
		}
	};
	if ms.as_str() != text {
		return Err(v(label, format!("bytes {} decoded as {:?}, the reference decoder says {:?}", hex(bytes), ms.as_str(), text)));
	}
	let got = match guard(|| ms.to_normalized()) {
		Ok(s) => s,
		Err(p) => return Err(v(label, format!("to_normalized panicked on {:?} ({}): {}", text, text.escape_unicode(), p))),
	};
	if got != want {
		return Err(v(label, format!("{:?} ({}) normalises to {:?} ({}), expected {:?}", text, text.escape_unicode(), got, got.escape_unicode(), want)));
	}
	let twice = match guard(|| MeleeString(got.clone()).to_normalized()) {
		Ok(s) => s,
		Err(p) => return Err(v(label, format!("to_normalized panicked on the normalised string {:?}: {}", got, p))),
	};
	if twice != got {
		return Err(v(label, format!("normalising {:?} twice gives {:?}, once gives {:?}", text, twice, got)));
	}
	N_NORM.fetch_add(1, Ordering::Relaxed);
	Ok(())
}

fn norm_case(lay: &Layouts, id: &str, only: Option<&str>) -> Outcome {
	let Some(lead) = id_get(id, "lead").and_then(|x| u8::from_str_radix(x, 16).ok()) else { return viol(format!("bad case-id: {}", id)) };
	for (b, c) in chars_with_lead(lead) {
		CHARS.fetch_add(1, Ordering::Relaxed);
		if norm_char(c) != c {
			CHANGED.lock().unwrap().insert(c);
		}
		let cat = |parts: &[&[u8]]| -> Vec<u8> { parts.iter().flat_map(|p| p.iter().copied()).collect() };
		let shapes: [(&str, Vec<u8>); 9] = [
			("alone", b.clone()),
			("zo+c", cat(&[&ZO, &b])),
			("kan+c+c", cat(&[&KAN, &b, &b])),
			("hw+c", cat(&[&HW_A, &b])),
			("c+excl", cat(&[&b, &FW_EXCL])),
			("a+c+zo+c", cat(&[b"a", &b, &ZO, &b])),
			("excl+c+kan", cat(&[&FW_EXCL, &b, &KAN])),
			("zo+zo+c+A+c", cat(&[&ZO, &ZO, &b, &FW_A, &b])),
			("kan+hw+c+zo", cat(&[&KAN, &HW_A, &b, &ZO])),
		];
		for (shape, bytes) in &shapes {
			let label = format!("{}:{}", shape, hex(&b));
			if only.map_or(false, |o| o != label) {
				continue;
			}
			if let Err(o) = norm_string(&label, bytes, None) {
				return o;
			}
		}
		// through a replay: the name tag holds zo c kan c
		let label = format!("tag:{}", hex(&b));
		if only.map_or(true, |o| o == label) {
			if let Err(o) = norm_string(&label, &cat(&[&ZO, &b, &KAN, &b]), Some((lay, b[0] as usize % 4))) {
				return o;
			}
		}
	}
	// the strings of the statement's examples
	if lead == 0 {
		for (label, bytes) in [("ex:zo-excl", vec![0x82, 0xBC, 0x81, 0x49]), ("ex:kan-A-B", vec![0x8A, 0xBF, 0x82, 0x60, 0x82, 0x61]), ("ex:hw-hash", vec![0xB1, 0x81, 0x94]), ("ex:empty", vec![])] {
			if only.map_or(false, |o| o != label) {
				continue;
			}
			for via in [None, Some((lay, 2))] {
				if let Err(o) = norm_string(label, &bytes, via) {
					return o;
				}
			}
		}
	}
	Holds
}

// ---------------------------------------------------------------------------------------------- driver

pub fn candidates(lay: &Layouts) -> Vec<String> {
	let mut out = vec![];
	const SEEDS: u64 = 4;
	for lead in 0..=255u8 {
		if lead == 0 || decode(&[lead]).is_none() {
			out.push(format!("norm/lead={:02x}", lead));
		}
	}
	for (field, _) in FIELDS {
		let (t, n) = tail_of(lay, field).expect("field");
		let classes: Vec<usize> = lay.start.classes.iter().map(|c| c.1).filter(|l| *l >= t.min_len).collect();
		for len in &classes {
			for port in 0..4 {
				for k in 0..=n {
					for s in 0..SEEDS {
						let seed = s * 4 + port as u64;
						out.push(format!("nul/field={}/len={}/port={}/k={}/seed={}", field, len, port, k, seed));
						if s < 2 {
							out.push(format!("bad/field={}/len={}/port={}/k={}/seed={}", field, len, port, k, seed));
						}
					}
				}
			}
		}
		for lead in 0..=255usize {
			out.push(format!("pair/field={}/len={}/port={}/lead={:02x}", field, classes[lead % classes.len()], lead % 4, lead));
		}
	}
	out
}

pub fn check(id: &str, only: Option<&str>) -> Outcome {
	let lay = st::load().expect("spec tables");
	match id.split('/').next() {
		Some("nul") => nul_case(lay, id, only),
		Some("bad") => bad_case(lay, id, only),
		Some("pair") => pair_case(lay, id, only),
		Some("norm") => norm_case(lay, id, only),
		_ => viol(format!("bad case-id: {}", id)),
	}
}

/// Hard errors before a search: tables, catalogue, the invalid catalogue really is invalid, every char the statement
/// names can be reached through Shift-JIS (so that the normalisation cases are not vacuous).
pub fn selfcheck() -> Result<&'static Layouts, String> {
	let lay = crate::c05_oracle::selfcheck()?;
	for (f, _) in FIELDS {
		tail_of(lay, f)?;
	}
	for inv in INVALID_ANYWHERE {
		for follow in [&b""[..], &b"A"[..], &[0x82, 0xA0][..], &[0x40][..]] {
			let mut b = b"x".to_vec();
			b.extend_from_slice(inv);
			b.extend_from_slice(follow);
			if decode(&b).is_some() {
				return Err(format!("(oracle) {} followed by {} is accepted by the reference decoder", hex(inv), hex(follow)));
			}
		}
	}
	for lead in LONE_LEADS {
		if decode(&[b'x', lead]).is_some() {
			return Err(format!("(oracle) lone lead byte {:02x} is accepted by the reference decoder", lead));
		}
	}
	let mut reachable: BTreeSet<char> = BTreeSet::new();
	for lead in 0..=255u8 {
		if lead == 0 || decode(&[lead]).is_none() {
			reachable.extend(chars_with_lead(lead).into_iter().map(|x| x.1));
		}
	}
	let targets: Vec<char> = (0xFF01..=0xFF5Eu32).chain([0x3000, 0x2019, 0x201D]).filter_map(char::from_u32).collect();
	let missing: Vec<String> = targets.iter().filter(|c| !reachable.contains(c)).map(|c| format!("U+{:04X}", *c as u32)).collect();
	if !missing.is_empty() {
		return Err(format!("(oracle) Shift-JIS cannot encode {:?}: the normalisation cases would not cover the statement", missing));
	}
	Ok(lay)
}
