//! Native checks for the .slpp container (C02, C07 .slpp half, C10 .slpp half, C18).
//! `slpp <file.slp> <variant> [compression]` — variants:
//!   roundtrip        .slp -> game -> .slpp -> game -> .slp  is the identity (C02)
//!   no-metadata      same with game.metadata = None (F2)
//!   zero-frames      same starting from a skip-frames read (F3)
//!   set-version M m  same with the start block's version bytes patched (e.g. 3 0 => F4)
//!   truncate N       .slpp cut N bytes after the ARROW1 magic must be rejected or read as the full game, within 5 s (F7)
//!   order            entry order / first entry / determinism (C18)
use std::io::Cursor;
use std::sync::mpsc;
use std::time::Duration;

fn compression(args: &[String]) -> Option<peppi::io::peppi::ser::Opts> {
	use arrow2::io::ipc::write::Compression;
	match args.iter().find(|a| a.as_str() == "lz4" || a.as_str() == "zstd") {
		Some(a) if a == "lz4" => Some(peppi::io::peppi::ser::Opts { compression: Some(Compression::LZ4) }),
		Some(_) => Some(peppi::io::peppi::ser::Opts { compression: Some(Compression::ZSTD) }),
		None => None,
	}
}

fn with_watchdog<T: Send + 'static>(f: impl FnOnce() -> T + Send + 'static, secs: u64) -> Option<std::thread::Result<T>> {
	let (tx, rx) = mpsc::channel();
	std::thread::spawn(move || {
		let r = std::panic::catch_unwind(std::panic::AssertUnwindSafe(f));
		let _ = tx.send(r);
	});
	rx.recv_timeout(Duration::from_secs(secs)).ok()
}

pub fn run(args: &[String]) -> i32 {
	let buf = std::fs::read(&args[0]).unwrap();
	let variant = args[1].as_str();
	let opts = compression(args);
	let mut src = buf.clone();
	if variant == "set-version" {
		// version bytes are the first 3 bytes of the Game Start payload: header 15 bytes, payloads event, then 0x36
		let table_len = src[16] as usize;
		let start_payload = 16 + table_len + 1;
		src[start_payload] = args[2].parse().unwrap();
		src[start_payload + 1] = args[3].parse().unwrap();
	}
	let read_opts = peppi::io::slippi::de::Opts { skip_frames: variant == "zero-frames", ..Default::default() };
	let game = match peppi::io::slippi::read(&mut Cursor::new(&src), Some(&read_opts)) {
		Ok(g) => g,
		Err(e) => {
			println!("slpp skipped: source does not parse ({})", e);
			return 0;
		}
	};
	let mut game = game;
	if variant == "no-metadata" {
		game.metadata = None;
	}
	// what the game serialises to as .slp (the reference)
	let mut reference = Vec::new();
	if let Err(e) = peppi::io::slippi::write(&mut reference, &game) {
		println!("slpp skipped: source game cannot be written as .slp ({})", e);
		return 0;
	}
	let hash = game.hash.clone();
	let quirks_dbg = format!("{:?}", game.quirks);
	let o2 = opts.clone();
	let written = with_watchdog(move || { let mut out = Vec::new(); peppi::io::peppi::write(&mut out, game, o2.as_ref()).map(|_| out).map_err(|e| e.to_string()) }, 20);
	let out = match written {
		Some(Ok(Ok(o))) => o,
		Some(Ok(Err(e))) => { println!("slpp VIOLATED: writing .slpp failed: {}", e); return 1; }
		Some(Err(_)) => { println!("slpp VIOLATED: the .slpp writer panicked ({} {})", args[0], args[1..].join(" ")); return 1; }
		None => { println!("slpp VIOLATED: the .slpp writer hangs"); return 1; }
	};
	if variant == "order" {
		let mut names = vec![];
		let mut ar = tar::Archive::new(Cursor::new(&out));
		for e in ar.entries().unwrap() { names.push(e.unwrap().path().unwrap().display().to_string()); }
		if &out[..10] != b"peppi.json" { println!("slpp VIOLATED: file does not start with the peppi.json signature"); return 1; }
		println!("slpp ok: entries {:?}", names);
		return 0;
	}
	let data = if variant == "truncate" {
		let magic = out.windows(8).position(|w| w == b"ARROW1\0\0").unwrap();
		let n: usize = args[2].parse().unwrap();
		out[..(magic + n).min(out.len())].to_vec()
	} else { out.clone() };
	let d2 = data.clone();
	let back = with_watchdog(move || peppi::io::peppi::read(Cursor::new(&d2), None).map_err(|e| e.to_string()), 5);
	let game2 = match back {
		None => { println!("slpp VIOLATED: reading the .slpp never returns (still running after 5 s) ({})", args[1..].join(" ")); return 1; }
		Some(Err(_)) => { println!("slpp VIOLATED: the .slpp reader panicked"); return 1; }
		Some(Ok(Err(e))) => {
			if variant == "truncate" { println!("slpp ok: truncated archive rejected: {}", e); return 0; }
			println!("slpp VIOLATED: the .slpp just written cannot be read back: {} ({})", e, args[1..].join(" "));
			return 1;
		}
		Some(Ok(Ok(g))) => g,
	};
	if game2.hash != hash || format!("{:?}", game2.quirks) != quirks_dbg {
		println!("slpp VIOLATED: hash / quirks changed across .slpp");
		return 1;
	}
	let mut again = Vec::new();
	peppi::io::slippi::write(&mut again, &game2).unwrap();
	if again != reference {
		println!("slpp VIOLATED: .slp -> .slpp -> .slp is not the identity ({} bytes vs {})", again.len(), reference.len());
		return 1;
	}
	println!("slpp ok: {} {}", args[0], args[1..].join(" "));
	0
}
