//! Oracles for the .slpp container over synthetic replays: c02 (.slp -> .slpp -> .slp lossless), c18 (the archive is a
//! tar that starts with peppi.json and whose entries agree), c07s (truncated archives), c10s (skip-frames read).
//! The archive is walked and rebuilt with the minimal tar code below, never with the `tar` crate peppi itself uses.
use crate::gen::{self, build, EndKind, Expected, Spec};
use crate::oracles::{first_diff, guard, opts, read_with, viol, write_game, Outcome, Progress};
use arrow2::io::ipc::write::Compression;
use peppi::game::immutable::Game;
use peppi::io::peppi as pp;
use std::io::Cursor;
use Outcome::*;

pub const COMPS: [(&str, Option<Compression>); 3] = [("none", None), ("lz4", Some(Compression::LZ4)), ("zstd", Some(Compression::ZSTD))];

// ---------------------------------------------------------------------------------------------- known findings

/// `PEPPI_KNOWN=F3,F4`: recorded findings that are not to be reported again.
pub fn known(tag: &str) -> bool {
	std::env::var("PEPPI_KNOWN").map_or(false, |v| v.split(',').any(|t| t.trim() == tag))
}

/// F4: the frame-end struct has no fields in 3.0..=3.6, and arrow2 refuses to build a StructArray without fields.
pub fn is_f4(v: (u8, u8), panic: &str) -> bool {
	(3, 0) <= v && v <= (3, 6) && panic.contains("at least one field")
}

/// F3: a game without frames is written without frames.arrow, and the reader insists on that entry.
pub fn is_f3(zero_frames: bool, err: &str) -> bool {
	zero_frames && err.contains("missing frames")
}

fn v(label: &str, msg: String) -> Outcome {
	Violated { extra: label.to_string(), msg: format!("[{}] {}", label, msg) }
}

// ---------------------------------------------------------------------------------------------- peppi calls

fn source(bytes: &[u8], skip: bool, hash: bool) -> Result<Game, Outcome> {
	match read_with(bytes, Some(&opts(skip, hash))) {
		Ok(Ok(g)) => Ok(g),
		Ok(Err(e)) => Err(viol(format!("the .slp reader rejected a well-formed file (skip_frames={}): {}", skip, e))),
		Err(p) => Err(Panicked(format!("read: {}", p))),
	}
}

/// What the game serialises to as .slp; None when it does not (C01's business, not ours).
fn reference(game: &Game) -> Option<Vec<u8>> {
	match write_game(game) {
		Ok(Ok(r)) => Some(r),
		_ => None,
	}
}

/// Ok(Some(archive)) | Ok(None): known finding F4, nothing to check | Err(violation)
fn slpp_write(label: &str, game: Game, comp: Option<Compression>, ver: (u8, u8)) -> Result<Option<Vec<u8>>, Outcome> {
	let o = pp::ser::Opts { compression: comp };
	let r = guard(move || {
		let mut out = vec![];
		pp::write(&mut out, game, Some(&o)).map(|_| out).map_err(|e| e.to_string())
	});
	match r {
		Ok(Ok(out)) => Ok(Some(out)),
		Ok(Err(e)) => Err(v(label, format!("writing the .slpp failed: {}", e))),
		Err(pn) if is_f4(ver, &pn) && known("F4") => Ok(None),
		Err(pn) => Err(v(label, format!("the .slpp writer panicked: {}", pn))),
	}
}

/// Ok(Ok(game)) | Ok(Err(reader error)) | Err(panic text); visible to the hang watchdog as sub-case `sub` while it runs.
fn slpp_read(p: &Progress, sub: usize, data: &[u8], skip: bool) -> Result<Result<Game, String>, String> {
	let o = pp::de::Opts { skip_frames: skip };
	p.timed(sub, || guard(|| pp::read(Cursor::new(data), Some(&o)).map_err(|e| e.to_string())))
}

/// The game read back from an archive that must be readable.  Ok(None): known finding F3.
fn slpp_read_valid(p: &Progress, sub: usize, label: &str, what: &str, data: &[u8], skip: bool, zero_frames: bool) -> Result<Option<Game>, Outcome> {
	match slpp_read(p, sub, data, skip) {
		Ok(Ok(g)) => Ok(Some(g)),
		Ok(Err(e)) if is_f3(zero_frames, &e) && known("F3") => Ok(None),
		Ok(Err(e)) => Err(v(label, format!("{} cannot be read{}: {}", what, if skip { " (skip_frames)" } else { "" }, e))),
		Err(pn) => Err(v(label, format!("the .slpp reader panicked on {}: {}", what, pn))),
	}
}

fn same_as_reference(label: &str, what: &str, g: &Game, reference: &[u8]) -> Result<(), Outcome> {
	match write_game(g) {
		Ok(Ok(again)) if again == reference => Ok(()),
		Ok(Ok(again)) => Err(v(label, format!("{} does not serialise to the .slp the original game serialises to: {}", what, first_diff(&again, reference)))),
		Ok(Err(e)) => Err(v(label, format!("{} cannot be written as .slp: {}", what, e))),
		Err(pn) => Err(v(label, format!("writing {} as .slp panicked: {}", what, pn))),
	}
}

macro_rules! tri {
	($e:expr) => {
		match $e {
			Ok(x) => x,
			Err(o) => return o,
		}
	};
}

// ---------------------------------------------------------------------------------------------- minimal tar

#[derive(Clone, Debug)]
pub struct TarEntry {
	pub name: String,
	pub header: Vec<u8>,
	pub data: Vec<u8>,
	/// offset of the first data byte in the archive that was walked (0 for an entry made here)
	pub data_off: usize,
}

fn octal(field: &[u8]) -> Result<usize, String> {
	let s: Vec<u8> = field.iter().copied().take_while(|b| *b != 0).collect();
	let s = String::from_utf8(s).map_err(|_| format!("octal field {:02x?} is not text", field))?;
	usize::from_str_radix(s.trim(), 8).map_err(|_| format!("octal field {:?} does not parse", s))
}

/// Sum of the header bytes with the checksum field read as eight spaces.
fn tar_cksum(h: &[u8]) -> usize {
	h.iter().enumerate().map(|(i, b)| if (148..156).contains(&i) { 32 } else { *b as usize }).sum()
}

fn set_size_and_cksum(h: &mut [u8], size: usize) {
	h[124..136].copy_from_slice(format!("{:011o}\0", size).as_bytes());
	let c = tar_cksum(h);
	h[148..156].copy_from_slice(format!("{:06o}\0 ", c).as_bytes());
}

/// A header of our own making (GNU style, regular file).
pub fn tar_header(name: &str, size: usize) -> Vec<u8> {
	tar_header_bytes(name.as_bytes(), size)
}

/// the same for a name that need not be UTF-8 (tar names are bytes)
pub fn tar_header_bytes(name: &[u8], size: usize) -> Vec<u8> {
	let mut h = vec![0u8; 512];
	h[..name.len()].copy_from_slice(name);
	h[100..108].copy_from_slice(b"0000644\0");
	h[108..116].copy_from_slice(b"0000000\0");
	h[116..124].copy_from_slice(b"0000000\0");
	h[136..148].copy_from_slice(b"00000000000\0");
	h[156] = b'0';
	h[257..265].copy_from_slice(b"ustar  \0");
	set_size_and_cksum(&mut h, size);
	h
}

/// Entries up to the first all-zero header; everything from there on must be zero, at least two blocks of it.
pub fn tar_walk(a: &[u8]) -> Result<Vec<TarEntry>, String> {
	if a.len() % 512 != 0 {
		return Err(format!("archive length {} is not a multiple of 512", a.len()));
	}
	let mut entries = vec![];
	let mut pos = 0;
	loop {
		if pos + 512 > a.len() {
			return Err(format!("archive ends at offset {} without a terminating zero block", pos));
		}
		let h = &a[pos..pos + 512];
		if h.iter().all(|b| *b == 0) {
			break;
		}
		let name = String::from_utf8_lossy(&h[..100].iter().copied().take_while(|b| *b != 0).collect::<Vec<u8>>()).to_string();
		let size = octal(&h[124..136]).map_err(|e| format!("entry {:?} at offset {}: size: {}", name, pos, e))?;
		let declared = octal(&h[148..156]).map_err(|e| format!("entry {:?} at offset {}: checksum: {}", name, pos, e))?;
		if declared != tar_cksum(h) {
			return Err(format!("entry {:?} at offset {}: header checksum {} but the header bytes sum to {}", name, pos, declared, tar_cksum(h)));
		}
		let data_off = pos + 512;
		let next = data_off + (size + 511) / 512 * 512;
		if next > a.len() {
			return Err(format!("entry {:?} at offset {}: {} bytes of data do not fit in the archive ({} bytes)", name, pos, size, a.len()));
		}
		entries.push(TarEntry { name, header: h.to_vec(), data: a[data_off..data_off + size].to_vec(), data_off });
		pos = next;
	}
	if a.len() - pos < 1024 || a[pos..].iter().any(|b| *b != 0) {
		return Err(format!("after the last entry (offset {}) there are {} bytes, not all zero or fewer than two zero blocks", pos, a.len() - pos));
	}
	Ok(entries)
}

/// The archive holding `entries`; a header is refreshed (size, checksum) only when its data changed length.
pub fn tar_build(entries: &[TarEntry]) -> Vec<u8> {
	let mut out = vec![];
	for e in entries {
		let mut h = e.header.clone();
		if octal(&h[124..136]).ok() != Some(e.data.len()) {
			set_size_and_cksum(&mut h, e.data.len());
		}
		out.extend_from_slice(&h);
		out.extend_from_slice(&e.data);
		out.resize((out.len() + 511) / 512 * 512, 0);
	}
	out.resize(out.len() + 1024, 0);
	out
}

// ---------------------------------------------------------------------------------------------- c02

const C02_VARIANTS: [&str; 3] = ["asis", "nometa", "zero"];

pub fn c02_label(_spec: &Spec, sub: usize) -> String {
	format!("{} h{} {}", COMPS[(sub / 6) % 3].0, (sub / 3) % 2, C02_VARIANTS[sub % 3])
}

fn c02_one(spec: &Spec, bytes: &[u8], p: &Progress, sub: usize, label: &str) -> Outcome {
	let (comp, hash, variant) = (COMPS[(sub / 6) % 3].1, (sub / 3) % 2 == 1, C02_VARIANTS[sub % 3]);
	let mut game = tri!(source(bytes, variant == "zero", hash));
	if variant == "nometa" {
		game.metadata = None;
	}
	let Some(reference) = reference(&game) else { return Holds };
	if variant == "asis" && reference != bytes {
		// the property is about the ORIGINAL bytes: when the game as parsed does not serialise to them, the game that went
		// through the .slpp cannot either (C01 fails on the same input, and for the same reason)
		return v(label, format!("the parsed game does not serialise to the original .slp ({}), so the game read back from its .slpp cannot: {}", if reference.len() == bytes.len() { "same length" } else { "different length" }, first_diff(&reference, bytes)));
	}
	let (want_hash, want_quirks, zero) = (game.hash.clone(), format!("{:?}", game.quirks), game.frames.len() == 0);
	let Some(out) = tri!(slpp_write(label, game, comp, spec.v2())) else { return Holds };
	let Some(back) = tri!(slpp_read_valid(p, sub, label, "the .slpp just written", &out, false, zero)) else { return Holds };
	if back.hash != want_hash {
		return v(label, format!("hash {:?} came back as {:?}", want_hash, back.hash));
	}
	if format!("{:?}", back.quirks) != want_quirks {
		return v(label, format!("quirks {} came back as {:?}", want_quirks, back.quirks));
	}
	tri!(same_as_reference(label, "the game read back from the .slpp", &back, &reference));
	// the same archive delivered in short reads (a pipe, a BufReader, a decompressor): the result may not depend on fragmentation
	for chunk in [7usize, 1000] {
		let o = pp::de::Opts { skip_frames: false };
		match p.timed(sub, || guard(|| pp::read(crate::oracles::Chunked { data: &out, pos: 0, chunk }, Some(&o)).map_err(|e| e.to_string()))) {
			Ok(Ok(g)) => tri!(same_as_reference(label, &format!("the game read back from the .slpp in reads of at most {} bytes", chunk), &g, &reference)),
			Ok(Err(e)) if is_f3(zero, &e) && known("F3") => {}
			Ok(Err(e)) => return v(label, format!("the .slpp just written cannot be read when the stream delivers at most {} bytes per read: {}", chunk, e)),
			Err(pn) => return v(label, format!("the .slpp reader panicked on reads of at most {} bytes: {}", chunk, pn)),
		}
	}
	Holds
}

/// `only`: the label of the one sub-case to run (replay of a witness).
pub fn c02(spec: &Spec, p: &Progress, only: Option<&str>) -> Outcome {
	let (bytes, _) = build(spec);
	let mut ran = 0;
	for sub in 0..18 {
		let label = c02_label(spec, sub);
		if only.map_or(false, |o| o != label) || (sub % 3 == 2 && spec.end == EndKind::None) {
			continue;
		}
		ran += 1;
		match c02_one(spec, &bytes, p, sub, &label) {
			Holds => {}
			o => return o,
		}
	}
	no_such(only, ran)
}

fn no_such(only: Option<&str>, ran: usize) -> Outcome {
	match only {
		Some(o) if ran == 0 => viol(format!("this case has no sub-case {:?}", o)),
		_ => Holds,
	}
}

// ---------------------------------------------------------------------------------------------- c18

const C18_VERSIONS: [([u8; 3], bool); 8] = [
	([1, 9, 9], false),
	([0, 0, 0], false),
	([1, 255, 255], false),
	([2, 0, 0], true),
	([2, 0, 1], true),
	([2, 1, 0], true),
	([3, 0, 0], true),
	([255, 255, 255], true),
];
const C18_INSERT: usize = 2;
const C18_VERSION: usize = 32;

fn c18_check_label(check: usize) -> String {
	match check {
		0 => "layout".to_string(),
		1 => "twice".to_string(),
		k if k < C18_VERSION => format!("insert@{}", k - C18_INSERT),
		j => C18_VERSIONS.get(j - C18_VERSION).map_or("?".to_string(), |(ver, _)| format!("version={}.{}.{}", ver[0], ver[1], ver[2])),
	}
}

/// sub = (2 * compression + zero-frames) << 16 | check
pub fn c18_label(_spec: &Spec, sub: usize) -> String {
	let var = sub >> 16;
	format!("{} {} {}", COMPS[(var / 2) % 3].0, if var % 2 == 1 { "zero" } else { "full" }, c18_check_label(sub & 0xffff))
}

/// JSON value of a serialisable thing after a trip through JSON text (so that f32 fields compare the way they are stored).
fn json_of(text: serde_json::Result<Vec<u8>>) -> Result<serde_json::Value, String> {
	let text = text.map_err(|e| format!("cannot serialise: {}", e))?;
	serde_json::from_slice(&text).map_err(|e| format!("cannot parse what was serialised: {}", e))
}

struct Want {
	hash: Option<String>,
	double_end: Option<bool>,
	start: Vec<u8>,
	end: Option<Vec<u8>>,
	gecko: Option<Vec<u8>>,
	frames: usize,
}

fn c18_layout(out: &[u8], entries: &[TarEntry], want: &Want, back: Option<&Game>) -> Result<(), String> {
	if out.len() < 10 || &out[..10] != b"peppi.json" {
		return Err(format!("the file starts with {:02x?}, not with \"peppi.json\"", &out[..out.len().min(10)]));
	}
	let mut names = vec!["peppi.json", "metadata.json", "start.json", "start.raw"];
	if want.end.is_some() {
		names.extend(["end.json", "end.raw"]);
	}
	if want.gecko.is_some() {
		names.push("gecko_codes.raw");
	}
	if want.frames > 0 {
		names.push("frames.arrow");
	}
	let got: Vec<&str> = entries.iter().map(|e| e.name.as_str()).collect();
	if got != names {
		return Err(format!("entries {:?} but a game with end: {}, gecko codes: {}, {} frames must give {:?}", got, want.end.is_some(), want.gecko.is_some(), want.frames, names));
	}
	// "zeroed GNU headers": apart from name, mode, size, checksum and the format magic, a header carries nothing - in particular
	// no modification time, owner or host data - so that the bytes depend on the game alone (written twice = identical bytes,
	// whenever and wherever)
	let blank = tar::Header::new_gnu();
	let blank = blank.as_bytes();
	for e in entries {
		for (what, lo, hi) in [("uid/gid", 108usize, 124usize), ("mtime", 136, 148), ("link name", 157, 257), ("owner names / device numbers / GNU extension fields", 265, 512)] {
			if e.header[lo..hi] != blank[lo..hi] {
				return Err(format!("header of {} carries {} ({:02x?}), a zeroed GNU header has {:02x?} there: the archive bytes would depend on more than the game", e.name, what, &e.header[lo..hi.min(lo + 12)], &blank[lo..hi.min(lo + 12)]));
			}
		}
		if &e.header[100..108] != b"0000644\0" {
			return Err(format!("header of {} has mode field {:02x?}, not 0000644", e.name, &e.header[100..108]));
		}
	}
	if tar_build(entries) != out {
		return Err("(oracle self-check) rebuilding the archive from its entries does not reproduce it: non-zero padding?".to_string());
	}
	let entry = |n: &str| entries.iter().find(|e| e.name == n).unwrap();
	let mut json = vec![];
	for e in entries.iter().filter(|e| e.name.ends_with(".json")) {
		let val: serde_json::Value = serde_json::from_slice(&e.data).map_err(|x| format!("{} is not JSON: {}", e.name, x))?;
		json.push((e.name.as_str(), val));
	}
	let js = |n: &str| &json.iter().find(|(k, _)| *k == n).unwrap().1;
	let pj = js("peppi.json");
	if pj.get("version") != Some(&serde_json::json!([2, 0, 0])) {
		return Err(format!("peppi.json version is {:?}, not [2,0,0]", pj.get("version")));
	}
	let got_hash = pj.get("slp_hash").map(|h| h.as_str().map(|s| s.to_string()));
	if got_hash != want.hash.clone().map(Some) {
		return Err(format!("peppi.json slp_hash is {:?} but the game's hash is {:?}", pj.get("slp_hash"), want.hash));
	}
	let want_quirks = want.double_end.map(|d| serde_json::json!({ "double_game_end": d }));
	if pj.get("quirks") != want_quirks.as_ref() {
		return Err(format!("peppi.json quirks is {:?} but the game's quirks give {:?}", pj.get("quirks"), want_quirks));
	}
	if let Some(extra) = pj.as_object().and_then(|o| o.keys().find(|k| !["version", "slp_hash", "quirks"].contains(&k.as_str()))) {
		return Err(format!("peppi.json has an unexpected key {:?}", extra));
	}
	if entry("start.raw").data != want.start {
		return Err(format!("start.raw differs from the game's start bytes: {}", first_diff(&entry("start.raw").data, &want.start)));
	}
	if let Some(end) = &want.end {
		if &entry("end.raw").data != end {
			return Err(format!("end.raw is {:02x?} but the game's end bytes are {:02x?}", entry("end.raw").data, end));
		}
	}
	if let Some(g) = &want.gecko {
		if &entry("gecko_codes.raw").data != g {
			return Err(format!("gecko_codes.raw differs from actual size (LE u32) ++ bytes: {}", first_diff(&entry("gecko_codes.raw").data, g)));
		}
	}
	let Some(back) = back else { return Ok(()) };
	if js("metadata.json") != &json_of(serde_json::to_vec(&back.metadata))? {
		return Err("metadata.json differs from the metadata the reader returns".to_string());
	}
	if js("start.json") != &json_of(serde_json::to_vec(&back.start))? {
		return Err(format!("start.json {} differs from the start the reader rebuilds from start.raw {}", js("start.json"), json_of(serde_json::to_vec(&back.start))?));
	}
	match (&back.end, want.end.is_some()) {
		(Some(e), true) => {
			if js("end.json") != &json_of(serde_json::to_vec(e))? {
				return Err(format!("end.json {} differs from the end the reader rebuilds from end.raw {}", js("end.json"), json_of(serde_json::to_vec(e))?));
			}
		}
		(None, false) => {}
		(e, w) => return Err(format!("the game has an end: {}, the reader returns one: {}", w, e.is_some())),
	}
	Ok(())
}

fn c18_variant(spec: &Spec, bytes: &[u8], p: &Progress, var: usize, only: Option<&str>, ran: &mut usize) -> Outcome {
	let (ci, skip) = (var / 2, var % 2 == 1);
	let comp = COMPS[ci].1;
	let label = |check: usize| c18_label(spec, var << 16 | check);
	let wanted = |check: usize| only.map_or(true, |o| o == label(check));
	let l0 = label(0);
	let game = tri!(source(bytes, skip, ci == 1));
	let Some(reference) = reference(&game) else { return Holds };
	let want = Want {
		hash: game.hash.clone(),
		double_end: game.quirks.map(|q| q.double_game_end),
		start: game.start.bytes.0.clone(),
		end: game.end.as_ref().map(|e| e.bytes.0.clone()),
		gecko: game.gecko_codes.as_ref().map(|g| [&g.actual_size.to_le_bytes()[..], &g.bytes[..]].concat()),
		frames: game.frames.len(),
	};
	let zero = want.frames == 0;
	let Some(out) = tri!(slpp_write(&l0, game, comp, spec.v2())) else {
		*ran += 1; // known finding: nothing to look at
		return Holds;
	};
	let entries = match tar_walk(&out) {
		Ok(e) => e,
		Err(e) => return v(&l0, e),
	};
	if wanted(0) {
		*ran += 1;
		let back = tri!(slpp_read_valid(p, var << 16, &l0, "the .slpp just written", &out, false, zero));
		match guard(|| c18_layout(&out, &entries, &want, back.as_ref())) {
			Ok(Ok(())) => {}
			Ok(Err(e)) => return v(&l0, e),
			Err(pn) => return v(&l0, format!("peppi panicked while the game read back was being serialised to JSON: {}", pn)),
		}
	}
	if wanted(0) {
		// what the reader reconstructs from the raw entries may not depend on how the stream delivers them
		for chunk in [1usize, 5] {
			let o = pp::de::Opts { skip_frames: false };
			match p.timed(var << 16, || guard(|| pp::read(crate::oracles::Chunked { data: &out, pos: 0, chunk }, Some(&o)).map_err(|e| e.to_string()))) {
				Ok(Ok(g)) => tri!(same_as_reference(&l0, &format!("the game read from the archive in reads of at most {} bytes", chunk), &g, &reference)),
				Ok(Err(e)) if is_f3(zero, &e) && known("F3") => {}
				Ok(Err(e)) => return v(&l0, format!("the archive cannot be read when the stream delivers at most {} bytes per read: {}", chunk, e)),
				Err(pn) => return v(&l0, format!("the .slpp reader panicked on reads of at most {} bytes: {}", chunk, pn)),
			}
		}
	}
	if wanted(1) {
		*ran += 1;
		let again = tri!(source(bytes, skip, ci == 1));
		let Some(out2) = tri!(slpp_write(&label(1), again, comp, spec.v2())) else { return Holds };
		if out2 != out {
			return v(&label(1), format!("writing the same game twice gives different archives: {}", first_diff(&out2, &out)));
		}
	}
	// one unknown entry at every position before frames.arrow (at the end too when there is no frames.arrow)
	let positions = match entries.iter().position(|e| e.name == "frames.arrow") {
		Some(i) => i,
		None => entries.len(),
	};
	for k in 0..=positions {
		let check = C18_INSERT + k;
		if !wanted(check) {
			continue;
		}
		*ran += 1;
		let l = label(check);
		let mut es = entries.clone();
		let junk: Vec<u8> = (0..700u32).map(|i| (i * 7 + 13) as u8).collect();
		// unknown entries come with all sorts of names (tar names are bytes): plain, in a sub-directory, not UTF-8, and the
		// "./" directory entry that `tar -cf x.slpp .` puts first -- rotating with the position and the case
		let (uname, udata): (&[u8], Vec<u8>) = match (k + spec.seed as usize) % 4 {
			0 => (b"unknown.bin", junk),
			1 => (b"extra/notes.txt", junk),
			2 => (b"caf\xe9.txt", junk),
			_ => (b"./", vec![]),
		};
		let mut uh = tar_header_bytes(uname, udata.len());
		if uname == b"./" {
			uh[156] = b'5'; // directory
			uh[100..108].copy_from_slice(b"0000755\0");
			set_size_and_cksum(&mut uh, 0);
		}
		es.insert(k, TarEntry { name: String::from_utf8_lossy(uname).to_string(), header: uh, data: udata, data_off: 0 });
		let with = tar_build(&es);
		let what = format!("the archive with an unknown entry {:?} before entry {}", String::from_utf8_lossy(uname), k);
		if let Some(g) = tri!(slpp_read_valid(p, var << 16 | check, &l, &what, &with, false, zero)) {
			tri!(same_as_reference(&l, &format!("the game read from {}", what), &g, &reference));
		}
	}
	for (j, (ver, accept)) in C18_VERSIONS.iter().enumerate() {
		let check = C18_VERSION + j;
		if !wanted(check) {
			continue;
		}
		*ran += 1;
		let l = label(check);
		let mut es = entries.clone();
		let Some(pj) = es.iter_mut().find(|e| e.name == "peppi.json") else { return v(&l, "no peppi.json entry".to_string()) };
		let mut val: serde_json::Value = match serde_json::from_slice(&pj.data) {
			Ok(x) => x,
			Err(e) => return v(&l, format!("peppi.json is not JSON: {}", e)),
		};
		val["version"] = serde_json::json!(ver);
		pj.data = serde_json::to_vec(&val).unwrap();
		let patched = tar_build(&es);
		match (slpp_read(p, var << 16 | check, &patched, false), accept) {
			(Ok(Err(_)), false) => {}
			(Ok(Ok(_)), false) => return v(&l, format!("an archive declaring format version {:?} was accepted", ver)),
			(Ok(Ok(g)), true) => tri!(same_as_reference(&l, &format!("the game read from an archive declaring format version {:?}", ver), &g, &reference)),
			(Ok(Err(e)), true) if is_f3(zero, &e) && known("F3") => {}
			(Ok(Err(e)), true) => return v(&l, format!("an archive declaring format version {:?} was rejected: {}", ver, e)),
			(Err(pn), _) => return v(&l, format!("the .slpp reader panicked on an archive declaring format version {:?}: {}", ver, pn)),
		}
	}
	Holds
}

pub fn c18(spec: &Spec, p: &Progress, only: Option<&str>) -> Outcome {
	let (bytes, _) = build(spec);
	let mut ran = 0;
	for var in 0..4 {
		if var % 2 == 1 && spec.end == EndKind::None {
			continue; // no Game End to skip to
		}
		match c18_variant(spec, &bytes, p, var, only, &mut ran) {
			Holds => {}
			o => return o,
		}
	}
	no_such(only, ran)
}

// ---------------------------------------------------------------------------------------------- c07s

/// Proper-prefix lengths: around every block boundary, the first 1600 bytes, the start of the frames.arrow data,
/// every 97th offset inside it, and the last 1200 offsets.
fn c07s_offsets(len: usize, arrow: Option<(usize, usize)>) -> Vec<usize> {
	let mut o: Vec<usize> = vec![];
	for k in 0..=len / 512 {
		o.extend([(k * 512).saturating_sub(1), k * 512, k * 512 + 1]);
	}
	o.extend(0..1600);
	if let Some((start, size)) = arrow {
		o.extend(start..=start + 64);
		o.extend((start..start + size).step_by(97));
	}
	o.extend(len.saturating_sub(1200)..len);
	o.retain(|x| *x < len);
	o.sort();
	o.dedup();
	o
}

/// sub = compression << 40 | prefix length
pub fn c07s_label(_spec: &Spec, sub: usize) -> String {
	format!("{} {}", COMPS[(sub >> 40) % 3].0, sub & ((1 << 40) - 1))
}

pub fn c07s(spec: &Spec, p: &Progress, only: Option<&str>) -> Outcome {
	let (bytes, _) = build(spec);
	let only: Option<(&str, usize)> = match only {
		None => None,
		Some(o) => match o.split_once(' ').and_then(|(c, n)| n.parse().ok().map(|n| (c, n))) {
			Some(x) if COMPS.iter().any(|c| c.0 == x.0) => Some(x),
			_ => return viol(format!("sub-case {:?} is not \"<none|lz4|zstd> <prefix length>\"", o)),
		},
	};
	for (ci, (cname, comp)) in COMPS.iter().enumerate() {
		if only.map_or(false, |(c, _)| c != *cname) {
			continue;
		}
		let game = tri!(source(&bytes, false, false));
		let Some(reference) = reference(&game) else { return Holds };
		let Some(out) = tri!(slpp_write(cname, game, *comp, spec.v2())) else { continue };
		let offs = match only {
			Some((_, n)) if n < out.len() => vec![n],
			Some((_, n)) => return viol(format!("prefix length {} is not a proper prefix of a {}-byte archive", n, out.len())),
			None => {
				let entries = match tar_walk(&out) {
					Ok(e) => e,
					Err(e) => return v(cname, e),
				};
				c07s_offsets(out.len(), entries.iter().find(|e| e.name == "frames.arrow").map(|e| (e.data_off, e.data.len())))
			}
		};
		for n in offs {
			let label = format!("{} {}", cname, n);
			match slpp_read(p, ci << 40 | n, &out[..n], false) {
				Ok(Err(_)) => {}
				Ok(Ok(g)) => match write_game(&g) {
					Ok(Ok(again)) if again == reference => {}
					Ok(Ok(again)) => return v(&label, format!("the first {} of {} bytes were read as a game other than the one written ({} frames): {}", n, out.len(), g.frames.len(), first_diff(&again, &reference))),
					Ok(Err(e)) => return v(&label, format!("the first {} of {} bytes were read as a game that cannot be written as .slp: {}", n, out.len(), e)),
					Err(pn) => return v(&label, format!("the first {} of {} bytes were read as a game whose .slp serialisation panics: {}", n, out.len(), pn)),
				},
				Err(pn) => return v(&label, format!("the .slpp reader panicked on the first {} of {} bytes: {}", n, out.len(), pn)),
			}
		}
	}
	Holds
}

// ---------------------------------------------------------------------------------------------- c10s

pub fn c10s_label(_spec: &Spec, sub: usize) -> String {
	COMPS[sub % 3].0.to_string()
}

fn c10s_one(spec: &Spec, bytes: &[u8], exp: &Expected, p: &Progress, ci: usize) -> Outcome {
	let (cname, comp) = COMPS[ci];
	let game = tri!(source(bytes, false, false));
	let zero = game.frames.len() == 0;
	let Some(out) = tri!(slpp_write(cname, game, comp, spec.v2())) else { return Holds };
	let Some(full) = tri!(slpp_read_valid(p, ci, cname, "the .slpp just written", &out, false, zero)) else { return Holds };
	let Some(g) = tri!(slpp_read_valid(p, ci, cname, "the .slpp just written", &out, true, zero)) else { return Holds };
	let ends = |x: &Game| x.end.as_ref().map(|e| e.bytes.0.clone());
	if g.start.bytes != full.start.bytes || g.start.bytes.0 != exp.start {
		return v(cname, "start bytes of the skip_frames read differ from the full read / the bytes written".to_string());
	}
	if ends(&g) != ends(&full) || ends(&g) != exp.end {
		return v(cname, format!("end bytes of the skip_frames read are {:02x?}, the full read has {:02x?}, the file {:02x?}", ends(&g), ends(&full), exp.end));
	}
	if g.metadata != full.metadata {
		return v(cname, "metadata of the skip_frames read differs from the full read".to_string());
	}
	if g.gecko_codes != full.gecko_codes {
		return v(cname, "gecko codes of the skip_frames read differ from the full read".to_string());
	}
	if g.frames.len() != 0 {
		return v(cname, format!("the skip_frames read has {} frames", g.frames.len()));
	}
	let ports: Vec<(u8, bool)> = g.frames.ports.iter().map(|x| (x.port as u8, x.follower.is_some())).collect();
	let want_ports: Vec<(u8, bool)> = exp.players.iter().enumerate().filter_map(|(i, c)| c.map(|c| (i as u8, c == gen::ICS))).collect();
	if ports != want_ports {
		return v(cname, format!("the skip_frames read has ports (port, has follower) {:?} but the start block says {:?}", ports, want_ports));
	}
	let slp = match write_game(&g) {
		Ok(Ok(s)) => s,
		Ok(Err(e)) => return v(cname, format!("the skip_frames game cannot be written as .slp: {}", e)),
		Err(pn) => return v(cname, format!("writing the skip_frames game as .slp panicked: {}", pn)),
	};
	let h = match read_with(&slp, None) {
		Ok(Ok(h)) => h,
		Ok(Err(e)) => return v(cname, format!("the .slp written from the skip_frames game cannot be read: {}", e)),
		Err(pn) => return v(cname, format!("the .slp reader panicked on the .slp written from the skip_frames game: {}", pn)),
	};
	if h.start.bytes != g.start.bytes || ends(&h) != ends(&g) || h.metadata != g.metadata {
		return v(cname, format!("start / end / metadata changed across the .slp written from the skip_frames game (end {:02x?} vs {:02x?})", ends(&h), ends(&g)));
	}
	Holds
}

pub fn c10s(spec: &Spec, p: &Progress, only: Option<&str>) -> Outcome {
	if spec.end == EndKind::None {
		return Holds;
	}
	let (bytes, exp) = build(spec);
	let mut ran = 0;
	for ci in 0..3 {
		if only.map_or(false, |o| o != COMPS[ci].0) {
			continue;
		}
		ran += 1;
		match c10s_one(spec, &bytes, &exp, p, ci) {
			Holds => {}
			o => return o,
		}
	}
	no_such(only, ran)
}

/// Diagnostic (`c07s-scan <case-id> <none|lz4|zstd>`): EVERY proper prefix of the archive, not the sampled set, classified;
/// the prefix lengths on which the reader panics are listed as ranges.  No watchdog: meant for a reader known to return.
pub fn c07s_scan(spec: &Spec, cname: &str) -> i32 {
	std::panic::set_hook(Box::new(|_| {}));
	let Some((_, comp)) = COMPS.iter().find(|c| c.0 == cname) else {
		eprintln!("compression {:?} is not one of none, lz4, zstd", cname);
		return 3;
	};
	let (bytes, _) = build(spec);
	let Ok(game) = source(&bytes, false, false) else { return 3 };
	let Some(reference) = reference(&game) else { return 3 };
	let out = match slpp_write(cname, game, *comp, spec.v2()) {
		Ok(Some(o)) => o,
		_ => {
			println!("c07s-scan: the archive cannot be written");
			return 1;
		}
	};
	if let Ok(entries) = tar_walk(&out) {
		for e in &entries {
			println!("entry {:16} data at {}..{}", e.name, e.data_off, e.data_off + e.data.len());
		}
	}
	let (mut errs, mut full, mut other) = (0, 0, vec![]);
	let mut panics: Vec<(usize, usize, String)> = vec![];
	for n in 0..out.len() {
		let o = pp::de::Opts { skip_frames: false };
		match guard(|| pp::read(Cursor::new(&out[..n]), Some(&o)).map_err(|e| e.to_string())) {
			Ok(Err(_)) => errs += 1,
			Ok(Ok(g)) => match write_game(&g) {
				Ok(Ok(again)) if again == reference => full += 1,
				_ => other.push(n),
			},
			Err(pn) => match panics.last_mut() {
				Some((_, hi, _)) if *hi + 1 == n => *hi = n,
				_ => panics.push((n, n, pn)),
			},
		}
	}
	println!("c07s-scan {} {}: {} prefixes: {} rejected, {} read as the full game, {} read as another game {:?}, {} panic", spec.case_id(), cname, out.len(), errs, full, other.len(), &other[..other.len().min(8)], panics.iter().map(|p| p.1 - p.0 + 1).sum::<usize>());
	for (lo, hi, text) in &panics {
		println!("  panic on prefix lengths {}..={}: {}", lo, hi, text);
	}
	(!panics.is_empty() || !other.is_empty()) as i32
}
