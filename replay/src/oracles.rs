//! Native oracles over synthetic replays (see gen.rs) and the parallel witness-search driver.
//! Every call into peppi runs under catch_unwind; a panic is reported as such (it counts against the
//! no-panic property c06 only) and never escapes the tool.
use crate::gen::{self, build, build_ext, Expected, Rng, Spec};
use crate::tables_gen::{self as tb, Event, END, ITEM, POST, PRE, START};
use arrow2::array::MutableArray;
use peppi::frame::immutable as im;
use peppi::game::immutable::Game;
use peppi::io::slippi::de::{self, Opts};
use std::io::{Cursor, Read, Seek, SeekFrom};
use std::panic::{catch_unwind, AssertUnwindSafe};
use std::sync::atomic::{AtomicU64, AtomicUsize, Ordering};
use std::sync::Mutex;
use std::time::Instant;

pub enum Outcome {
	Holds,
	/// `extra`: arguments to append to the case-id so that a replay runs exactly the failing sub-case
	Violated { extra: String, msg: String },
	Panicked(String),
}
use Outcome::*;

pub(crate) fn viol(msg: String) -> Outcome {
	Violated { extra: String::new(), msg }
}

/// Per-worker progress, read by the hang watchdog.
pub struct Progress {
	case: AtomicUsize,
	pub(crate) sub: AtomicUsize,
	/// milliseconds since search start + 1 when the worker entered a peppi call; 0 = not inside one
	since: AtomicU64,
	t0: Instant,
}

impl Progress {
	fn new(t0: Instant) -> Self {
		Progress { case: AtomicUsize::new(0), sub: AtomicUsize::new(0), since: AtomicU64::new(0), t0 }
	}

	/// Runs `f` (a peppi call that may never return) as sub-case `sub`, visible to the hang watchdog while it runs.
	pub(crate) fn timed<T>(&self, sub: usize, f: impl FnOnce() -> T) -> T {
		self.sub.store(sub, Ordering::Relaxed);
		self.since.store(self.t0.elapsed().as_millis() as u64 + 1, Ordering::Release);
		let r = f();
		self.since.store(0, Ordering::Release);
		r
	}
}

pub const HANG_MS: u64 = 10_000;

fn panic_text(p: Box<dyn std::any::Any + Send>) -> String {
	p.downcast_ref::<&str>().map(|s| s.to_string()).or_else(|| p.downcast_ref::<String>().cloned()).unwrap_or_else(|| "panic".to_string())
}

pub(crate) fn guard<T>(f: impl FnOnce() -> T) -> Result<T, String> {
	catch_unwind(AssertUnwindSafe(f)).map_err(panic_text)
}

pub(crate) fn opts(skip_frames: bool, compute_hash: bool) -> Opts {
	Opts { skip_frames, compute_hash, ..Default::default() }
}

/// Ok(Ok(game)) | Ok(Err(reader error)) | Err(panic text)
pub(crate) fn read_with(bytes: &[u8], o: Option<&Opts>) -> Result<Result<Game, String>, String> {
	guard(|| peppi::io::slippi::read(Cursor::new(bytes), o).map_err(|e| e.to_string()))
}

/// Parse a file that is valid by construction.
pub(crate) fn parse_valid(bytes: &[u8]) -> Result<Game, Outcome> {
	match read_with(bytes, None) {
		Ok(Ok(g)) => Ok(g),
		Ok(Err(e)) => Err(viol(format!("the reader rejected a well-formed file: {}", e))),
		Err(p) => Err(Panicked(format!("read: {}", p))),
	}
}

pub(crate) fn write_game(game: &Game) -> Result<Result<Vec<u8>, String>, String> {
	guard(|| {
		let mut out = vec![];
		peppi::io::slippi::write(&mut out, game).map(|_| out).map_err(|e| e.to_string())
	})
}

/// Turns Result<Result<(), String>, String> (outer = panic) into an Outcome.  Only a panic of the READER is set aside as
/// "no-panic property only" (Panicked); a panic while writing or viewing a game that was read successfully means the
/// property under test has no value to compare, and is reported as its violation.
fn outcome(r: Result<Result<(), String>, String>) -> Outcome {
	match r {
		Ok(Ok(())) => Holds,
		Ok(Err(msg)) => viol(msg),
		Err(p) => viol(format!("peppi panicked while the parsed game was being viewed: {}", p)),
	}
}

// ---------------------------------------------------------------------------------------------- c03

fn check_fields(what: &str, ev: &Event, v: (u8, u8), body: &[u8], get: impl Fn(usize) -> Option<u64>) -> Result<(), String> {
	for (k, f) in ev.fields.iter().enumerate() {
		let want = f.present(v).then(|| f.be(body));
		let got = get(k);
		if want != got {
			return Err(format!("{} field {}: parsed {:x?} but the file holds {:x?} (None = absent at this version)", what, f.path, got, want));
		}
	}
	Ok(())
}

fn version_of(game: &Game) -> (u8, u8, u8) {
	let v = game.start.slippi.version;
	(v.0, v.1, v.2)
}

/// Every field of every present character / start / item / end row equals the bytes written, and is absent before `since`.
pub fn c03_game(game: &Game, exp: &Expected) -> Result<(), String> {
	let v = (exp.ver.0, exp.ver.1);
	if version_of(game) != exp.ver {
		return Err(format!("version parsed as {:?}, file says {:?}", version_of(game), exp.ver));
	}
	if game.frames.len() != exp.rows.len() {
		return Err(format!("{} frame rows parsed, {} frames written", game.frames.len(), exp.rows.len()));
	}
	for (i, row) in exp.rows.iter().enumerate() {
		let f = game.frames.transpose_one(i, game.start.slippi.version);
		if f.id != row.id {
			return Err(format!("row {}: id {} but the file has {}", i, f.id, row.id));
		}
		for (c, bodies) in exp.chars.iter().zip(&row.chars) {
			let Some((pre, post)) = bodies else { continue };
			let pd = f.ports.iter().find(|p| p.port as u8 == c.0).ok_or(format!("row {}: no data for port {}", i, c.0))?;
			let d = if c.1 { pd.follower.as_ref().ok_or(format!("row {}: no follower data for port {}", i, c.0))? } else { &pd.leader };
			let who = format!("row {} port {}{}", i, c.0, if c.1 { " follower" } else { "" });
			check_fields(&format!("{} pre", who), &PRE, v, pre, |k| tb::pre_row(&d.pre, k))?;
			check_fields(&format!("{} post", who), &POST, v, post, |k| tb::post_row(&d.post, k))?;
		}
		match (&row.start, &f.start) {
			(Some(body), Some(s)) => check_fields(&format!("row {} start", i), &START, v, body, |k| tb::start_row(s, k))?,
			(None, None) => {}
			(w, g) => return Err(format!("row {}: frame start written {} parsed {}", i, w.is_some(), g.is_some())),
		}
		match (&row.end, &f.end) {
			(Some(body), Some(e)) => check_fields(&format!("row {} end", i), &END, v, body, |k| tb::end_row(e, k))?,
			(None, None) => {}
			(w, g) => return Err(format!("row {}: frame end written {} parsed {}", i, w.is_some(), g.is_some())),
		}
		match (ITEM.exists(v), &f.items) {
			(true, Some(items)) => {
				if items.len() != row.items.len() {
					return Err(format!("row {}: {} items parsed, {} written", i, items.len(), row.items.len()));
				}
				for (j, (body, it)) in row.items.iter().zip(items).enumerate() {
					check_fields(&format!("row {} item {}", i, j), &ITEM, v, body, |k| tb::item_row(it, k))?;
				}
			}
			(false, None) => {}
			(w, g) => return Err(format!("row {}: items exist at this version: {}, parsed: {}", i, w, g.is_some())),
		}
	}
	Ok(())
}

pub fn c03(spec: &Spec, _p: &Progress) -> Outcome {
	let (bytes, exp) = build(spec);
	let game = match parse_valid(&bytes) {
		Ok(g) => g,
		Err(o) => return o,
	};
	outcome(guard(|| c03_game(&game, &exp)))
}

// ---------------------------------------------------------------------------------------------- c04

fn check_validity(what: &str, v: &Option<arrow2::bitmap::Bitmap>, rows: usize, present: impl Fn(usize) -> bool) -> Result<(), String> {
	if let Some(b) = v {
		if b.len() != rows {
			return Err(format!("{}: validity has {} entries for {} rows", what, b.len(), rows));
		}
	}
	for i in 0..rows {
		let got = v.as_ref().map_or(true, |b| b.get_bit(i));
		if got != present(i) {
			return Err(format!("{} row {}: marked {} but it {} events in the file", what, i, if got { "present" } else { "absent" }, if present(i) { "had" } else { "had no" }));
		}
	}
	Ok(())
}

fn check_cols(what: &str, ev: &Event, v: (u8, u8), rows: usize, len: impl Fn(usize) -> Option<usize>) -> Result<(), String> {
	for (k, f) in ev.fields.iter().enumerate() {
		match (f.present(v), len(k)) {
			(true, Some(n)) if n == rows => {}
			(false, None) => {}
			(w, g) => return Err(format!("{} column {}: {:?} entries (None = no column) for {} rows; field exists at this version: {}", what, f.path, g, rows, w)),
		}
	}
	Ok(())
}

/// Row alignment: ids in file order, presence exactly where events were, one entry per row in every column, items per row.
pub fn c04_game(game: &Game, exp: &Expected) -> Result<(), String> {
	let v = (exp.ver.0, exp.ver.1);
	let fr = &game.frames;
	let rows = exp.rows.len();
	let ids: Vec<i32> = fr.id.values().to_vec();
	let want: Vec<i32> = exp.rows.iter().map(|r| r.id).collect();
	if ids != want || fr.id.validity().is_some() {
		return Err(format!("frame ids {:?} but the file has {:?}", ids, want));
	}
	let ports: Vec<(u8, bool)> = fr.ports.iter().map(|p| (p.port as u8, p.follower.is_some())).collect();
	let want_ports: Vec<(u8, bool)> = exp.players.iter().enumerate().filter_map(|(p, c)| c.map(|c| (p as u8, c == gen::ICS))).collect();
	if ports != want_ports {
		return Err(format!("ports (port, has follower) {:?} but Game Start says {:?}", ports, want_ports));
	}
	for (k, c) in exp.chars.iter().enumerate() {
		let pd = fr.ports.iter().find(|p| p.port as u8 == c.0).unwrap();
		let d: &im::Data = if c.1 { pd.follower.as_ref().unwrap() } else { &pd.leader };
		let who = format!("port {}{}", c.0, if c.1 { " follower" } else { "" });
		check_validity(&who, &d.validity, rows, |i| exp.rows[i].chars[k].is_some())?;
		check_cols(&format!("{} pre", who), &PRE, v, rows, |f| tb::pre_col_len(&d.pre, f))?;
		check_cols(&format!("{} post", who), &POST, v, rows, |f| tb::post_col_len(&d.post, f))?;
		for (name, inner) in [("pre", &d.pre.validity), ("post", &d.post.validity)] {
			if let Some(b) = inner {
				if b.len() != rows {
					return Err(format!("{} {}: inner validity has {} entries for {} rows", who, name, b.len(), rows));
				}
			}
		}
	}
	match (START.exists(v), &fr.start) {
		(true, Some(s)) => {
			check_cols("start", &START, v, rows, |f| tb::start_col_len(s, f))?;
			check_validity("start", &s.validity, rows, |_| true)?;
		}
		(false, None) => {}
		(w, g) => return Err(format!("start columns exist at this version: {}, parsed: {}", w, g.is_some())),
	}
	match (END.exists(v), &fr.end) {
		(true, Some(e)) => {
			check_cols("end", &END, v, rows, |f| tb::end_col_len(e, f))?;
			check_validity("end", &e.validity, rows, |_| true)?;
			if END.body_size(v) == 0 && e.validity.as_ref().map(|b| b.len()) != Some(rows) {
				return Err(format!("end has no columns at this version and its row counter says {:?} for {} rows", e.validity.as_ref().map(|b| b.len()), rows));
			}
		}
		(false, None) => {}
		(w, g) => return Err(format!("end columns exist at this version: {}, parsed: {}", w, g.is_some())),
	}
	match (ITEM.exists(v), &fr.item_offset, &fr.item) {
		(true, Some(off), Some(item)) => {
			let off = off.as_slice();
			let total: usize = exp.rows.iter().map(|r| r.items.len()).sum();
			let mut want_off = vec![0i32];
			for r in &exp.rows {
				want_off.push(want_off.last().unwrap() + r.items.len() as i32);
			}
			if off != &want_off[..] {
				return Err(format!("item offsets {:?} but the file has items per row giving {:?}", off, want_off));
			}
			check_cols("item", &ITEM, v, total, |f| tb::item_col_len(item, f))?;
			let idf = ITEM.fields.iter().find(|f| f.path == "id").unwrap();
			let want_ids: Vec<u32> = exp.rows.iter().flat_map(|r| r.items.iter().map(|b| idf.be(b) as u32)).collect();
			if item.id.values().as_slice() != &want_ids[..] {
				return Err(format!("item ids {:?} but the file has {:?}", item.id.values().as_slice(), want_ids));
			}
		}
		(false, None, None) => {}
		(w, o, i) => return Err(format!("items exist at this version: {}, offsets parsed: {}, items parsed: {}", w, o.is_some(), i.is_some())),
	}
	Ok(())
}

pub fn c04(spec: &Spec, _p: &Progress) -> Outcome {
	let (bytes, exp) = build(spec);
	let game = match parse_valid(&bytes) {
		Ok(g) => g,
		Err(o) => return o,
	};
	outcome(guard(|| c04_game(&game, &exp)))
}

// ---------------------------------------------------------------------------------------------- c13

fn same(what: &str, ev: &Event, row: impl Fn(usize) -> Option<u64>, col: impl Fn(usize) -> Option<u64>) -> Result<(), String> {
	for (k, f) in ev.fields.iter().enumerate() {
		if row(k) != col(k) {
			return Err(format!("{} field {}: frame() gives {:x?} but the column holds {:x?}", what, f.path, row(k), col(k)));
		}
	}
	Ok(())
}

/// Game::frame(i) equals index i of every column (presence and value), items = item_offset[i]..item_offset[i+1].
pub fn c13_game(game: &Game) -> Result<(), String> {
	use peppi::game::Game as _;
	let fr = &game.frames;
	if game.len() != fr.id.len() {
		return Err(format!("len() {} but the id column has {}", game.len(), fr.id.len()));
	}
	for i in 0..fr.id.len() {
		let f = game.frame(i);
		if f.id != fr.id.values()[i] {
			return Err(format!("row {}: frame().id {} but the id column holds {}", i, f.id, fr.id.values()[i]));
		}
		if f.ports.len() != fr.ports.len() {
			return Err(format!("row {}: frame() has {} ports, columns have {}", i, f.ports.len(), fr.ports.len()));
		}
		for (p, c) in f.ports.iter().zip(&fr.ports) {
			if p.port != c.port || p.follower.is_some() != c.follower.is_some() {
				return Err(format!("row {}: port {:?}/follower {} vs column port {:?}/follower {}", i, p.port, p.follower.is_some(), c.port, c.follower.is_some()));
			}
			let mut pairs = vec![("leader", &p.leader, &c.leader)];
			if let (Some(a), Some(b)) = (&p.follower, &c.follower) {
				pairs.push(("follower", a, b));
			}
			for (who, d, cd) in pairs {
				same(&format!("row {} port {:?} {} pre", i, p.port, who), &PRE, |k| tb::pre_row(&d.pre, k), |k| tb::pre_col(&cd.pre, k, i))?;
				same(&format!("row {} port {:?} {} post", i, p.port, who), &POST, |k| tb::post_row(&d.post, k), |k| tb::post_col(&cd.post, k, i))?;
			}
		}
		match (&f.start, &fr.start) {
			(Some(s), Some(c)) => same(&format!("row {} start", i), &START, |k| tb::start_row(s, k), |k| tb::start_col(c, k, i))?,
			(None, None) => {}
			(a, b) => return Err(format!("row {}: frame().start present {} but start columns present {}", i, a.is_some(), b.is_some())),
		}
		match (&f.end, &fr.end) {
			(Some(e), Some(c)) => same(&format!("row {} end", i), &END, |k| tb::end_row(e, k), |k| tb::end_col(c, k, i))?,
			(None, None) => {}
			(a, b) => return Err(format!("row {}: frame().end present {} but end columns present {}", i, a.is_some(), b.is_some())),
		}
		match (&f.items, &fr.item_offset, &fr.item) {
			(Some(items), Some(off), Some(c)) => {
				let off = off.as_slice();
				let (lo, hi) = (off[i] as usize, off[i + 1] as usize);
				if items.len() != hi - lo {
					return Err(format!("row {}: frame() has {} items but item_offset gives {}..{}", i, items.len(), lo, hi));
				}
				for (j, it) in items.iter().enumerate() {
					same(&format!("row {} item {}", i, j), &ITEM, |k| tb::item_row(it, k), |k| tb::item_col(c, k, lo + j))?;
				}
			}
			(None, None, None) => {}
			(a, b, c) => return Err(format!("row {}: frame().items present {} but item_offset {} / item columns {}", i, a.is_some(), b.is_some(), c.is_some())),
		}
	}
	Ok(())
}

/// All fields of two row views agree (bit patterns, so NaN compares equal to itself).
fn same_rows(i: usize, a: &peppi::frame::transpose::Frame, b: &peppi::frame::transpose::Frame) -> Result<(), String> {
	let w = |s: &str| format!("row {} {}: in-progress frame() vs finished frame()", i, s);
	if a.id != b.id || a.ports.len() != b.ports.len() {
		return Err(format!("row {}: in-progress frame() has id {} / {} ports, finished frame() has id {} / {} ports", i, a.id, a.ports.len(), b.id, b.ports.len()));
	}
	for (p, q) in a.ports.iter().zip(&b.ports) {
		if p.port != q.port || p.follower.is_some() != q.follower.is_some() {
			return Err(w("ports"));
		}
		let mut pairs = vec![(&p.leader, &q.leader)];
		if let (Some(x), Some(y)) = (&p.follower, &q.follower) {
			pairs.push((x, y));
		}
		for (x, y) in pairs {
			same(&w("pre"), &PRE, |k| tb::pre_row(&x.pre, k), |k| tb::pre_row(&y.pre, k))?;
			same(&w("post"), &POST, |k| tb::post_row(&x.post, k), |k| tb::post_row(&y.post, k))?;
		}
	}
	match (&a.start, &b.start) {
		(Some(x), Some(y)) => same(&w("start"), &START, |k| tb::start_row(x, k), |k| tb::start_row(y, k))?,
		(None, None) => {}
		(x, y) => return Err(format!("row {}: in-progress frame().start present {}, finished {}", i, x.is_some(), y.is_some())),
	}
	match (&a.end, &b.end) {
		(Some(x), Some(y)) => same(&w("end"), &END, |k| tb::end_row(x, k), |k| tb::end_row(y, k))?,
		(None, None) => {}
		(x, y) => return Err(format!("row {}: in-progress frame().end present {}, finished {}", i, x.is_some(), y.is_some())),
	}
	match (&a.items, &b.items) {
		(Some(x), Some(y)) if x.len() == y.len() => {
			for (j, (x, y)) in x.iter().zip(y).enumerate() {
				same(&w(&format!("item {}", j)), &ITEM, |k| tb::item_row(x, k), |k| tb::item_row(y, k))?;
			}
		}
		(None, None) => {}
		(x, y) => return Err(format!("row {}: in-progress frame().items {:?} entries, finished {:?} (None = no item list)", i, x.as_ref().map(|v| v.len()), y.as_ref().map(|v| v.len()))),
	}
	Ok(())
}

/// The in-progress game (ParseState, also a `Game`) gives the same row views as the finished one, for every closed frame.
fn c13_in_progress(bytes: &[u8], game: &Game) -> Result<(), String> {
	use peppi::game::Game as _;
	let mut r = Cursor::new(bytes);
	let e = |x: peppi::io::Error| format!("incremental API failed on a well-formed file: {}", x);
	let raw_len = de::parse_header(&mut r, None).map_err(e)? as usize;
	let mut state = de::parse_start(&mut r, None).map_err(e)?;
	while state.bytes_read() < raw_len {
		if de::parse_event(&mut r, &mut state, None).map_err(e)? == 0x39 {
			break;
		}
		// mid-stream: the frame before the newest one is closed as soon as the newest exists; its row view must already be the
		// final one, whatever has been received of the newest frame so far (items included)
		if state.len() >= 2 {
			let i = state.len() - 2;
			same_rows(i, &state.frame(i), &game.frame(i)).map_err(|m| format!("while frame row {} was still open: {}", i + 1, m))?;
		}
	}
	if state.len() != game.len() {
		return Err(format!("in-progress len() {} but finished len() {}", state.len(), game.len()));
	}
	// before 3.0 the last frame is only closed by read(), so its row is not complete yet
	let closed = if version_of(game) < (3, 0, 0) { state.len().saturating_sub(1) } else { state.len() };
	for i in 0..closed {
		same_rows(i, &state.frame(i), &game.frame(i))?;
	}
	Ok(())
}

pub fn c13(spec: &Spec, _p: &Progress) -> Outcome {
	let (bytes, _) = build(spec);
	let game = match parse_valid(&bytes) {
		Ok(g) => g,
		Err(o) => return o,
	};
	match outcome(guard(|| c13_game(&game))) {
		Holds => outcome(guard(|| c13_in_progress(&bytes, &game))),
		o => o,
	}
}

// ---------------------------------------------------------------------------------------------- c01

pub(crate) fn first_diff(a: &[u8], b: &[u8]) -> String {
	let n = a.iter().zip(b).position(|(x, y)| x != y).unwrap_or(a.len().min(b.len()));
	format!("lengths {} vs {}, first difference at offset {} ({:02x?} vs {:02x?})", a.len(), b.len(), n, a.get(n), b.get(n))
}

pub fn c01(spec: &Spec, _p: &Progress) -> Outcome {
	let (bytes, _) = build(spec);
	let game = match parse_valid(&bytes) {
		Ok(g) => g,
		Err(o) => return o,
	};
	match write_game(&game) {
		Ok(Ok(out)) if out == bytes => Holds,
		Ok(Ok(out)) => viol(format!("write(read(file)) != file: {}", first_diff(&out, &bytes))),
		Ok(Err(e)) => viol(format!("write(read(file)) failed: {}", e)),
		Err(p) => viol(format!("write(read(file)) panicked: {}", p)),
	}
}

// ---------------------------------------------------------------------------------------------- c17

/// Length of the raw element of a written file, found by walking its events with its own payload table.
fn walk_raw(out: &[u8]) -> Result<usize, String> {
	if out.len() < 17 || out[..11] != gen::SIGNATURE || out[15] != 0x35 {
		return Err("written file does not start with the signature and a payload-sizes event".to_string());
	}
	let mut sizes = [0usize; 256];
	let tab = out[16] as usize;
	let mut i = 17;
	while i + 2 < 16 + tab && i + 2 < out.len() {
		sizes[out[i] as usize] = u16::from_be_bytes([out[i + 1], out[i + 2]]) as usize;
		i += 3;
	}
	let mut pos = 16 + tab;
	while pos < out.len() && sizes[out[pos] as usize] != 0 {
		pos += 1 + sizes[out[pos] as usize];
	}
	if pos >= out.len() || !(out[pos..].starts_with(b"U\x08metadata{") || &out[pos..] == b"}") {
		return Err(format!("events of the written file do not end at a metadata key or the closing brace (stopped at offset {})", pos));
	}
	Ok(pos - 15)
}

pub fn c17_case(spec: &Spec, _p: &Progress) -> Outcome {
	let (bytes, _) = build(spec);
	for (drop_end, drop_meta) in [(false, false), (true, false), (false, true), (true, true)] {
		let mut game = match parse_valid(&bytes) {
			Ok(g) => g,
			Err(o) => return o,
		};
		if drop_end {
			game.end = None;
		}
		if drop_meta {
			game.metadata = None;
		}
		let tag = format!("{} {}", if drop_end { "drop-end" } else { "keep-end" }, if drop_meta { "drop-meta" } else { "keep-meta" });
		let out = match write_game(&game) {
			Ok(Ok(o)) => o,
			Ok(Err(e)) => return viol(format!("[{}] write failed: {}", tag, e)),
			Err(p) => return viol(format!("[{}] write panicked: {}", tag, p)),
		};
		let declared = u32::from_be_bytes([out[11], out[12], out[13], out[14]]) as usize;
		match walk_raw(&out) {
			Ok(actual) if actual == declared => {}
			Ok(actual) => return viol(format!("[{}] declared raw length {} but the raw element has {} bytes", tag, declared, actual)),
			Err(e) => return viol(format!("[{}] {}", tag, e)),
		}
		let again = match read_with(&out, None) {
			Ok(Ok(g)) => g,
			Ok(Err(e)) => return viol(format!("[{}] written file cannot be read again: {}", tag, e)),
			Err(p) => return Panicked(format!("read: {}", p)),
		};
		match write_game(&again) {
			Ok(Ok(out2)) if out2 == out => {}
			Ok(Ok(out2)) => return viol(format!("[{}] re-writing the re-read game differs: {}", tag, first_diff(&out2, &out))),
			Ok(Err(e)) => return viol(format!("[{}] second write failed: {}", tag, e)),
			Err(p) => return viol(format!("[{}] write panicked: {}", tag, p)),
		}
	}
	Holds
}

// ---------------------------------------------------------------------------------------------- c12

/// Reader that hands out at most `chunk` bytes per read call.
pub struct Chunked<'a> {
	pub data: &'a [u8],
	pub pos: usize,
	pub chunk: usize,
}

impl Read for Chunked<'_> {
	fn read(&mut self, buf: &mut [u8]) -> std::io::Result<usize> {
		let n = buf.len().min(self.chunk).min(self.data.len().saturating_sub(self.pos));
		buf[..n].copy_from_slice(&self.data[self.pos..self.pos + n]);
		self.pos += n;
		Ok(n)
	}
}

impl Seek for Chunked<'_> {
	fn seek(&mut self, pos: SeekFrom) -> std::io::Result<u64> {
		let new = match pos {
			SeekFrom::Start(n) => n as i128,
			SeekFrom::Current(d) => self.pos as i128 + d as i128,
			SeekFrom::End(d) => self.data.len() as i128 + d as i128,
		};
		if new < 0 || new > u64::MAX as i128 {
			return Err(std::io::Error::new(std::io::ErrorKind::InvalidInput, "seek out of range"));
		}
		self.pos = new as usize;
		Ok(new as u64)
	}
}

const CHUNKS: [usize; 5] = [1, 2, 3, 7, 64];

fn c12_run(bytes: &[u8], exp: &Expected, one: &Game, chunk: usize) -> Result<(), String> {
	use peppi::game::Game as _;
	let e = |what: &str, err: peppi::io::Error| format!("chunk {}: {} failed on a well-formed file: {}", chunk, what, err);
	let mut r = Chunked { data: bytes, pos: 0, chunk };
	let raw_len = de::parse_header(&mut r, None).map_err(|x| e("parse_header", x))? as usize;
	if r.pos != 15 || raw_len != exp.raw_len {
		return Err(format!("chunk {}: parse_header consumed {} bytes and returned {}, file declares {}", chunk, r.pos, raw_len, exp.raw_len));
	}
	let mut state = de::parse_start(&mut r, None).map_err(|x| e("parse_start", x))?;
	if state.bytes_read() != r.pos - 15 {
		return Err(format!("chunk {}: after parse_start bytes_read() = {} but {} raw bytes were consumed", chunk, state.bytes_read(), r.pos - 15));
	}
	let mut rows = state.frames().len();
	let mut n = 0;
	while raw_len == 0 || state.bytes_read() < raw_len {
		let code = de::parse_event(&mut r, &mut state, None).map_err(|x| e("parse_event", x))?;
		n += 1;
		if state.bytes_read() != r.pos - 15 {
			return Err(format!("chunk {}: after event #{} (code {:#x}) bytes_read() = {} but {} raw bytes were consumed", chunk, n, code, state.bytes_read(), r.pos - 15));
		}
		if state.frames().len() < rows {
			return Err(format!("chunk {}: frames().len() went from {} to {} at event #{}", chunk, rows, state.frames().len(), n));
		}
		rows = state.frames().len();
		if code == 0x39 {
			break;
		}
	}
	if state.bytes_read() < raw_len {
		r.pos += raw_len - state.bytes_read();
	}
	let mut b = [0u8; 1];
	r.read_exact(&mut b).map_err(|x| format!("chunk {}: no byte after the raw element: {}", chunk, x))?;
	if b[0] == 0x55 {
		de::parse_metadata(&mut r, &mut state, None).map_err(|x| e("parse_metadata", x))?;
	}
	// final state against the one-shot result
	let fr = state.frames();
	if fr.id.values().as_slice() != one.frames.id.values().as_slice() {
		return Err(format!("chunk {}: incremental ids {:?} but one-shot ids {:?}", chunk, fr.id.values(), one.frames.id.values()));
	}
	if state.metadata().is_some() != exp.meta || state.metadata() != &one.metadata {
		return Err(format!("chunk {}: incremental metadata differs from the one-shot metadata", chunk));
	}
	if state.end().as_ref().map(|x| &x.bytes.0) != one.end.as_ref().map(|x| &x.bytes.0) || state.gecko_codes() != &one.gecko_codes {
		return Err(format!("chunk {}: incremental game end / gecko codes differ from the one-shot result", chunk));
	}
	let total = one.frames.len();
	let open_tail = (exp.ver.0, exp.ver.1) < (3, 0); // the last frame is only closed by read() before 3.0
	for (p, q) in fr.ports.iter().zip(&one.frames.ports) {
		let mut pairs = vec![(&p.leader, &q.leader)];
		if let (Some(a), Some(b)) = (&p.follower, &q.follower) {
			pairs.push((a, b));
		}
		for (m, i) in pairs {
			let len = m.pre.random_seed.len();
			if !(len == total || (open_tail && len + 1 == total)) || m.post.character.len() != len {
				return Err(format!("chunk {}: port {:?} has {} pre / {} post entries incrementally, {} rows one-shot", chunk, p.port, len, m.post.character.len(), total));
			}
			for k in 0..len {
				let valid = m.validity.as_ref().map_or(true, |b| b.get(k));
				let valid1 = i.validity.as_ref().map_or(true, |b| b.get_bit(k));
				let a = (valid, m.pre.random_seed.values()[k], m.pre.position.x.values()[k].to_bits(), m.post.character.values()[k], m.post.stocks.values()[k]);
				let b = (valid1, i.pre.random_seed.values()[k], i.pre.position.x.values()[k].to_bits(), i.post.character.values()[k], i.post.stocks.values()[k]);
				if a != b {
					return Err(format!("chunk {}: port {:?} row {}: incremental {:x?} but one-shot {:x?} (valid, pre.random_seed, pre.position.x, post.character, post.stocks)", chunk, p.port, k, a, b));
				}
			}
		}
	}
	match (&fr.start, &one.frames.start) {
		(Some(a), Some(b)) if a.random_seed.values().as_slice() == b.random_seed.values().as_slice() => {}
		(None, None) => {}
		_ => return Err(format!("chunk {}: incremental start.random_seed column differs from one-shot", chunk)),
	}
	match (&fr.item, &one.frames.item) {
		(Some(a), Some(b)) if a.id.values().as_slice() == b.id.values().as_slice() => {}
		(None, None) => {}
		_ => return Err(format!("chunk {}: incremental item.id column differs from one-shot", chunk)),
	}
	match (&fr.item_offset, &one.frames.item_offset) {
		(Some(a), Some(b)) if a.as_slice() == b.as_slice() => {}
		(None, None) => {}
		_ => return Err(format!("chunk {}: incremental item offsets differ from one-shot", chunk)),
	}
	Ok(())
}

pub fn c12(spec: &Spec, _p: &Progress) -> Outcome {
	let (bytes, exp) = build(spec);
	let one = match parse_valid(&bytes) {
		Ok(g) => g,
		Err(o) => return o,
	};
	for chunk in CHUNKS {
		match guard(|| c12_run(&bytes, &exp, &one, chunk)) {
			Ok(Ok(())) => {}
			Ok(Err(msg)) => return viol(msg),
			Err(p) => return Panicked(format!("incremental API, chunk {}: {}", chunk, p)),
		}
	}
	Holds
}

// ---------------------------------------------------------------------------------------------- c07

fn c07_offsets(len: usize) -> Vec<usize> {
	if len < 4096 {
		return (0..len).collect();
	}
	let mut v: Vec<usize> = (0..200).map(|k| k * len / 200).collect();
	v.extend(len.saturating_sub(400)..len);
	v.sort();
	v.dedup();
	v
}

/// sub = 4 * prefix length + option combination (OPTS4); the label is "<length>" for the default options, else "<length>/<opts>"
pub fn c07_label(_spec: &Spec, sub: usize) -> String {
	if sub % 4 == 0 { (sub / 4).to_string() } else { format!("{}/{}", sub / 4, OPTS4[sub % 4].2) }
}

/// `only`: a single "<prefix length>[/<opts>]" to test (replay of a witness).  Every prefix is read under every option
/// combination: the property speaks of the one-shot reader, whatever its options.
pub fn c07(spec: &Spec, p: &Progress, only: Option<&str>) -> Outcome {
	let (bytes, _) = build(spec);
	let only: Option<(usize, usize)> = match only {
		None => None,
		Some(t) => {
			let (o, oi) = match t.split_once('/') {
				Some((o, on)) => (o.parse::<usize>().ok(), OPTS4.iter().position(|x| x.2 == on)),
				None => (t.parse::<usize>().ok(), Some(0)),
			};
			match (o, oi) {
				(Some(o), Some(oi)) if o < bytes.len() => Some((o, oi)),
				_ => return viol(format!("{:?} is not a proper prefix length (with options) of a {}-byte file", t, bytes.len())),
			}
		}
	};
	let offs = match only {
		Some((o, _)) => vec![o],
		None => c07_offsets(bytes.len()),
	};
	for o in offs {
		for (oi, (skip, hash, oname)) in OPTS4.iter().enumerate() {
			if only.map_or(false, |(_, x)| x != oi) {
				continue;
			}
			let op = opts(*skip, *hash);
			let lab = c07_label(spec, 4 * o + oi);
			match p.timed(4 * o + oi, || read_with(&bytes[..o], if oi == 0 { None } else { Some(&op) })) {
				Ok(Err(_)) => {}
				Ok(Ok(g)) => return Violated { extra: lab, msg: format!("the first {} of {} bytes were accepted as a complete replay ({} frames) with options {}", o, bytes.len(), g.frames.len(), oname) },
				Err(pn) => return Violated { extra: lab, msg: format!("the reader panicked on the first {} of {} bytes with options {}: {}", o, bytes.len(), oname, pn) },
			}
		}
	}
	Holds
}

// ---------------------------------------------------------------------------------------------- c06

const OPTS4: [(bool, bool, &str); 4] = [(false, false, "s0h0"), (true, false, "s1h0"), (false, true, "s0h1"), (true, true, "s1h1")];

/// Small corruptions of a generated file, each with a replayable label.
pub fn mutations(bytes: &[u8], exp: &Expected) -> Vec<(String, Vec<u8>)> {
	let mut out: Vec<(String, Vec<u8>)> = vec![("none".to_string(), bytes.to_vec())];
	let ev = &exp.events;
	let pick = |code: u8| -> Option<usize> {
		let idx: Vec<usize> = (0..ev.len()).filter(|i| ev[*i].code == code).collect();
		(!idx.is_empty()).then(|| idx[idx.len() / 2])
	};
	let set_len = |b: &mut Vec<u8>, n: u32| b[11..15].copy_from_slice(&n.to_be_bytes());
	// truncations
	let gs = ev[1].off;
	let mid = ev[ev.len() / 2].off;
	let mut cuts = vec![0, 7, 13, 15, 17, gs, gs + 1, gs + 101, ev[1].off + ev[1].len, mid, mid + 1, mid + 3, exp.tail_off.saturating_sub(1), exp.tail_off, exp.tail_off + 1, exp.tail_off + 12, bytes.len() - 2, bytes.len() - 1];
	if ev.len() > 2 {
		cuts.push(ev[2].off + 1);
		cuts.push(ev[ev.len() - 1].off);
		cuts.push(ev[ev.len() - 1].off + 2);
	}
	cuts.retain(|c| *c < bytes.len());
	cuts.sort();
	cuts.dedup();
	for c in cuts {
		out.push((format!("trunc@{}", c), bytes[..c].to_vec()));
	}
	// a declared unknown event with the largest payload a table entry can declare (65535 bytes), a few times
	out.push(("unknown-event-65535".to_string(), with_unknown_events(bytes, exp, 3)));
	// frame id / port / follower flag of one event
	for code in [0x37u8, 0x38, 0x3A, 0x3B, 0x3C] {
		if let Some(i) = pick(code) {
			for id in [1000i32, i32::MAX, -124, i32::MIN] {
				let mut b = bytes.to_vec();
				b[ev[i].off + 1..ev[i].off + 5].copy_from_slice(&id.to_be_bytes());
				out.push((format!("id@{}={}", i, id), b));
			}
			if code == 0x37 || code == 0x38 {
				for port in [3u8, 4, 9, 255] {
					let mut b = bytes.to_vec();
					b[ev[i].off + 5] = port;
					out.push((format!("port@{}={}", i, port), b));
				}
				let mut b = bytes.to_vec();
				b[ev[i].off + 6] ^= 1;
				out.push((format!("foll@{}", i), b));
			}
		}
	}
	// duplicate / delete one event of each kind (raw length adjusted, so the parser reaches the damage)
	for code in [0x10u8, 0x36, 0x37, 0x38, 0x39, 0x3A, 0x3B, 0x3C] {
		if let Some(i) = pick(code) {
			let (a, z) = (ev[i].off, ev[i].off + ev[i].len);
			let mut dup = bytes[..z].to_vec();
			dup.extend_from_slice(&bytes[a..z]);
			dup.extend_from_slice(&bytes[z..]);
			set_len(&mut dup, (exp.raw_len + ev[i].len) as u32);
			out.push((format!("dup@{}", i), dup));
			let mut del = bytes[..a].to_vec();
			del.extend_from_slice(&bytes[z..]);
			set_len(&mut del, (exp.raw_len - ev[i].len) as u32);
			out.push((format!("del@{}", i), del));
		}
	}
	if let Some(i) = pick(0x37) {
		let (a, z) = (ev[i].off, ev[i].off + ev[i].len);
		let mut del = bytes[..a].to_vec();
		del.extend_from_slice(&bytes[z..]);
		out.push((format!("delraw@{}", i), del));
	}
	// fixed-width text fields of the Game Start block (offsets in the raw block, widths): unterminated, ending in a multi-byte
	// character exactly at the field end, ending in half a character, all 0xFF -- for each field the block is long enough to hold
	let gs_payload = ev[1].off + 1;
	let gs_len = ev[1].len - 1;
	for (name, off, width) in [("tag0", 0x160usize, 16usize), ("tag3", 0x190, 16), ("name0", 0x1A4, 31), ("code0", 0x220, 10), ("uid0", 0x248, 29), ("uid3", 0x248 + 3 * 29, 29), ("match", 0x2BD, 51)] {
		if off + width > gs_len {
			continue;
		}
		let fills: [(&str, Vec<u8>); 6] = [
			("ascii", vec![b'a'; width]),
			("utf8tail", { let mut v = vec![b'a'; width - 2]; v.extend_from_slice(&[0xC3, 0xA9]); v }),
			("utf8half", { let mut v = vec![b'a'; width - 1]; v.push(0xC3); v }),
			("sjistail", { let mut v = vec![b'a'; width - 2]; v.extend_from_slice(&[0x82, 0xA0]); v }),
			("sjishalf", { let mut v = vec![b'a'; width - 1]; v.push(0x82); v }),
			("ff", vec![0xFF; width]),
		];
		for (fname, fill) in fills {
			let mut b = bytes.to_vec();
			b[gs_payload + off..gs_payload + off + width].copy_from_slice(&fill);
			out.push((format!("gs:{}:{}", name, fname), b));
		}
	}
	// a Game Start that declares no occupied port (all four player-type bytes "empty"), followed by the frame events as they are
	{
		let mut b = bytes.to_vec();
		for port in 0..4 {
			b[gs_payload + 0x64 + 0x24 * port + 1] = 3;
		}
		out.push(("gs:noports".to_string(), b));
	}
	// declared raw length
	for n in [0u32, 5, exp.raw_len as u32 - 1, exp.raw_len as u32 + 1, 0x7fff_ffff, 0xffff_ffff] {
		let mut b = bytes.to_vec();
		set_len(&mut b, n);
		out.push((format!("rawlen={}", n), b));
	}
	out
}

/// The label of sub-case `sub` (as stored in Progress) of a c06 case: "<mutation> <opts>".
pub fn c06_label(spec: &Spec, sub: usize) -> String {
	let (bytes, exp) = build(spec);
	let m = mutations(&bytes, &exp);
	format!("{} {}", m.get(sub / 4).map_or("?", |x| x.0.as_str()), OPTS4[sub % 4].2)
}

/// `only`: (mutation label, opts label) to run alone.  A hang is detected by the watchdog through `p`.
pub fn c06_case(spec: &Spec, p: &Progress, only: Option<(&str, &str)>, t0: Instant) -> Outcome {
	let (bytes, exp) = build(spec);
	for (mi, (label, data)) in mutations(&bytes, &exp).iter().enumerate() {
		for (oi, (skip, hash, oname)) in OPTS4.iter().enumerate() {
			if let Some((l, o)) = only {
				if l != label || o != *oname {
					continue;
				}
			}
			p.sub.store(mi * 4 + oi, Ordering::Relaxed);
			p.since.store(t0.elapsed().as_millis() as u64 + 1, Ordering::Release);
			let r = read_with(data, Some(&opts(*skip, *hash)));
			p.since.store(0, Ordering::Release);
			if let Err(pn) = r {
				return Violated { extra: format!("{} {}", label, oname), msg: format!("reader panicked on corruption {} with options {}: {}", label, oname, pn) };
			}
		}
	}
	Holds
}

// ---------------------------------------------------------------------------------------------- c08

/// The file with `n` unknown events (code 0x40, declared in the payload table) inserted at event boundaries after Game Start
/// and not after the first Game End.  The declared payload size rotates with the case: 5, 1, 700 and the largest a table
/// entry can declare, 65535.
fn with_unknown_events(bytes: &[u8], exp: &Expected, seed: u64) -> Vec<u8> {
	let usize_ = [5u16, 1, 700, 0xFFFF][(seed % 4) as usize];
	let mut rng = Rng::new(seed ^ 0xC08);
	let ev = &exp.events;
	// boundary k = "before event k"; ev.len() = at the end of the raw element
	let last = ev.iter().position(|e| e.code == 0x39).unwrap_or(ev.len());
	let mut at = vec![2, last];
	for _ in 0..4 {
		at.push(2 + rng.below(last - 1));
	}
	let mut out = bytes[..15].to_vec();
	out.push(0x35);
	out.push((3 * (exp.table.len() + 1) + 1) as u8);
	for (c, s) in exp.table.iter().chain([(0x40u8, usize_)].iter()) {
		out.push(*c);
		out.extend_from_slice(&s.to_be_bytes());
	}
	for k in 1..=ev.len() {
		for _ in at.iter().filter(|a| **a == k) {
			out.push(0x40);
			out.extend(rng.bytes(usize_ as usize));
		}
		if k < ev.len() {
			out.extend_from_slice(&bytes[ev[k].off..ev[k].off + ev[k].len]);
		}
	}
	let raw_len = (out.len() - 15) as u32;
	out[11..15].copy_from_slice(&raw_len.to_be_bytes());
	out.extend_from_slice(&bytes[exp.tail_off..]);
	out
}

fn c08_compare(tag: &str, game: &Game, exp: &Expected, plain: Option<&Game>) -> Result<(), String> {
	c04_game(game, exp).map_err(|e| format!("[{}] {}", tag, e))?;
	c03_game(game, exp).map_err(|e| format!("[{}] {}", tag, e))?;
	if game.start.bytes.0 != exp.start {
		return Err(format!("[{}] Game Start bytes differ from the bytes written", tag));
	}
	if game.end.as_ref().map(|e| &e.bytes.0) != exp.end.as_ref() {
		return Err(format!("[{}] Game End bytes {:?} but the file has {:?}", tag, game.end.as_ref().map(|e| &e.bytes.0), exp.end));
	}
	let g = game.gecko_codes.as_ref().map(|g| (&g.bytes, g.actual_size));
	if g != exp.gecko.as_ref().map(|(b, a)| (b, *a)) {
		return Err(format!("[{}] gecko codes differ from the blocks written (actual size {:?} vs {:?})", tag, g.map(|x| x.1), exp.gecko.as_ref().map(|x| x.1)));
	}
	if let Some(p) = plain {
		if p.metadata != game.metadata || p.frames.id.values().as_slice() != game.frames.id.values().as_slice() {
			return Err(format!("[{}] metadata or ids differ from the file without the additions", tag));
		}
	}
	Ok(())
}

/// start / end / metadata of a skip_frames parse equal the bytes written.
fn c08_skip(tag: &str, data: &[u8], exp: &Expected, full: &Game) -> Outcome {
	if exp.n_end == 0 {
		return Holds; // nothing to skip to
	}
	// a Cursor, and seekable readers that return short reads (the jump to Game End may not depend on how the stream fragments)
	for chunk in [None, Some(1usize), Some(300)] {
		let o = opts(true, false);
		let r = guard(|| match chunk {
			None => peppi::io::slippi::read(Cursor::new(data), Some(&o)),
			Some(c) => peppi::io::slippi::read(Chunked { data, pos: 0, chunk: c }, Some(&o)),
		}
		.map_err(|e| e.to_string()));
		let how = chunk.map_or(String::new(), |c| format!(", {}-byte reads", c));
		match r {
			Ok(Ok(g)) => {
				if g.start.bytes.0 != exp.start || g.end.as_ref().map(|e| &e.bytes.0) != exp.end.as_ref() || g.metadata != full.metadata {
					return viol(format!("[{} skip_frames{}] start / end / metadata differ from the bytes written (end {:?}, file has {:?})", tag, how, g.end.as_ref().map(|e| &e.bytes.0), exp.end));
				}
			}
			Ok(Err(e)) => return viol(format!("[{} skip_frames{}] rejected: {}", tag, how, e)),
			Err(p) => return Panicked(format!("read: {}", p)),
		}
	}
	Holds
}

pub fn c08(spec: &Spec, _p: &Progress) -> Outcome {
	let (bytes, exp) = build(spec);
	let plain = match parse_valid(&bytes) {
		Ok(g) => g,
		Err(o) => return o,
	};
	let with = with_unknown_events(&bytes, &exp, spec.seed);
	// a Cursor, and readers that return short reads (unknown payloads must be skipped in full)
	for chunk in [None, Some(1usize), Some(3)] {
		let tag = format!("unknown-events{}", chunk.map_or(String::new(), |c| format!(" {}-byte reads", c)));
		let r = guard(|| match chunk {
			None => peppi::io::slippi::read(Cursor::new(&with[..]), None),
			Some(c) => peppi::io::slippi::read(Chunked { data: &with, pos: 0, chunk: c }, None),
		}
		.map_err(|e| e.to_string()));
		let game = match r {
			Ok(Ok(g)) => g,
			Ok(Err(e)) => return viol(format!("[{}] file with declared unknown events rejected: {}", tag, e)),
			Err(p) => return Panicked(format!("read: {}", p)),
		};
		match outcome(guard(|| c08_compare(&tag, &game, &exp, Some(&plain)))) {
			Holds => {}
			o => return o,
		}
	}
	match c08_skip("unknown-events", &with, &exp, &plain) {
		Holds => {}
		o => return o,
	}
	if spec.v2() == (3, 16) {
		for relabel in [(3u8, 17u8, 0u8), (4, 0, 0)] {
			let tag = format!("future {}.{} +3 bytes", relabel.0, relabel.1);
			let (fb, fexp) = build_ext(spec, 3, Some(relabel));
			let game = match read_with(&fb, None) {
				Ok(Ok(g)) => g,
				Ok(Err(e)) => return viol(format!("[{}] file of a newer version with longer payloads rejected: {}", tag, e)),
				Err(p) => return Panicked(format!("read: {}", p)),
			};
			match outcome(guard(|| c08_compare(&tag, &game, &fexp, None))) {
				Holds => {}
				o => return o,
			}
			match c08_skip(&tag, &fb, &fexp, &game) {
				Holds => {}
				o => return o,
			}
		}
	}
	Holds
}

// ---------------------------------------------------------------------------------------------- c11

fn hash_format_ok(h: &str) -> bool {
	h.strip_prefix("xxh3:").map_or(false, |d| d.len() == 16 && d.bytes().all(|c| c.is_ascii_digit() || (b'a'..=b'f').contains(&c)))
}

/// xxhash is not re-exported by peppi, so instead of the digest itself: format, independence from read chunking and from
/// skip_frames, sensitivity to a changed byte, and None without compute_hash.
pub fn c11(spec: &Spec, _p: &Progress) -> Outcome {
	let (bytes, _) = build(spec);
	let run = |data: &[u8], chunk: Option<usize>, skip: bool, hash: bool| -> Result<Result<Option<String>, String>, String> {
		let o = opts(skip, hash);
		guard(|| match chunk {
			None => peppi::io::slippi::read(Cursor::new(data), Some(&o)),
			Some(c) => peppi::io::slippi::read(Chunked { data, pos: 0, chunk: c }, Some(&o)),
		}
		.map(|g| g.hash)
		.map_err(|e| e.to_string()))
	};
	let mut per_skip: Vec<Option<String>> = vec![];
	for skip in [false, true] {
		let base = match run(&bytes, None, skip, true) {
			Ok(r) => r,
			Err(p) => return Panicked(format!("read: {}", p)),
		};
		match &base {
			Ok(Some(h)) if hash_format_ok(h) => {}
			Ok(h) => return viol(format!("skip_frames={}: hash {:?} is not \"xxh3:\" + 16 lowercase hex digits", skip, h)),
			Err(e) if skip => {
				let _ = e; // skipping to a Game End that is not there may fail; it must fail the same way for every reader
			}
			Err(e) => return viol(format!("well-formed file rejected with compute_hash: {}", e)),
		}
		for c in [1usize, 3, 64] {
			match run(&bytes, Some(c), skip, true) {
				Ok(r) if r.is_ok() == base.is_ok() && r.as_ref().ok() == base.as_ref().ok() => {}
				Ok(r) => return viol(format!("skip_frames={}: reader with {}-byte reads gives {:?}, a Cursor gives {:?}", skip, c, r, base)),
				Err(p) => return Panicked(format!("read: {}", p)),
			}
		}
		match run(&bytes, None, skip, false) {
			Ok(Ok(None)) => {}
			Ok(Ok(Some(h))) => return viol(format!("skip_frames={}: hash {} reported without compute_hash", skip, h)),
			Ok(Err(e)) if skip => {
				let _ = e;
			}
			Ok(Err(e)) => return viol(format!("well-formed file rejected: {}", e)),
			Err(p) => return Panicked(format!("read: {}", p)),
		}
		per_skip.push(base.ok().flatten());
	}
	if let (Some(a), Some(b)) = (&per_skip[0], &per_skip[1]) {
		if a != b {
			return viol(format!("hash of the whole file is {} when frames are parsed but {} when they are skipped", a, b));
		}
	}
	// a changed byte in the metadata-free tail or in a frame payload must change the digest
	if let Some(a) = &per_skip[0] {
		let mut other = bytes.clone();
		let k = other.len() / 2;
		other[k] ^= 0x01;
		if let Ok(Ok(Some(h))) = run(&other, None, false, true) {
			if &h == a {
				return viol(format!("flipping a bit at offset {} leaves the hash {} unchanged", k, h));
			}
		}
	}
	Holds
}

// ---------------------------------------------------------------------------------------------- driver

pub type Check<'a> = &'a (dyn Fn(&Spec, &Progress) -> Outcome + Sync);

/// Runs `check` over `cases` on all cores; prints the WITNESS with the smallest case index, if any.
/// `hang_label`: enables the hang watchdog (c06); maps a stuck (case, sub) to the replay arguments.
pub fn search(name: &str, cases: &[Spec], check: Check, hang_label: Option<&(dyn Fn(&Spec, usize) -> String + Sync)>, t0: Instant) -> i32 {
	std::panic::set_hook(Box::new(|_| {}));
	let threads = std::thread::available_parallelism().map_or(4, |n| n.get()).min(16).min(cases.len().max(1));
	let next = AtomicUsize::new(0);
	let best = AtomicUsize::new(usize::MAX);
	let found: Mutex<Vec<(usize, String, String)>> = Mutex::new(vec![]);
	let panics: Mutex<Vec<(usize, String)>> = Mutex::new(vec![]);
	let slots: Vec<Progress> = (0..threads).map(|_| Progress::new(t0)).collect();
	let done = AtomicUsize::new(0);
	std::thread::scope(|s| {
		for slot in &slots {
			s.spawn(|| loop {
				let i = next.fetch_add(1, Ordering::SeqCst);
				if i >= cases.len() || i > best.load(Ordering::SeqCst) {
					done.fetch_add(1, Ordering::SeqCst);
					break;
				}
				slot.case.store(i, Ordering::Relaxed);
				match guard(|| check(&cases[i], slot)) {
					Ok(Holds) => {}
					Ok(Violated { extra, msg }) => {
						best.fetch_min(i, Ordering::SeqCst);
						found.lock().unwrap().push((i, extra, msg));
					}
					// the inputs of these searches are well-formed by construction (the corrupting oracles c06 / c07 classify
					// panics themselves): a reader that panics on one delivers no game, so the property under test fails on it too
					Ok(Panicked(m)) => {
						best.fetch_min(i, Ordering::SeqCst);
						panics.lock().unwrap().push((i, m.clone()));
						found.lock().unwrap().push((i, String::new(), format!("peppi panicked on this well-formed input, so the property has no value to hold for: {}", m)));
					}
					Err(m) => panics.lock().unwrap().push((i, format!("(outside peppi) {}", m))),
				}
			});
		}
		if let Some(label) = hang_label {
			// watchdog: a peppi call that has not returned for HANG_MS is a hang; the process exits from here
			s.spawn(|| {
				while done.load(Ordering::SeqCst) < threads {
					std::thread::sleep(std::time::Duration::from_millis(100));
					let now = t0.elapsed().as_millis() as u64 + 1;
					for slot in &slots {
						let since = slot.since.load(Ordering::Acquire);
						if since != 0 && now.saturating_sub(since) > HANG_MS {
							let spec = &cases[slot.case.load(Ordering::Relaxed)];
							let extra = label(spec, slot.sub.load(Ordering::Relaxed));
							println!("WITNESS {} {} {}", name, spec.case_id(), extra);
							println!("{} VIOLATED: reader did not return within {} s ({})", name, HANG_MS / 1000, extra);
							std::process::exit(1);
						}
					}
				}
			});
		}
	});
	let mut panics = panics.into_inner().unwrap();
	panics.sort();
	for (i, m) in panics.iter().take(5) {
		println!("NOTE {}-search: panic on {}: {}", name, cases[*i].case_id(), m);
	}
	let mut found = found.into_inner().unwrap();
	found.sort();
	match found.first() {
		Some((i, extra, msg)) => {
			let id = cases[*i].case_id();
			println!("WITNESS {} {}{}{}", name, id, if extra.is_empty() { "" } else { " " }, extra);
			println!("{} VIOLATED: {} [{}]", name, msg, id);
			1
		}
		None => {
			println!("{}-search ok: {} cases, {} panics, {} ms", name, cases.len(), panics.len(), t0.elapsed().as_millis());
			0
		}
	}
}

/// Replays one case: prints `<name> VIOLATED: ...` and returns 1, or returns 0.
pub fn replay(name: &str, spec: &Spec, check: Check, hang_label: Option<&(dyn Fn(&Spec, usize) -> String + Sync)>, t0: Instant) -> i32 {
	std::panic::set_hook(Box::new(|_| {}));
	let slot = Progress::new(t0);
	let finished = AtomicUsize::new(0);
	let mut rc = 0;
	std::thread::scope(|s| {
		if let Some(label) = hang_label {
			s.spawn(|| {
				while finished.load(Ordering::SeqCst) == 0 {
					std::thread::sleep(std::time::Duration::from_millis(100));
					let since = slot.since.load(Ordering::Acquire);
					if since != 0 && (t0.elapsed().as_millis() as u64 + 1).saturating_sub(since) > HANG_MS {
						println!("{} VIOLATED: reader did not return within {} s ({})", name, HANG_MS / 1000, label(spec, slot.sub.load(Ordering::Relaxed)));
						std::process::exit(1);
					}
				}
			});
		}
		rc = match guard(|| check(spec, &slot)) {
			Ok(Holds) => {
				println!("{} ok: {}", name, spec.case_id());
				0
			}
			Ok(Violated { msg, .. }) => {
				println!("{} VIOLATED: {} [{}]", name, msg, spec.case_id());
				1
			}
			Ok(Panicked(m)) => {
				println!("{} VIOLATED: peppi panicked on this well-formed input: {} [{}]", name, m, spec.case_id());
				1
			}
			Err(m) => {
				if name == "c06" {
					println!("{} VIOLATED: panic: {} [{}]", name, m, spec.case_id());
					1
				} else {
					println!("{} not evaluated: panic outside peppi: {} [{}]", name, m, spec.case_id());
					0
				}
			}
		};
		finished.store(1, Ordering::SeqCst);
	});
	rc
}
