//! C04 demo (SEED2): frame rows / character presence must mirror the event history.
//!
//! Builds small synthetic, well-formed `.slp` streams by hand (one event at a
//! time, so the test knows exactly what the bytes say), parses them with
//! `peppi::io::slippi::read`, and compares every frame row against the event
//! history: one row per frame occurrence, every column of every port has one
//! entry per row, a character is marked present exactly when it had events in
//! that occurrence, and its values sit in that row of that port.
//!
//! The interesting history here is a multi-step one: a port's *leader* (its
//! only character, or Popo) has events, then has none for a few frames, and
//! then has events again -- e.g. an eliminated player in a 2v2 who takes one of
//! the partner's stocks and re-enters the game.

use std::io::Cursor;

use peppi::{game::immutable::Game, io::slippi};

// ---------------------------------------------------------------------------
// Event history model
// ---------------------------------------------------------------------------

#[derive(Clone, Debug)]
struct FrameSpec {
	id: i32,
	/// (port, is_follower) of every character that has events in this occurrence
	chars: Vec<(u8, bool)>,
	/// number of Item events in this occurrence (only emitted for >= 3.0)
	items: usize,
}

#[derive(Clone, Debug)]
struct Spec {
	version: (u8, u8, u8),
	/// external character id per port (`None` = empty port); 14 = Ice Climbers
	players: [Option<u8>; 4],
	is_teams: bool,
	frames: Vec<FrameSpec>,
}

/// What the bytes say, row by row.
#[derive(Debug, Default)]
struct Expected {
	/// per row: (port, is_follower, tag) for every present character
	rows: Vec<Vec<(u8, bool, u32)>>,
	/// per row: tag carried by the Frame Start event
	start_tags: Vec<u32>,
	/// per row: ids of the Item events, in order
	items: Vec<Vec<u32>>,
}

fn gte(v: (u8, u8, u8), major: u8, minor: u8) -> bool {
	v.0 > major || (v.0 == major && v.1 >= minor)
}

// ---------------------------------------------------------------------------
// Byte-level writer
// ---------------------------------------------------------------------------

fn pre_size(v: (u8, u8, u8)) -> usize {
	let mut n = 52;
	if gte(v, 1, 2) {
		n += 1
	}
	if gte(v, 1, 4) {
		n += 4
	}
	if gte(v, 3, 15) {
		n += 1
	}
	n
}

fn post_size(v: (u8, u8, u8)) -> usize {
	let mut n = 27;
	if gte(v, 0, 2) {
		n += 4
	}
	if gte(v, 2, 0) {
		n += 14
	}
	if gte(v, 2, 1) {
		n += 1
	}
	if gte(v, 3, 5) {
		n += 20
	}
	if gte(v, 3, 8) {
		n += 4
	}
	if gte(v, 3, 11) {
		n += 4
	}
	if gte(v, 3, 16) {
		n += 4
	}
	n
}

fn item_size(v: (u8, u8, u8)) -> usize {
	let mut n = 33;
	if gte(v, 3, 2) {
		n += 4
	}
	if gte(v, 3, 6) {
		n += 1
	}
	if gte(v, 3, 16) {
		n += 2
	}
	n
}

fn frame_start_size(v: (u8, u8, u8)) -> usize {
	4 + if gte(v, 3, 10) { 4 } else { 0 }
}

fn frame_end_size(v: (u8, u8, u8)) -> usize {
	if gte(v, 3, 7) {
		4
	} else {
		0
	}
}

fn game_end_size(v: (u8, u8, u8)) -> usize {
	if gte(v, 3, 13) {
		6
	} else if gte(v, 2, 0) {
		2
	} else {
		1
	}
}

fn game_start_payload(spec: &Spec) -> Vec<u8> {
	let v = spec.version;
	let mut b = vec![0u8; 320];
	b[0] = v.0;
	b[1] = v.1;
	b[2] = v.2;
	b[12] = spec.is_teams as u8;
	b[18..20].copy_from_slice(&32u16.to_be_bytes()); // stage: Final Destination
	b[20..24].copy_from_slice(&480u32.to_be_bytes()); // timer
	b[52..56].copy_from_slice(&1.0f32.to_be_bytes()); // damage ratio
	for n in 0..6 {
		let p = &mut b[100 + 36 * n..100 + 36 * (n + 1)];
		match spec.players.get(n).copied().flatten() {
			Some(character) => {
				p[0] = character;
				p[1] = 0; // human
				p[2] = 4; // stocks
				p[9] = (n % 2) as u8; // team colour
			}
			None => p[1] = 3, // empty
		}
		p[24..28].copy_from_slice(&1.0f32.to_be_bytes());
		p[28..32].copy_from_slice(&1.0f32.to_be_bytes());
		p[32..36].copy_from_slice(&1.0f32.to_be_bytes());
	}
	let mut extra = 0;
	if gte(v, 1, 0) {
		extra += 32
	}
	if gte(v, 1, 3) {
		extra += 64
	}
	if gte(v, 1, 5) {
		extra += 1
	}
	if gte(v, 2, 0) {
		extra += 1
	}
	if gte(v, 3, 7) {
		extra += 2
	}
	if gte(v, 3, 9) {
		extra += 164
	}
	if gte(v, 3, 11) {
		extra += 116
	}
	if gte(v, 3, 12) {
		extra += 1
	}
	if gte(v, 3, 14) {
		extra += 59
	}
	b.extend(std::iter::repeat(0u8).take(extra));
	b
}

/// Serialises `spec` as a complete `.slp` file, and records what was written.
fn build(spec: &Spec) -> (Vec<u8>, Expected) {
	let v = spec.version;
	let has_start = gte(v, 2, 2);
	let has_end = gte(v, 3, 0);

	let start_payload = game_start_payload(spec);
	let mut sizes: Vec<(u8, usize)> = vec![
		(0x36, start_payload.len()),
		(0x37, 6 + pre_size(v)),
		(0x38, 6 + post_size(v)),
		(0x39, game_end_size(v)),
	];
	if has_start {
		sizes.push((0x3A, 4 + frame_start_size(v)));
	}
	if has_end {
		sizes.push((0x3B, 4 + item_size(v)));
		sizes.push((0x3C, 4 + frame_end_size(v)));
	}

	let mut raw = vec![0x35, (1 + 3 * sizes.len()) as u8];
	for (code, size) in &sizes {
		raw.push(*code);
		raw.extend_from_slice(&(*size as u16).to_be_bytes());
	}
	raw.push(0x36);
	raw.extend_from_slice(&start_payload);

	let mut exp = Expected::default();
	let mut next_tag = 1000u32;
	let mut next_item = 1u32;

	for f in &spec.frames {
		// Frame Start
		let start_tag = next_tag;
		next_tag += 1;
		exp.start_tags.push(start_tag);
		if has_start {
			let at = raw.len();
			raw.push(0x3A);
			raw.extend_from_slice(&f.id.to_be_bytes());
			raw.extend_from_slice(&start_tag.to_be_bytes());
			raw.resize(at + 1 + 4 + frame_start_size(v), 0);
		}

		// Pre, for every present character
		let mut row = Vec::new();
		for &(port, follower) in &f.chars {
			let tag = next_tag;
			next_tag += 1;
			row.push((port, follower, tag));
			let at = raw.len();
			raw.push(0x37);
			raw.extend_from_slice(&f.id.to_be_bytes());
			raw.push(port);
			raw.push(follower as u8);
			raw.extend_from_slice(&tag.to_be_bytes()); // pre.random_seed
			raw.extend_from_slice(&14u16.to_be_bytes()); // pre.state
			raw.resize(at + 1 + 6 + pre_size(v), 0);
		}

		// Items
		let mut items = Vec::new();
		if has_end {
			for _ in 0..f.items {
				let id = next_item;
				next_item += 1;
				items.push(id);
				let at = raw.len();
				raw.push(0x3B);
				raw.extend_from_slice(&f.id.to_be_bytes());
				raw.extend_from_slice(&99u16.to_be_bytes()); // type
				raw.resize(at + 1 + 4 + 29, 0); // ..timer
				raw.extend_from_slice(&id.to_be_bytes()); // id
				raw.resize(at + 1 + 4 + item_size(v), 0);
			}
		}
		exp.items.push(items);

		// Post, for every present character
		for &(port, follower, tag) in &row {
			let at = raw.len();
			raw.push(0x38);
			raw.extend_from_slice(&f.id.to_be_bytes());
			raw.push(port);
			raw.push(follower as u8);
			raw.push(spec.players[port as usize].unwrap()); // post.character
			raw.extend_from_slice(&14u16.to_be_bytes()); // post.state
			raw.extend_from_slice(&[0; 8]); // post.position
			raw.extend_from_slice(&1.0f32.to_be_bytes()); // post.direction
			raw.extend_from_slice(&(tag as f32).to_be_bytes()); // post.percent
			raw.resize(at + 1 + 6 + post_size(v), 0);
		}
		exp.rows.push(row);

		// Frame End
		if has_end {
			let at = raw.len();
			raw.push(0x3C);
			raw.extend_from_slice(&f.id.to_be_bytes());
			raw.resize(at + 1 + 4 + frame_end_size(v), 0);
		}
	}

	// Game End
	let at = raw.len();
	raw.push(0x39);
	raw.push(2); // method: Game
	if gte(v, 2, 0) {
		raw.push(255); // no LRAS initiator
	}
	raw.resize(at + 1 + game_end_size(v), 0);

	let mut file = vec![
		0x7b, 0x55, 0x03, 0x72, 0x61, 0x77, 0x5b, 0x24, 0x55, 0x23, 0x6c,
	];
	file.extend_from_slice(&(raw.len() as u32).to_be_bytes());
	file.extend_from_slice(&raw);
	file.extend_from_slice(b"U\x08metadata{}}");
	(file, exp)
}

// ---------------------------------------------------------------------------
// Checker: parsed game vs. what the bytes say
// ---------------------------------------------------------------------------

fn check_character(
	what: &str,
	data: &peppi::frame::immutable::Data,
	port: u8,
	follower: bool,
	exp: &Expected,
) {
	let n = exp.rows.len();
	assert_eq!(data.pre.random_seed.len(), n, "{what}: pre.random_seed entries");
	assert_eq!(data.pre.state.len(), n, "{what}: pre.state entries");
	assert_eq!(data.pre.position.x.len(), n, "{what}: pre.position.x entries");
	assert_eq!(data.pre.buttons.len(), n, "{what}: pre.buttons entries");
	assert_eq!(data.post.character.len(), n, "{what}: post.character entries");
	assert_eq!(data.post.percent.len(), n, "{what}: post.percent entries");
	assert_eq!(data.post.stocks.len(), n, "{what}: post.stocks entries");
	if let Some(v) = &data.validity {
		assert_eq!(v.len(), n, "{what}: presence bitmap entries");
	}
	for (row, chars) in exp.rows.iter().enumerate() {
		let tag = chars
			.iter()
			.find(|c| c.0 == port && c.1 == follower)
			.map(|c| c.2);
		let present = data.validity.as_ref().map_or(true, |v| v.get_bit(row));
		assert_eq!(
			present,
			tag.is_some(),
			"{what}: presence in frame row {row}"
		);
		if let Some(tag) = tag {
			assert_eq!(
				data.pre.random_seed.values()[row],
				tag,
				"{what}: pre value in frame row {row}"
			);
			assert_eq!(
				data.post.percent.values()[row],
				tag as f32,
				"{what}: post value in frame row {row}"
			);
		}
	}
}

fn check(game: &Game, spec: &Spec, exp: &Expected) {
	let v = spec.version;
	let n = spec.frames.len();
	let frames = &game.frames;

	// one row per frame occurrence, in file order
	assert_eq!(frames.len(), n, "frame rows");
	let ids: Vec<i32> = frames.id.values().iter().copied().collect();
	let want: Vec<i32> = spec.frames.iter().map(|f| f.id).collect();
	assert_eq!(ids, want, "frame ids");

	// ports
	let occupied: Vec<u8> = (0..4u8)
		.filter(|p| spec.players[*p as usize].is_some())
		.collect();
	assert_eq!(frames.ports.len(), occupied.len(), "occupied ports");
	for (pd, &port) in frames.ports.iter().zip(&occupied) {
		assert_eq!(pd.port as u8, port);
		check_character(&format!("P{} leader", port + 1), &pd.leader, port, false, exp);
		let is_ics = spec.players[port as usize] == Some(14);
		assert_eq!(pd.follower.is_some(), is_ics);
		if let Some(f) = &pd.follower {
			check_character(&format!("P{} follower", port + 1), f, port, true, exp);
		}
	}

	// start / end columns
	assert_eq!(frames.start.is_some(), gte(v, 2, 2));
	if let Some(s) = &frames.start {
		assert_eq!(s.random_seed.len(), n, "start entries");
		let got: Vec<u32> = s.random_seed.values().iter().copied().collect();
		assert_eq!(got, exp.start_tags, "start values");
	}
	assert_eq!(frames.end.is_some(), gte(v, 3, 0));
	if let Some(lff) = frames.end.as_ref().and_then(|e| e.latest_finalized_frame.as_ref()) {
		assert_eq!(lff.len(), n, "end entries");
	}

	// items
	assert_eq!(frames.item_offset.is_some(), gte(v, 3, 0));
	if let (Some(off), Some(item)) = (&frames.item_offset, &frames.item) {
		assert_eq!(off.len_proxy(), n, "item groups");
		for row in 0..n {
			let (a, b) = off.start_end(row);
			let got: Vec<u32> = (a..b).map(|i| item.id.values()[i]).collect();
			assert_eq!(got, exp.items[row], "items of frame row {row}");
		}
		let total: usize = exp.items.iter().map(|x| x.len()).sum();
		assert_eq!(item.id.len(), total, "item entries");
	}
}

fn run(spec: &Spec) {
	let (bytes, exp) = build(spec);
	let game = slippi::read(Cursor::new(bytes.as_slice()), None)
		.unwrap_or_else(|e| panic!("well-formed replay rejected: {e}"));
	check(&game, spec, &exp);
}

// ---------------------------------------------------------------------------
// Histories
// ---------------------------------------------------------------------------

const FOX: u8 = 2;
const FALCO: u8 = 20;
const MARTH: u8 = 9;
const PEACH: u8 = 12;
const ICE_CLIMBERS: u8 = 14;

/// Every character of every occupied port.
fn everyone(players: &[Option<u8>; 4]) -> Vec<(u8, bool)> {
	let mut chars = Vec::new();
	for p in 0..4u8 {
		if let Some(c) = players[p as usize] {
			chars.push((p, false));
			if c == ICE_CLIMBERS {
				chars.push((p, true));
			}
		}
	}
	chars
}

/// `away` lists, per frame occurrence, the characters that have no events.
fn history(
	version: (u8, u8, u8),
	players: [Option<u8>; 4],
	is_teams: bool,
	ids: &[i32],
	away: &[&[(u8, bool)]],
) -> Spec {
	assert_eq!(ids.len(), away.len());
	let all = everyone(&players);
	Spec {
		version,
		players,
		is_teams,
		frames: ids
			.iter()
			.zip(away)
			.enumerate()
			.map(|(i, (&id, away))| FrameSpec {
				id,
				chars: all.iter().copied().filter(|c| !away.contains(c)).collect(),
				items: (i + 1) % 3,
			})
			.collect(),
	}
}

const P3: (u8, bool) = (2, false);
const P4: (u8, bool) = (3, false);
const POPO: (u8, bool) = (1, false);
const NANA: (u8, bool) = (1, true);

/// Sanity: a leader that leaves and never comes back, and a Nana that leaves
/// and comes back. Passes with or without the change.
#[test]
fn teams_leader_leaves_for_good_and_nana_returns() {
	for version in [(2, 2, 0), (3, 0, 0), (3, 16, 0)] {
		let players = [Some(FOX), Some(ICE_CLIMBERS), Some(MARTH), Some(PEACH)];
		run(&history(
			version,
			players,
			true,
			&[-123, -122, -121, -120, -119, -118],
			&[&[], &[NANA], &[NANA, P4], &[P4], &[P4], &[P4]],
		));
	}
}

/// 2v2, >= 3.0: P3 is out for two frames and then re-enters (stock share).
#[test]
fn teams_leader_returns_v3() {
	for version in [(3, 0, 0), (3, 7, 0), (3, 16, 0)] {
		let players = [Some(FOX), Some(FALCO), Some(MARTH), Some(PEACH)];
		run(&history(
			version,
			players,
			true,
			&[-123, -122, -121, -120, -119, -118],
			&[&[], &[], &[P3], &[P3], &[], &[]],
		));
	}
}

/// Same in the Frame-Start-only regime (2.2 - 2.x), three ports.
#[test]
fn teams_leader_returns_v2_2() {
	let players = [Some(FOX), None, Some(MARTH), Some(PEACH)];
	run(&history(
		(2, 2, 0),
		players,
		true,
		&[-123, -122, -121, -120, -119],
		&[&[], &[P4], &[P4], &[], &[]],
	));
}

/// The absence sits inside a rolled-back stretch: the first occurrence of
/// frame -121 has no P3, the replayed one does.
#[test]
fn leader_returns_across_rollback() {
	let players = [Some(FOX), Some(FALCO), Some(MARTH), None];
	run(&history(
		(3, 12, 0),
		players,
		false,
		&[-123, -122, -121, -122, -121, -120],
		&[&[], &[], &[P3], &[], &[], &[]],
	));
}

/// Ice Climbers: both Popo and Nana are gone for a frame, then both are back.
#[test]
fn popo_and_nana_return() {
	let players = [Some(FOX), Some(ICE_CLIMBERS), None, None];
	run(&history(
		(3, 7, 0),
		players,
		false,
		&[-123, -122, -121, -120, -119],
		&[&[], &[NANA], &[POPO, NANA], &[NANA], &[]],
	));
}

/// F10 reproduction: before 2.2 (no Frame Start events) Nana is absent for one frame and then returns.
#[test]
fn f10_nana_returns_before_2_2() {
	let players = [Some(FOX), Some(ICE_CLIMBERS), None, None];
	run(&history(
		(2, 0, 0),
		players,
		false,
		&[-123, -122, -121, -120, -119],
		&[&[], &[NANA], &[], &[], &[]],
	));
}
