//! Kani harnesses on the REAL peppi crate (path dependency on /repo, built with --cfg hohav_peppi_verif).
//! Loop-free harnesses over full input domains are complete proofs; harnesses with #[kani::unwind]
//! over bounded inputs are labelled bounded in bin/vp/kani.py and never counted as proved.
#![allow(unused)]
extern crate alloc;

#[cfg(kani)]
mod proofs {
	use peppi::verif_hooks as h;
	fn fmt_stub(_args: std::fmt::Arguments<'_>) -> String {
		String::new()
	}

	// C09: the .slp/.slpp writers' version ceiling, all 2^24 versions
	#[kani::proof]
	#[kani::stub(alloc::fmt::format, fmt_stub)]
	fn c09_assert_max_version() {
		let v = peppi::io::slippi::Version(kani::any(), kani::any(), kani::any());
		let res = h::assert_max_version(v);
		// property text: "exceeds the maximum supported version (compared as major, minor, patch)"; max = 3.16.0
		let le = ((v.0 as u32) << 16 | (v.1 as u32) << 8 | (v.2 as u32)) <= (3u32 << 16 | 16u32 << 8 | 0);
		assert!(res.is_ok() == le);
		std::mem::forget(res);
	}

	// C18: reader rejects archives whose format version is below the minimum (2.0.0), all 2^24 triples
	#[kani::proof]
	#[kani::stub(alloc::fmt::format, fmt_stub)]
	fn c18_assert_current_version() {
		let v = peppi::io::peppi::Version(kani::any(), kani::any(), kani::any());
		let res = h::assert_current_version(v);
		let lt = ((v.0 as u32) << 16 | (v.1 as u32) << 8 | (v.2 as u32)) < (2u32 << 16);
		assert!(res.is_err() == lt);
		std::mem::forget(res);
	}

	// C20: gte/lt on the real compiled code, all u8^4 (the third component is irrelevant by construction: also symbolic)
	#[kani::proof]
	fn c20_version_gte_lt() {
		let v = peppi::io::slippi::Version(kani::any(), kani::any(), kani::any());
		let (ma, mi): (u8, u8) = (kani::any(), kani::any());
		let ge = (v.0 as u32) * 256 + (v.1 as u32) >= (ma as u32) * 256 + (mi as u32);
		assert!(v.gte(ma, mi) == ge);
		assert!(v.lt(ma, mi) == !ge);
	}

	// C20: monotonicity of every gate in the version
	#[kani::proof]
	fn c20_gate_monotone() {
		let v = peppi::io::slippi::Version(kani::any(), kani::any(), kani::any());
		let w = peppi::io::slippi::Version(kani::any(), kani::any(), kani::any());
		let (ma, mi): (u8, u8) = (kani::any(), kani::any());
		kani::assume((v.0, v.1) <= (w.0, w.1));
		if v.gte(ma, mi) {
			assert!(w.gte(ma, mi));
		}
	}

	// shim validation (startend unit): player_bytes::<N, M> = M consecutive N-byte records, Err iff fewer than N*M bytes.
	// Bounded in (N, M) only by the instantiation (8 x 4, the UCF table); the slice content and length <= 40 are symbolic.
	#[kani::proof]
	#[kani::unwind(6)]
	fn k_player_bytes_8_4() {
		let data: [u8; 40] = kani::any();
		let len: usize = kani::any();
		kani::assume(len <= 40);
		let mut r: &[u8] = &data[..len];
		let res = h::player_bytes::<8, 4>(&mut r);
		if len >= 32 {
			assert!(res.is_ok());
			let a = res.as_ref().ok().unwrap();
			let i: usize = kani::any();
			let j: usize = kani::any();
			kani::assume(i < 4 && j < 8);
			assert!(a[i][j] == data[i * 8 + j]);
			assert!(r.len() == len - 32);
		} else {
			assert!(res.is_err());
		}
		std::mem::forget(res);
	}

	// C19: fix_char on ALL Unicode scalar values
	#[kani::proof]
	fn c19_fix_char() {
		let c: char = kani::any();
		let out = h::fix_char(c);
		let cu = c as u32;
		let exp = if cu >= 0xff01 && cu <= 0xff5e {
			cu - 0xff00 + 0x20 // full-width form -> corresponding ASCII character (U+FF01 -> '!' = 0x21)
		} else if cu == 0x3000 {
			0x20
		} else if cu == 0x2019 {
			0x27
		} else if cu == 0x201d {
			0x22
		} else {
			cu
		};
		assert!(out as u32 == exp);
		// idempotent
		assert!(h::fix_char(out) == out);
	}
}
