//! Kani harnesses on the REAL peppi crate (path dependency on /repo, built with --cfg hohav_peppi_verif).
//! Loop-free harnesses over full input domains are complete proofs; harnesses with #[kani::unwind]
//! over bounded inputs are labelled bounded in bin/vp/kani.py and never counted as proved.
#![allow(unused)]
extern crate alloc;

mod codec_gen;

#[cfg(kani)]
mod proofs {
	use peppi::verif_hooks as h;
	fn fmt_stub(_args: std::fmt::Arguments<'_>) -> String {
		String::new()
	}

	// C09: the .slp/.slpp writers' version ceiling, all 2^24 versions
	#[kani::proof]
	#[kani::stub(alloc::fmt::format, fmt_stub)]
	fn c09_assert_max_version() {
		let v = peppi::io::slippi::Version(kani::any(), kani::any(), kani::any());
		let res = h::assert_max_version(v);
		// property text: "exceeds the maximum supported version (compared as major, minor, patch)"; max = 3.16.0
		let le = ((v.0 as u32) << 16 | (v.1 as u32) << 8 | (v.2 as u32)) <= (3u32 << 16 | 16u32 << 8 | 0);
		assert!(res.is_ok() == le);
		std::mem::forget(res);
	}

	// C18: reader rejects archives whose format version is below the minimum (2.0.0), all 2^24 triples
	#[kani::proof]
	#[kani::stub(alloc::fmt::format, fmt_stub)]
	fn c18_assert_current_version() {
		let v = peppi::io::peppi::Version(kani::any(), kani::any(), kani::any());
		let res = h::assert_current_version(v);
		let lt = ((v.0 as u32) << 16 | (v.1 as u32) << 8 | (v.2 as u32)) < (2u32 << 16);
		assert!(res.is_err() == lt);
		std::mem::forget(res);
	}

	// C20: gte/lt on the real compiled code, all u8^4 (the third component is irrelevant by construction: also symbolic)
	#[kani::proof]
	fn c20_version_gte_lt() {
		let v = peppi::io::slippi::Version(kani::any(), kani::any(), kani::any());
		let (ma, mi): (u8, u8) = (kani::any(), kani::any());
		let ge = (v.0 as u32) * 256 + (v.1 as u32) >= (ma as u32) * 256 + (mi as u32);
		assert!(v.gte(ma, mi) == ge);
		assert!(v.lt(ma, mi) == !ge);
	}

	// C20: monotonicity of every gate in the version
	#[kani::proof]
	fn c20_gate_monotone() {
		let v = peppi::io::slippi::Version(kani::any(), kani::any(), kani::any());
		let w = peppi::io::slippi::Version(kani::any(), kani::any(), kani::any());
		let (ma, mi): (u8, u8) = (kani::any(), kani::any());
		kani::assume((v.0, v.1) <= (w.0, w.1));
		if v.gte(ma, mi) {
			assert!(w.gte(ma, mi));
		}
	}

	// shim validation (startend unit): player_bytes::<N, M> = M consecutive N-byte records, Err iff fewer than N*M bytes.
	// Bounded in (N, M) only by the instantiation (8 x 4, the UCF table); the slice content and length <= 40 are symbolic.
	#[kani::proof]
	#[kani::unwind(6)]
	fn k_player_bytes_8_4() {
		let data: [u8; 40] = kani::any();
		let len: usize = kani::any();
		kani::assume(len <= 40);
		let mut r: &[u8] = &data[..len];
		let res = h::player_bytes::<8, 4>(&mut r);
		if len >= 32 {
			assert!(res.is_ok());
			let a = res.as_ref().ok().unwrap();
			let i: usize = kani::any();
			let j: usize = kani::any();
			kani::assume(i < 4 && j < 8);
			assert!(a[i][j] == data[i * 8 + j]);
			assert!(r.len() == len - 32);
		} else {
			assert!(res.is_err());
		}
		std::mem::forget(res);
	}


	// C20 (string half): io::parse_u8 on every byte string of length <= 4 that is valid UTF-8: Ok(n) exactly for an optional '+'
	// followed by 1..3(4) decimal digits whose value is <= 255.  BOUNDED by the length (longer strings: leading zeros only).
	#[kani::proof]
	#[kani::unwind(6)]
	#[kani::stub(alloc::fmt::format, fmt_stub)]
	fn c20_parse_u8_len4() {
		let data: [u8; 4] = kani::any();
		let len: usize = kani::any();
		kani::assume(len <= 4);
		let bytes = &data[..len];
		// ASCII only (every non-ASCII string is rejected by the real parser too, but from_utf8 on symbolic bytes is costly)
		let mut i = 0;
		while i < len {
			kani::assume(data[i] < 128);
			i += 1;
		}
		let s = unsafe { std::str::from_utf8_unchecked(bytes) };
		let res = h::parse_u8(s);
		// reference: optional '+', then at least one digit, all digits, value <= 255
		let start = if len > 0 && data[0] == b'+' { 1 } else { 0 };
		let mut ok = len > start;
		let mut val: u32 = 0;
		let mut j = start;
		while j < len {
			if data[j] < b'0' || data[j] > b'9' {
				ok = false;
			} else {
				val = val * 10 + (data[j] - b'0') as u32;
			}
			j += 1;
		}
		if ok && val <= 255 {
			assert!(res.is_ok());
			assert!(*res.as_ref().ok().unwrap() as u32 == val);
		} else {
			assert!(res.is_err());
		}
		std::mem::forget(res);
	}

	// K-shim: the byteorder contracts assumed by the Verus shim (shim/core.rs, shim/write.rs), checked on the real byteorder
	// crate: big-endian readers on a byte slice decode bytes[0..n], advance the slice by n, and fail (slice untouched in length
	// terms irrelevant) when fewer than n bytes remain; writers on Vec<u8> append exactly the big-endian bytes.  Loop-free, all
	// byte contents and all lengths 0..=8: complete.
	#[kani::proof]
	#[kani::unwind(9)]
	fn kshim_byteorder_be() {
		use byteorder::{ReadBytesExt, WriteBytesExt, BE};
		let data: [u8; 8] = kani::any();
		let len: usize = kani::any();
		kani::assume(len <= 8);
		{
			let mut r: &[u8] = &data[..len];
			let x = r.read_u8();
			if len >= 1 { assert!(x.is_ok() && *x.as_ref().ok().unwrap() == data[0] && r.len() == len - 1); } else { assert!(x.is_err()); }
			std::mem::forget(x);
		}
		{
			let mut r: &[u8] = &data[..len];
			let x = r.read_i8();
			if len >= 1 { assert!(x.is_ok() && *x.as_ref().ok().unwrap() == data[0] as i8 && r.len() == len - 1); } else { assert!(x.is_err()); }
			std::mem::forget(x);
		}
		{
			let mut r: &[u8] = &data[..len];
			let x = r.read_u16::<BE>();
			if len >= 2 { assert!(x.is_ok() && *x.as_ref().ok().unwrap() == (data[0] as u16) * 256 + data[1] as u16 && r.len() == len - 2); } else { assert!(x.is_err()); }
			std::mem::forget(x);
		}
		{
			let mut r: &[u8] = &data[..len];
			let x = r.read_i16::<BE>();
			if len >= 2 { assert!(x.is_ok() && *x.as_ref().ok().unwrap() == ((data[0] as u16) * 256 + data[1] as u16) as i16 && r.len() == len - 2); } else { assert!(x.is_err()); }
			std::mem::forget(x);
		}
		let be32 = (data[0] as u32) * 16777216 + (data[1] as u32) * 65536 + (data[2] as u32) * 256 + data[3] as u32;
		{
			let mut r: &[u8] = &data[..len];
			let x = r.read_u32::<BE>();
			if len >= 4 { assert!(x.is_ok() && *x.as_ref().ok().unwrap() == be32 && r.len() == len - 4); } else { assert!(x.is_err()); }
			std::mem::forget(x);
		}
		{
			let mut r: &[u8] = &data[..len];
			let x = r.read_i32::<BE>();
			if len >= 4 { assert!(x.is_ok() && *x.as_ref().ok().unwrap() == be32 as i32 && r.len() == len - 4); } else { assert!(x.is_err()); }
			std::mem::forget(x);
		}
		{
			// f32: carried as its bit pattern (the shim's f32_from_bits / f32_bits)
			let mut r: &[u8] = &data[..len];
			let x = r.read_f32::<BE>();
			if len >= 4 { assert!(x.is_ok() && x.as_ref().ok().unwrap().to_bits() == be32 && r.len() == len - 4); } else { assert!(x.is_err()); }
			std::mem::forget(x);
		}
	}

	#[kani::proof]
	fn kshim_byteorder_write_be() {
		use byteorder::{WriteBytesExt, BE};
		let a: u8 = kani::any();
		let b: u16 = kani::any();
		let c: u32 = kani::any();
		let d: i32 = kani::any();
		let mut w: Vec<u8> = Vec::with_capacity(16);
		w.write_u8(a).unwrap();
		w.write_u16::<BE>(b).unwrap();
		w.write_u32::<BE>(c).unwrap();
		w.write_i32::<BE>(d).unwrap();
		assert!(w.len() == 11);
		assert!(w[0] == a && w[1] == (b / 256) as u8 && w[2] == (b % 256) as u8);
		assert!(w[3] == (c / 16777216) as u8 && w[4] == ((c / 65536) % 256) as u8 && w[5] == ((c / 256) % 256) as u8 && w[6] == (c % 256) as u8);
		let du = d as u32;
		assert!(w[7] == (du / 16777216) as u8 && w[10] == (du % 256) as u8);
	}

	// C19: fix_char on ALL Unicode scalar values
	#[kani::proof]
	fn c19_fix_char() {
		let c: char = kani::any();
		let out = h::fix_char(c);
		let cu = c as u32;
		let exp = if cu >= 0xff01 && cu <= 0xff5e {
			cu - 0xff00 + 0x20 // full-width form -> corresponding ASCII character (U+FF01 -> '!' = 0x21)
		} else if cu == 0x3000 {
			0x20
		} else if cu == 0x2019 {
			0x27
		} else if cu == 0x201d {
			0x22
		} else {
			cu
		};
		assert!(out as u32 == exp);
		// idempotent
		assert!(h::fix_char(out) == out);
	}
}
