"""Unit hash: io::HashingReader (new / read / seek / into_digest) and format_hash (C11)."""
TEMPLATE = r'''use vstd::prelude::*;
// `format!` is shadowed (R13): the one literal the property speaks about gets the std-documented meaning
// of `{:016x}`; any other format string yields an unspecified String, so the postcondition fails.
macro_rules! format {
	("xxh3:{:016x}", $a:expr) => { fmt_xxh3_016x($a) };
	($($t:tt)*) => { fmt_unspecified() };
}
verus! {
//@use core.rs
//@use stream.rs

// "xxh3:" followed by the 16-hex-digit (lowercase, zero padded) rendering of d
pub open spec fn hex_digit(n: int) -> char { if n < 10 { (48 + n) as char } else { (87 + n) as char } }
pub open spec fn hash_text(d: u64) -> Seq<char> {
	seq!['x', 'x', 'h', '3', ':'] + Seq::new(16, |i: int| hex_digit(((d as int) / vstd::arithmetic::power::pow(16, (15 - i) as nat)) % 16))
}
#[verifier::external_body]
pub fn fmt_xxh3_016x(d: &u64) -> (r: String) ensures r@ == hash_text(*d) { unimplemented!() }
#[verifier::external_body]
pub fn fmt_unspecified() -> (r: String) { unimplemented!() }

//@struct src/io/mod.rs HashingReader

impl<R: Read> HashingReader<R> {
//@fn src/io/mod.rs | impl<R: Read> HashingReader<R> | new | ret=res
	requires reader.inv(), reader.consumed() == Seq::<u8>::empty(),
	ensures res.inv(),
		res.consumed() == Seq::<u8>::empty(),
		res.hasher is Some == hash /*[C11.hashing_iff_requested]*/,
		res.hit_eof() == reader.hit_eof(), res.rest() == reader.rest(),
//@end
//@fn src/io/mod.rs | impl<R: Read> HashingReader<R> | into_digest | ret=res
	requires self.inv(),
	ensures
		self.hasher is None ==> res is None /*[C11.no_hash_unless_hashing]*/,
		self.hasher is Some ==> res is Some && res->Some_0@ == hash_text(xxh3_64(self.consumed())) /*[C11.digest_of_consumed]*/,
//@end
}

impl<R: Read> Read for HashingReader<R> {
	open spec fn rest(&self) -> Seq<u8> { self.reader.rest() }
	open spec fn consumed(&self) -> Seq<u8> { self.reader.consumed() }
	open spec fn hit_eof(&self) -> bool { self.reader.hit_eof() }
	open spec fn stable(&self) -> bool { self.hasher is Some }
	// representation invariant: while hashing is on, the hasher has been fed exactly the bytes delivered
	open spec fn inv(&self) -> bool {
		self.reader.inv() && (self.hasher is Some ==> self.hasher->Some_0.fed() == self.reader.consumed())
	}
//@fn src/io/mod.rs | impl<R: Read> Read for HashingReader<R> | read | ret=res
//@end
}

impl<R: Read + Seek> Seek for HashingReader<R> {
//@fn src/io/mod.rs | impl<R: Read + Seek> Seek for HashingReader<R> | seek | ret=res | sigsub=/std::io::Result<u64>/std::result::Result<u64, IoError>/
	// (beyond the Seek contract) seeking disables hashing
	ensures res is Ok ==> (*final(self)).hasher is None /*[C11.seek_disables_hash]*/,
//@end
}

//@fn src/io/mod.rs | - | format_hash | ret=res
	ensures res@ == hash_text(xxh3_64(hasher.fed())) /*[C11.format]*/,
//@end

} // verus!
fn main() {}
'''


def template(repo):
    return TEMPLATE
