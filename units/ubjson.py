"""Unit ubjson: the minimal UBJSON reader/writer for the metadata element (src/io/ubjson/{de,ser}.rs).  Serves C16 (and C12/C06/C07 for the metadata reader)."""

TEMPLATE = r'''use vstd::prelude::*;
macro_rules! err { ($($t:tt)*) => { mk_err() } }
// `write!` on a std::io::Write: the literals the writer uses, `{}` of a &str, anything else is unspecified output
macro_rules! write {
	($w:expr, "{}", $s:expr) => { write_str($w, $s) };
	($w:expr, "U") => { write_byte($w, 0x55) };
	($w:expr, "S") => { write_byte($w, 0x53) };
	($w:expr, "l") => { write_byte($w, 0x6c) };
	($w:expr, "{{") => { write_byte($w, 0x7b) };
	($w:expr, "}}") => { write_byte($w, 0x7d) };
	($($t:tt)*) => { write_unspecified() };
}
verus! {
//@use core.rs
//@use stream.rs
//@use write.rs
//@use error.rs
//@use json.rs
//@use std_int.rs
global size_of usize == 8;
broadcast use shim_core::group_bytes;
broadcast use shim_core::lemma_skip_skip;
pub fn rt_unreachable() requires false {}
type BigEndian = shim_core::BE;
#[verifier::external_body]
pub fn write_str<W: Write>(w: &mut W, s: &str) -> (res: std::result::Result<(), IoError>)
	ensures res is Ok ==> (*final(w)).written() == (*old(w)).written() + str_bytes(s) { unimplemented!() }
#[verifier::external_body]
pub fn write_byte<W: Write>(w: &mut W, b: u8) -> (res: std::result::Result<(), IoError>)
	ensures res is Ok ==> (*final(w)).written() == (*old(w)).written() + seq![b] { unimplemented!() }
#[verifier::external_body]
pub fn write_unspecified() -> (res: std::result::Result<(), IoError>) { unimplemented!() }

// ---------------- the encoding (property C16: U-length strings, l integers, nested maps) ----------------
pub open spec fn enc_bytes(b: Seq<u8>) -> Seq<u8> { seq![0x55u8] + seq![b.len() as u8] + b }
pub open spec fn enc_str(s: &str) -> Seq<u8> { enc_bytes(str_bytes(s)) }
pub open spec fn enc_val(v: Value) -> Seq<u8> decreases v {
	match v {
		Value::String(s) => seq![0x53u8] + enc_bytes(string_bytes(s)),
		Value::Number(n) => seq![0x6cu8] + bytes_i32(n.as_i64_spec()->Some_0 as i32),
		Value::Object(o) => seq![0x7bu8] + enc_entries(o.kv@, o.kv@.len() as int) + seq![0x7du8],
		_ => Seq::empty(),
	}
}
pub open spec fn enc_entries(es: Seq<(String, Value)>, n: int) -> Seq<u8> decreases es, n {
	if n <= 0 || n > es.len() { Seq::empty() } else { enc_entries(es, n - 1) + enc_bytes(string_bytes(es[n - 1].0)) + enc_val(es[n - 1].1) }
}
// trees the format can carry: strings up to 255 bytes, 32-bit integers, nested maps
pub open spec fn val_ok(v: Value) -> bool decreases v {
	match v {
		Value::String(s) => string_bytes(s).len() <= 255,
		Value::Number(n) => n.as_i64_spec() is Some && -0x8000_0000 <= n.as_i64_spec()->Some_0 <= 0x7fff_ffff,
		Value::Object(o) => entries_ok(o.kv@, o.kv@.len() as int),
		_ => false,
	}
}
pub open spec fn entries_ok(es: Seq<(String, Value)>, n: int) -> bool decreases es, n {
	if n <= 0 || n > es.len() { true } else { entries_ok(es, n - 1) && string_bytes(es[n - 1].0).len() <= 255 && val_ok(es[n - 1].1) }
}

pub proof fn lemma_entries_ok_at(es: Seq<(String, Value)>, n: int, i: int)
	requires entries_ok(es, n), 0 <= i < n <= es.len(),
	ensures string_bytes(es[i].0).len() <= 255, val_ok(es[i].1),
	decreases n
{
	if i < n - 1 { lemma_entries_ok_at(es, n - 1, i); }
}
// ---------------- src/io/ubjson/ser.rs ----------------
type IoResult<T> = std::result::Result<T, IoError>;
pub mod ser {
use vstd::prelude::*;
use super::*;
type Result<T> = std::result::Result<T, IoError>;
//@fn src/io/ubjson/ser.rs | - | write_utf8 | ret=res | sub=/s.len().try_into().unwrap()/str_len(s).try_into().unwrap()/
	requires str_bytes(s).len() <= 255,
	ensures res is Ok ==> (*final(w)).written() == (*old(w)).written() + enc_str(s) /*[C16.string_as_U_len_bytes]*/,
//@end
//@fn src/io/ubjson/ser.rs | - | write_map | ret=res | rules=R4g | sigsub=/Map<String, Value>/JsMap/ | sub=/write_utf8(w, k)?/write_utf8(w, k.as_str())?/ | sub=/write_utf8(w, s)?/write_utf8(w, s.as_str())?/ | sub=/_ => unimplemented!(),/_ => rt_unreachable(),/
	requires entries_ok(map@, map@.len() as int),
	ensures res is Ok ==> (*final(w)).written() == (*old(w)).written() + enc_entries(map@, map@.len() as int) /*[C16.map_written_in_key_order]*/,
	decreases map,
//@loop 1
		invariant im__ <= map@.len(), entries_ok(map@, map@.len() as int),
			w.written() == (*old(w)).written() + enc_entries(map@, im__ as int),
		decreases map@.len() - im__,
//@before write_utf8(w, k
		proof { lemma_entries_ok_at(map@, map@.len() as int, im__ as int); }
//@before im__ += 1
		proof {
			let es = map@; let i = im__ as int;
			assert(es[i].0 == *k && es[i].1 == *v);
			assert(enc_entries(es, i + 1) == enc_entries(es, i) + enc_bytes(string_bytes(es[i].0)) + enc_val(es[i].1));
			match v {
				Value::String(s) => { let s = *s; assert(w.written() =~= (*old(w)).written() + enc_entries(es, i) + enc_bytes(string_bytes(*k)) + (seq![0x53u8] + enc_bytes(string_bytes(s)))); }
				Value::Number(n) => { let n = *n; assert(w.written() =~= (*old(w)).written() + enc_entries(es, i) + enc_bytes(string_bytes(*k)) + (seq![0x6cu8] + bytes_i32(n.as_i64_spec()->Some_0 as i32))); }
				Value::Object(o) => { let o = *o; assert(w.written() =~= (*old(w)).written() + enc_entries(es, i) + enc_bytes(string_bytes(*k)) + (seq![0x7bu8] + enc_entries(o.kv@, o.kv@.len() as int) + seq![0x7du8])); }
				_ => {}
			}
			assert(w.written() =~= (*old(w)).written() + enc_entries(map@, im__ as int + 1));
		}
//@end
}

// ---------------- src/io/ubjson/de.rs ----------------
type Result<T> = std::result::Result<T, Error>;
//@fn src/io/ubjson/de.rs | - | to_utf8 | ret=res | sub=/r.read_exact(&mut buf)?/r.read_exact(buf.as_mut_slice())?/ | sub=/String::from_utf8(buf)?/string_from_utf8(buf)?/
	requires (*old(r)).inv(), !(*old(r)).hit_eof(),
	ensures (*final(r)).inv(), (*final(r)).stable() == (*old(r)).stable(), (*final(r)).hit_eof() ==> res is Err /*[C07.eof_is_an_error]*/,
		res is Ok ==> ({
			let rest = (*old(r)).rest();
			&&& rest.len() >= 1 && rest.len() >= 1 + rest[0]
			&&& string_bytes(res->Ok_0) == rest.subrange(1, 1 + rest[0] as int) /*[C16.string_bytes_after_length_byte]*/
			&&& (*final(r)).rest() == skip(rest, 1 + rest[0] as int) /*[C12.string_consumed_exactly]*/
			&&& (*final(r)).consumed() == (*old(r)).consumed() + (seq![string_bytes(res->Ok_0).len() as u8] + string_bytes(res->Ok_0))
			&&& string_bytes(res->Ok_0).len() == rest[0] && string_bytes(res->Ok_0).len() <= 255
			&&& !(*final(r)).hit_eof()
		}),
		// completeness: a length byte followed by that many bytes of valid UTF-8 is accepted (lengths 0..255, whatever follows)
		({ let rest = (*old(r)).rest(); rest.len() >= 1 && rest.len() >= 1 + rest[0] && valid_utf8(rest.subrange(1, 1 + rest[0] as int)) }) ==> res is Ok /*[C16.well_formed_string_accepted]*/,
//@end
pub open spec fn ustring_ok(rest: Seq<u8>) -> bool { rest.len() >= 1 && rest.len() >= 1 + rest[0] && valid_utf8(rest.subrange(1, 1 + rest[0] as int)) }

// no map anywhere in the tree was built with a repeated key (C16: "with distinct keys per map")
pub open spec fn val_nodup(v: Value) -> bool decreases v {
	match v { Value::Object(o) => !o.dup && entries_nodup(o.kv@, o.kv@.len() as int), _ => true }
}
pub open spec fn entries_nodup(es: Seq<(String, Value)>, n: int) -> bool decreases es, n {
	if n <= 0 || n > es.len() { true } else { entries_nodup(es, n - 1) && val_nodup(es[n - 1].1) }
}
// the three recursive predicates only look at the first n entries
pub proof fn lemma_entries_prefix(a: Seq<(String, Value)>, b: Seq<(String, Value)>, n: int)
	requires 0 <= n <= a.len(), n <= b.len(), forall|i: int| 0 <= i < n ==> a[i] == b[i],
	ensures enc_entries(a, n) == enc_entries(b, n), entries_ok(a, n) == entries_ok(b, n), entries_nodup(a, n) == entries_nodup(b, n),
	decreases n
{
	if n > 0 { lemma_entries_prefix(a, b, n - 1); }
}
pub proof fn lemma_entries_push(es: Seq<(String, Value)>, e: (String, Value))
	ensures
		enc_entries(es.push(e), es.len() as int + 1) == enc_entries(es, es.len() as int) + enc_bytes(string_bytes(e.0)) + enc_val(e.1),
		entries_ok(es.push(e), es.len() as int + 1) == (entries_ok(es, es.len() as int) && string_bytes(e.0).len() <= 255 && val_ok(e.1)),
		entries_nodup(es.push(e), es.len() as int + 1) == (entries_nodup(es, es.len() as int) && val_nodup(e.1)),
{
	lemma_entries_prefix(es.push(e), es, es.len() as int);
}
// the reader's side of the round trip: whatever tree it returns, the bytes it consumed are exactly the encoding of that tree
//@fn src/io/ubjson/de.rs | - | to_key | ret=res
	requires (*old(r)).inv(), !(*old(r)).hit_eof(),
	ensures (*final(r)).inv(), (*final(r)).stable() == (*old(r)).stable(), (*final(r)).hit_eof() ==> res is Err /*[C07.eof_is_an_error]*/,
		res is Ok ==> !(*final(r)).hit_eof(),
		res is Ok && res->Ok_0 is Some ==> string_bytes(res->Ok_0->Some_0).len() <= 255,
		res is Ok && res->Ok_0 is Some ==> (*final(r)).consumed() == (*old(r)).consumed() + enc_bytes(string_bytes(res->Ok_0->Some_0)) /*[C16.key_bytes]*/,
		res is Ok && res->Ok_0 is Some ==> (*final(r)).rest() == skip((*old(r)).rest(), (enc_bytes(string_bytes(res->Ok_0->Some_0))).len() as int) && (*old(r)).rest().len() >= (enc_bytes(string_bytes(res->Ok_0->Some_0))).len(),
		res is Ok && res->Ok_0 is None ==> (*final(r)).consumed() == (*old(r)).consumed() + seq![0x7du8] /*[C16.map_ends_at_closing_brace]*/,
		res is Ok && res->Ok_0 is None ==> (*final(r)).rest() == skip((*old(r)).rest(), (seq![0x7du8]).len() as int) && (*old(r)).rest().len() >= (seq![0x7du8]).len(),
		// completeness: the closing brace ends the map, and a U-marked well-formed string is a key
		(*old(r)).rest().len() >= 1 && (*old(r)).rest()[0] == 0x7d ==> res is Ok && res->Ok_0 is None /*[C16.closing_brace_accepted]*/,
		(*old(r)).rest().len() >= 1 && (*old(r)).rest()[0] == 0x55 && ustring_ok(skip((*old(r)).rest(), 1)) ==> res is Ok && res->Ok_0 is Some /*[C16.well_formed_key_accepted]*/,
//@end
// C06 (stack depth): the two mutually recursive functions carry the nesting level; their termination measure is
// MAX_DEPTH + 1 - depth, so the depth of the recursion is bounded by a constant whatever the input holds
//@const src/io/ubjson/de.rs MAX_DEPTH
//@fn src/io/ubjson/de.rs | - | to_val | ret=res | tail | sub=/serde_json::Number::from(/Number::from(/
	requires (*old(r)).inv(), !(*old(r)).hit_eof(), depth <= MAX_DEPTH /*[C06.metadata_nesting_bounded]*/,
	ensures (*final(r)).inv(), (*final(r)).stable() == (*old(r)).stable(), (*final(r)).hit_eof() ==> res is Err /*[C07.eof_is_an_error]*/,
		res is Ok ==> !(*final(r)).hit_eof() && (*final(r)).rest().len() < (*old(r)).rest().len(),
		res is Ok && val_nodup(res->Ok_0) ==> val_ok(res->Ok_0) /*[C16.values_are_strings_ints_maps]*/,
		res is Ok ==> (*old(r)).consumed().is_prefix_of((*final(r)).consumed()),
		res is Ok && val_nodup(res->Ok_0) ==> (*final(r)).consumed() == (*old(r)).consumed() + enc_val(res->Ok_0) /*[C16.value_bytes_are_its_encoding]*/,
		res is Ok && val_nodup(res->Ok_0) ==> (*final(r)).rest() == skip((*old(r)).rest(), (enc_val(res->Ok_0)).len() as int) && (*old(r)).rest().len() >= (enc_val(res->Ok_0)).len(),
		// completeness of the leaves: every 32-bit integer and every well-formed string value is accepted
		(*old(r)).rest().len() >= 5 && (*old(r)).rest()[0] == 0x6c ==> res is Ok && res->Ok_0 is Number /*[C16.every_i32_accepted]*/,
		(*old(r)).rest().len() >= 2 && (*old(r)).rest()[0] == 0x53 && (*old(r)).rest()[1] == 0x55 && ustring_ok(skip((*old(r)).rest(), 2)) ==> res is Ok && res->Ok_0 is String /*[C16.well_formed_string_value_accepted]*/,
	decreases MAX_DEPTH + 1 - depth, 0int,
//@after let ret__
	proof {
		if ret__ is Ok {
			let c0 = (*old(r)).consumed();
			match ret__->Ok_0 {
				Value::String(s) => { assert(r.consumed() =~= c0 + (seq![0x53u8] + enc_bytes(string_bytes(s)))); }
				Value::Number(n) => { lemma_bytes_be_i32(skip((*old(r)).rest(), 1), 0); assert(r.consumed() =~= c0 + (seq![0x6cu8] + bytes_i32(n.as_i64_spec()->Some_0 as i32))); }
				Value::Object(o) => { if !o.dup && entries_nodup(o.kv@, o.kv@.len() as int) { assert(r.consumed() =~= c0 + (seq![0x7bu8] + enc_entries(o.kv@, o.kv@.len() as int) + seq![0x7du8])); } }
				_ => {}
			}
		}
	}
//@end
//@fn src/io/ubjson/de.rs | - | read_map_at | ret=res | sigsub=/Map<String, Value>/JsMap/ | sub=/Map::new()/JsMap::new()/
	requires (*old(r)).inv(), !(*old(r)).hit_eof(), depth <= MAX_DEPTH + 1 /*[C06.metadata_nesting_bounded]*/,
	ensures (*final(r)).inv(), (*final(r)).stable() == (*old(r)).stable(), (*final(r)).hit_eof() ==> res is Err /*[C07.eof_is_an_error]*/,
		res is Ok ==> !(*final(r)).hit_eof() && (*final(r)).rest().len() < (*old(r)).rest().len()
			&& (*final(r)).consumed().len() > (*old(r)).consumed().len() && (*old(r)).consumed().is_prefix_of((*final(r)).consumed()) && (*final(r)).consumed().last() == 0x7du8 /*[C06.metadata_reader_consumes_input]*/,
		res is Ok && !res->Ok_0.dup && entries_nodup(res->Ok_0@, res->Ok_0@.len() as int) ==> entries_ok(res->Ok_0@, res->Ok_0@.len() as int),
		res is Ok && !res->Ok_0.dup && entries_nodup(res->Ok_0@, res->Ok_0@.len() as int) ==> (*final(r)).consumed() == (*old(r)).consumed() + enc_entries(res->Ok_0@, res->Ok_0@.len() as int) + seq![0x7du8] /*[C16.map_bytes_are_its_encoding_in_order]*/,
		res is Ok && !res->Ok_0.dup && entries_nodup(res->Ok_0@, res->Ok_0@.len() as int) ==> (*final(r)).rest() == skip((*old(r)).rest(), (enc_entries(res->Ok_0@, res->Ok_0@.len() as int) + seq![0x7du8]).len() as int) && (*old(r)).rest().len() >= (enc_entries(res->Ok_0@, res->Ok_0@.len() as int) + seq![0x7du8]).len(),
	decreases MAX_DEPTH + 1 - depth, 1int,
//@loop 1
		invariant_except_break
			depth <= MAX_DEPTH,
			(*r).inv(), !(*r).hit_eof(), (*r).stable() == (*old(r)).stable(),
			(*r).rest().len() <= (*old(r)).rest().len(),
			(*old(r)).consumed().is_prefix_of((*r).consumed()),
			!m.dup && entries_nodup(m@, m@.len() as int) ==> entries_ok(m@, m@.len() as int),
			!m.dup && entries_nodup(m@, m@.len() as int) ==> (*r).consumed() == (*old(r)).consumed() + enc_entries(m@, m@.len() as int)
				&& (*r).rest() == skip((*old(r)).rest(), enc_entries(m@, m@.len() as int).len() as int) && (*old(r)).rest().len() >= enc_entries(m@, m@.len() as int).len(),
		ensures (*r).inv(), !(*r).hit_eof(), (*r).stable() == (*old(r)).stable(),
			(*r).rest().len() < (*old(r)).rest().len(),
			(*r).consumed().len() > (*old(r)).consumed().len() && (*old(r)).consumed().is_prefix_of((*r).consumed()) && (*r).consumed().last() == 0x7du8,
			!m.dup && entries_nodup(m@, m@.len() as int) ==> entries_ok(m@, m@.len() as int),
			!m.dup && entries_nodup(m@, m@.len() as int) ==> (*r).consumed() == (*old(r)).consumed() + (enc_entries(m@, m@.len() as int) + seq![0x7du8])
				&& (*r).rest() == skip((*old(r)).rest(), (enc_entries(m@, m@.len() as int) + seq![0x7du8]).len() as int) && (*old(r)).rest().len() >= (enc_entries(m@, m@.len() as int) + seq![0x7du8]).len(),
		decreases (*r).rest().len(),
//@before m.insert(
			let ghost m0 = m@;
			let ghost k0 = k;
//@after m.insert(
			proof {
				if !has_key(m0, k0) {
					let v0 = m@[m0.len() as int].1;
					lemma_entries_push(m0, (k0, v0));
					assert(m@ == m0.push((k0, v0)));
					if !m.dup && entries_nodup(m@, m@.len() as int) {
						assert(r.consumed() =~= (*old(r)).consumed() + enc_entries(m@, m@.len() as int));
					}
				}
			}
//@end

//@fn src/io/ubjson/de.rs | - | read_map | ret=res | sigsub=/Map<String, Value>/JsMap/
	requires (*old(r)).inv(), !(*old(r)).hit_eof(),
	ensures (*final(r)).inv(), (*final(r)).stable() == (*old(r)).stable(), (*final(r)).hit_eof() ==> res is Err /*[C07.eof_is_an_error]*/,
		res is Ok ==> !(*final(r)).hit_eof() && (*final(r)).rest().len() < (*old(r)).rest().len()
			&& (*final(r)).consumed().len() > (*old(r)).consumed().len() && (*old(r)).consumed().is_prefix_of((*final(r)).consumed()) && (*final(r)).consumed().last() == 0x7du8 /*[C06.metadata_reader_consumes_input]*/,
		res is Ok && !res->Ok_0.dup && entries_nodup(res->Ok_0@, res->Ok_0@.len() as int) ==> entries_ok(res->Ok_0@, res->Ok_0@.len() as int),
		res is Ok && !res->Ok_0.dup && entries_nodup(res->Ok_0@, res->Ok_0@.len() as int) ==> (*final(r)).consumed() == (*old(r)).consumed() + enc_entries(res->Ok_0@, res->Ok_0@.len() as int) + seq![0x7du8] /*[C16.map_bytes_are_its_encoding_in_order]*/,
		res is Ok && !res->Ok_0.dup && entries_nodup(res->Ok_0@, res->Ok_0@.len() as int) ==> (*final(r)).rest() == skip((*old(r)).rest(), (enc_entries(res->Ok_0@, res->Ok_0@.len() as int) + seq![0x7du8]).len() as int) && (*old(r)).rest().len() >= (enc_entries(res->Ok_0@, res->Ok_0@.len() as int) + seq![0x7du8]).len(),
//@end

} // verus!
fn main() {}
'''


def template(repo):
    return TEMPLATE
