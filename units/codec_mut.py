"""Unit codec_mut: the generated readers in src/frame/mutable.rs (with_capacity, len, push_null,
read_push, transpose_one for the 11 codec structs) against the independent layout table."""
from vp import gen_codec

REL = 'src/frame/mutable.rs'
TREL = 'src/frame/transpose.rs'

HEADER = '''use vstd::prelude::*;
verus! {

//@use core.rs
//@use version.rs
type Result<T> = std::result::Result<T, IoError>;
'''


def template(repo):
    L = gen_codec.build_layouts(repo, REL, 'MutablePrimitiveArray', 'MutableBitmap')
    out = [HEADER]
    out.append('pub mod transpose {\nuse super::*;')
    for s in gen_codec.ORDER:
        out.append('//@struct %s %s' % (TREL, s))
    out.append('}')
    for s in gen_codec.ORDER:
        out.append('//@struct %s %s' % (REL, s))
        out.append(gen_codec.mutable_specs(L, s))
        out.append(gen_codec.mutable_fn_contracts(L, s, REL))
    out.append('} // verus!\nfn main() {}')
    return '\n'.join(out)
