"""Unit arrow: src/frame/immutable/peppi.rs — the generated data_type / into_struct_array / from_struct_array
triples of the 11 codec structs plus Data / PortData / Frame, against the independent field table (C14, C02)."""
from vp import gen_codec

REL = 'src/frame/immutable/mod.rs'
REL_P = 'src/frame/immutable/peppi.rs'

HEADER = r'''use vstd::prelude::*;
macro_rules! assert_eq { ($a:expr, $b:expr) => { rt_assert(name_eq($a, &$b)) } }
macro_rules! format { ($f:expr, $p:expr) => { port_to_string($p) } }
verus! {
//@use core.rs
//@use arrow_imm.rs
//@use arrow_struct.rs
//@use version.rs
//@use error.rs
broadcast use PrimitiveArray::axiom_values_spec;
'''


FRAME = r'''
// ------------------------------------------------------------------------------------------------
// Data / PortData / Frame
//@struct src/frame/mod.rs PortOccupancy
//@enum src/game/mod.rs Port
//@const src/game/mod.rs NUM_PORTS
// Display for Port ("P1".."P4") and Port::parse are inverse on the four ports (assumed here; checked natively, 4 cases)
pub open spec fn port_name(p: Port) -> Seq<char> { match p { Port::P1 => "P1"@, Port::P2 => "P2"@, Port::P3 => "P3"@, Port::P4 => "P4"@ } }
#[verifier::external_body]
pub fn port_to_string(p: Port) -> (r: String) ensures r@ == port_name(p) { unimplemented!() }
impl Port {
	#[verifier::external_body]
	pub fn parse(s: &String) -> (r: std::result::Result<Port, String>)
		ensures forall|p: Port| s@ == port_name(p) ==> r == std::result::Result::<Port, String>::Ok(p)
	{ unimplemented!() }
}
//@struct src/frame/immutable/mod.rs Data
//@struct src/frame/immutable/mod.rs PortData
//@struct src/frame/immutable/mod.rs Frame | tysub=/OffsetsBuffer<i32>/OffsetsBuffer<i32>/

pub open spec fn data_wf(d: Data, v: Version, n: nat) -> bool {
	&&& d.pre.wf(v) && d.pre.len_spec() == n
	&&& d.post.wf(v) && d.post.len_spec() == n
	&&& (d.validity is Some ==> d.validity->Some_0@.len() == n)
}
pub open spec fn port_wf(p: PortData, v: Version, n: nat) -> bool {
	data_wf(p.leader, v, n) && (p.follower is Some ==> data_wf(p.follower->Some_0, v, n))
}
pub open spec fn frame_wf(f: Frame, v: Version) -> bool {
	let n = f.id@.len();
	&&& forall|k: int| 0 <= k < f.ports@.len() ==> port_wf(#[trigger] f.ports@[k], v, n)
	&&& (f.start is Some) == v.ge(2, 2)
	&&& (f.start is Some ==> f.start->Some_0.wf(v) && f.start->Some_0.len_spec() == n)
	&&& (f.end is Some) == v.ge(3, 0)
	&&& (f.end is Some ==> f.end->Some_0.wf(v) && f.end->Some_0.len_spec() == n)
	&&& (f.item is Some) == v.ge(3, 0)
	&&& (f.item_offset is Some) == v.ge(3, 0)
	&&& (f.item_offset is Some ==> {
		let o = f.item_offset->Some_0@;
		&&& o.len() == n + 1
		&&& f.item->Some_0.wf(v) && o[n as int] == f.item->Some_0.len_spec()
	})
}
// the port layout the frames were built for: one PortData per occupied port, follower data exactly for Ice Climbers
pub open spec fn ports_match(f: Frame, ports: Seq<PortOccupancy>) -> bool {
	&&& f.ports@.len() == ports.len()
	&&& forall|k: int| 0 <= k < ports.len() ==> (#[trigger] f.ports@[k]).port == ports[k].port && (f.ports@[k].follower is Some) == ports[k].follower
}

// ---- the per-version schema above the 11 codec structs (property C14: id; ports.P<n>.leader/follower.pre/post; start; end; item list)
impl Data {
	pub open spec fn dtm(v: Version) -> DTm { DTm::Struct(seq![fm("pre"@, Pre::dtm(v)), fm("post"@, Post::dtm(v))]) }
	pub open spec fn exported(self, v: Version, a: StructArray) -> bool {
		&&& a.wf()
		&&& dtv(a.data_type) == Self::dtm(v) /*[Data.export.schema]*/
		&&& a.values@.len() == 2
		&&& a.rows() == self.pre.len_spec() /*[Data.export.rows]*/
		&&& a.validity == self.validity /*[Data.export.validity]*/
		&&& a.values@[0] is Struct && self.pre.exported(v, a.values@[0]->Struct_0) /*[Data.export.pre]*/
		&&& a.values@[1] is Struct && self.post.exported(v, a.values@[1]->Struct_0) /*[Data.export.post]*/
	}
	pub open spec fn imported(a: StructArray, v: Version, r: Self) -> bool {
		&&& r.validity == a.validity /*[Data.import.validity]*/
		&&& a.values@[0] is Struct && Pre::imported(a.values@[0]->Struct_0, v, r.pre) /*[Data.import.pre]*/
		&&& a.values@[1] is Struct && Post::imported(a.values@[1]->Struct_0, v, r.post) /*[Data.import.post]*/
	}
//@fn src/frame/immutable/peppi.rs | impl Data | data_type | ret=res | tail
	ensures dtv(res) == Data::dtm(version) /*[C14.schema.Data]*/,
//@before ret__#2
	proof { reveal_with_fuel(dtv, 3); reveal_with_fuel(fv, 3); assert(dtv(ret__)->Struct_0 =~= Data::dtm(version)->Struct_0); } /*[C14.schema.Data]*/
//@end
//@fn src/frame/immutable/peppi.rs | impl Data | into_struct_array | ret=res
	requires data_wf(self, version, self.pre.len_spec()),
	ensures self.exported(version, res) /*[C14.export.Data]*/,
//@end
//@fn src/frame/immutable/peppi.rs | impl Data | from_struct_array | ret=res
	requires array.wf(), dtv(array.data_type) == Data::dtm(version),
	ensures Data::imported(array, version, res) /*[C14.import.Data]*/,
//@end
}
pub proof fn lemma_arrow_roundtrip_Data(x: Data, v: Version, a: StructArray, y: Data)
	requires data_wf(x, v, x.pre.len_spec()), x.exported(v, a), Data::imported(a, v, y)
	ensures y == x
{
	lemma_arrow_roundtrip_Pre(x.pre, v, a.values@[0]->Struct_0, y.pre);
	lemma_arrow_roundtrip_Post(x.post, v, a.values@[1]->Struct_0, y.post);
}

impl PortData {
	pub open spec fn dtm(v: Version, follower: bool) -> DTm {
		DTm::Struct(if follower { seq![fm("leader"@, Data::dtm(v)), fm("follower"@, Data::dtm(v))] } else { seq![fm("leader"@, Data::dtm(v))] })
	}
	pub open spec fn exported(self, v: Version, follower: bool, a: StructArray) -> bool {
		&&& a.wf()
		&&& dtv(a.data_type) == Self::dtm(v, follower) /*[PortData.export.schema]*/
		&&& a.values@.len() == (if follower { 2int } else { 1int })
		&&& a.rows() == self.leader.pre.len_spec() /*[PortData.export.rows]*/
		&&& a.validity is None
		&&& a.values@[0] is Struct && self.leader.exported(v, a.values@[0]->Struct_0) /*[PortData.export.leader]*/
		&&& (follower ==> a.values@[1] is Struct && self.follower->Some_0.exported(v, a.values@[1]->Struct_0)) /*[PortData.export.follower]*/
	}
	pub open spec fn imported(a: StructArray, v: Version, port: Port, r: Self) -> bool {
		&&& r.port == port /*[PortData.import.port]*/
		&&& a.values@[0] is Struct && Data::imported(a.values@[0]->Struct_0, v, r.leader) /*[PortData.import.leader]*/
		&&& (r.follower is Some) == (a.values@.len() >= 2) /*[PortData.import.follower_present]*/
		&&& (r.follower is Some ==> a.values@[1] is Struct && Data::imported(a.values@[1]->Struct_0, v, r.follower->Some_0)) /*[PortData.import.follower]*/
	}
//@fn src/frame/immutable/peppi.rs | impl PortData | data_type | ret=res | tail
	ensures dtv(res) == PortData::dtm(version, port.follower) /*[C14.schema.PortData]*/,
//@before ret__#2
	proof { reveal_with_fuel(dtv, 3); reveal_with_fuel(fv, 3); assert(dtv(ret__)->Struct_0 =~= PortData::dtm(version, port.follower)->Struct_0); } /*[C14.schema.PortData]*/
//@end
//@fn src/frame/immutable/peppi.rs | impl PortData | into_struct_array | ret=res
	requires port_wf(self, version, self.leader.pre.len_spec()), (self.follower is Some) == port.follower,
	ensures self.exported(version, port.follower, res) /*[C14.export.PortData]*/,
//@end
//@fn src/frame/immutable/peppi.rs | impl PortData | from_struct_array | ret=res
	requires array.wf(), dtv(array.data_type) == PortData::dtm(version, false) || dtv(array.data_type) == PortData::dtm(version, true),
	ensures PortData::imported(array, version, port, res) /*[C14.import.PortData]*/,
//@end
}
pub proof fn lemma_arrow_roundtrip_PortData(x: PortData, v: Version, follower: bool, a: StructArray, y: PortData)
	requires port_wf(x, v, x.leader.pre.len_spec()), (x.follower is Some) == follower, x.exported(v, follower, a), PortData::imported(a, v, x.port, y)
	ensures y == x
{
	lemma_arrow_roundtrip_Data(x.leader, v, a.values@[0]->Struct_0, y.leader);
	if follower { lemma_arrow_roundtrip_Data(x.follower->Some_0, v, a.values@[1]->Struct_0, y.follower->Some_0); }
}

impl Frame {
	pub open spec fn ports_dtm(v: Version, ports: Seq<PortOccupancy>) -> DTm {
		DTm::Struct(Seq::new(ports.len(), |i: int| fm(port_name(ports[i].port), PortData::dtm(v, ports[i].follower))))
	}
	pub open spec fn item_list_dtm(v: Version) -> DTm { DTm::List(Box::new(fm("item"@, Item::dtm(v)))) }
	pub open spec fn arrow_count(v: Version) -> nat { if v.ge(3, 0) { 5 } else if v.ge(2, 2) { 3 } else { 2 } }
	pub open spec fn arrow_field(i: int, v: Version, ports: Seq<PortOccupancy>) -> FieldM {
		if i == 0 { fm("id"@, DTm::Int32) } /*[Frame.schema.id]*/
		else if i == 1 { fm("ports"@, Self::ports_dtm(v, ports)) } /*[Frame.schema.ports]*/
		else if i == 2 { fm("start"@, Start::dtm(v)) } /*[Frame.schema.start]*/
		else if i == 3 { fm("end"@, End::dtm(v)) } /*[Frame.schema.end]*/
		else { fm("item"@, Self::item_list_dtm(v)) } /*[Frame.schema.item]*/
	}
	pub open spec fn dtm(v: Version, ports: Seq<PortOccupancy>) -> DTm {
		DTm::Struct(Seq::new(Self::arrow_count(v), |i: int| Self::arrow_field(i, v, ports)))
	}
	pub open spec fn ports_exported(self, v: Version, ports: Seq<PortOccupancy>, a: StructArray) -> bool {
		&&& a.wf()
		&&& dtv(a.data_type) == Self::ports_dtm(v, ports)
		&&& a.values@.len() == ports.len()
		&&& a.validity is None
		&&& forall|k: int| 0 <= k < ports.len() ==> (#[trigger] a.values@[k]) is Struct && self.ports@[k].exported(v, ports[k].follower, a.values@[k]->Struct_0)
	}
	// one row per frame; every column group exported in table order
	pub open spec fn exported(self, v: Version, ports: Seq<PortOccupancy>, a: StructArray) -> bool {
		&&& a.wf()
		&&& dtv(a.data_type) == Self::dtm(v, ports) /*[Frame.export.schema]*/
		&&& a.values@.len() == Self::arrow_count(v)
		&&& a.rows() == self.id@.len() /*[Frame.export.one_row_per_frame]*/
		&&& a.validity is None
		&&& a.values@[0] == ArrayBox::I32(self.id) /*[Frame.export.id]*/
		&&& a.values@[1] is Struct && self.ports_exported(v, ports, a.values@[1]->Struct_0) /*[Frame.export.ports]*/
		&&& (v.ge(2, 2) ==> a.values@[2] is Struct && self.start->Some_0.exported(v, a.values@[2]->Struct_0)) /*[Frame.export.start]*/
		&&& (v.ge(3, 0) ==> a.values@[3] is Struct && self.end->Some_0.exported(v, a.values@[3]->Struct_0)) /*[Frame.export.end]*/
		&&& (v.ge(3, 0) ==> a.values@[4] is List && {
			let l = a.values@[4]->List_0;
			&&& l.offsets == self.item_offset->Some_0 /*[Frame.export.item_offsets]*/
			&&& l.validity is None
			&&& *l.values is Struct && self.item->Some_0.exported(v, (*l.values)->Struct_0) /*[Frame.export.item]*/
		})
	}
	pub open spec fn ports_imported(a: StructArray, v: Version, ports: Seq<PortOccupancy>, r: Seq<PortData>) -> bool {
		&&& r.len() == ports.len() /*[Frame.import.port_count]*/
		&&& forall|k: int| 0 <= k < ports.len() ==> (#[trigger] a.values@[k]) is Struct && PortData::imported(a.values@[k]->Struct_0, v, ports[k].port, r[k]) /*[Frame.import.port]*/
	}
	pub open spec fn imported(a: StructArray, v: Version, ports: Seq<PortOccupancy>, r: Self) -> bool {
		&&& ArrayBox::I32(r.id) == a.values@[0] /*[Frame.import.id]*/
		&&& a.values@[1] is Struct && Self::ports_imported(a.values@[1]->Struct_0, v, ports, r.ports@) /*[Frame.import.ports]*/
		&&& (r.start is Some) == (2 < a.values@.len()) && (r.start is Some ==> a.values@[2] is Struct && Start::imported(a.values@[2]->Struct_0, v, r.start->Some_0)) /*[Frame.import.start]*/
		&&& (r.end is Some) == (3 < a.values@.len()) && (r.end is Some ==> a.values@[3] is Struct && End::imported(a.values@[3]->Struct_0, v, r.end->Some_0)) /*[Frame.import.end]*/
		&&& (r.item is Some) == (4 < a.values@.len()) && (r.item_offset is Some) == (4 < a.values@.len()) /*[Frame.import.item_present]*/
		&&& (r.item is Some ==> a.values@[4] is List && {
			let l = a.values@[4]->List_0;
			&&& r.item_offset->Some_0 == l.offsets /*[Frame.import.item_offsets]*/
			&&& *l.values is Struct && Item::imported((*l.values)->Struct_0, v, r.item->Some_0) /*[Frame.import.item]*/
		})
	}
	// loop invariants of port_data_type / into_struct_array (the first n ports done)
	pub open spec fn port_fields_ok(out: Seq<Field>, n: int, v: Version, ports: Seq<PortOccupancy>) -> bool {
		out.len() == n && forall|j: int| 0 <= j < n ==> fv(#[trigger] out[j]) == fm(port_name(ports[j].port), PortData::dtm(v, ports[j].follower))
	}
	pub open spec fn port_arrays_ok(self, out: Seq<ArrayBox>, n: int, v: Version, ports: Seq<PortOccupancy>) -> bool {
		out.len() == n && forall|j: int| 0 <= j < n ==> (#[trigger] out[j]) is Struct && self.ports@[j].exported(v, ports[j].follower, out[j]->Struct_0)
	}
	// loop invariant of port_data_from_struct_array: the first min(i, #ports) ports are imported, under every port list the schema fits
	pub open spec fn ports_import_inv(a: StructArray, v: Version, r: Seq<PortData>, i: int) -> bool {
		&&& r.len() == (if i <= a.values@.len() { i } else { a.values@.len() as int })
		&&& forall|ps: Seq<PortOccupancy>| 1 <= ps.len() <= NUM_PORTS && dtv(a.data_type) == Frame::ports_dtm(v, ps) ==>
			(forall|k: int| 0 <= k < r.len() ==> (#[trigger] a.values@[k]) is Struct && PortData::imported(a.values@[k]->Struct_0, v, ps[k].port, r[k]))
	}
	pub open spec fn schema_for(d: DTm, v: Version, ports: Seq<PortOccupancy>) -> bool {
		1 <= ports.len() <= NUM_PORTS && d == Self::dtm(v, ports)
	}
//@fn src/frame/immutable/peppi.rs | impl Frame | port_data_type | ret=res | tail
	ensures dtv(res) == Frame::ports_dtm(version, ports@) /*[C14.schema.ports]*/,
//@loop 1
	invariant ic__ <= ports@.len(), Frame::port_fields_ok(out__@, ic__ as int, version, ports@),
	decreases ports@.len() - ic__,
//@before ret__#2
	proof { reveal_with_fuel(dtv, 2); assert(dtv(ret__)->Struct_0 =~= Frame::ports_dtm(version, ports@)->Struct_0); } /*[C14.schema.ports]*/
//@end
//@fn src/frame/immutable/peppi.rs | impl Frame | item_data_type | ret=res | tail
	ensures dtv(res) == Frame::item_list_dtm(version) /*[C14.schema.item_list]*/,
//@before ret__#2
	proof { reveal_with_fuel(dtv, 3); reveal_with_fuel(fv, 3); }
//@end
//@fn src/frame/immutable/peppi.rs | impl Frame | data_type | ret=res | tail
	ensures dtv(res) == Frame::dtm(version, ports@) /*[C14.schema.Frame]*/,
//@before ret__#2
	proof { reveal_with_fuel(dtv, 3); reveal_with_fuel(fv, 3); assert(dtv(ret__)->Struct_0 =~= Frame::dtm(version, ports@)->Struct_0); } /*[C14.schema.Frame]*/
//@end
//@fn src/frame/immutable/peppi.rs | impl Frame | into_struct_array | ret=res | rules=R9z
	requires frame_wf(self, version), ports_match(self, ports@), ports@.len() >= 1,
	ensures self.exported(version, ports@, res) /*[C14.export.Frame]*/,
//@loop 1
	invariant iz__ <= ports@.len(), ports@.len() == self.ports@.len(), ports@.len() >= 1,
		more__ ==> zb__.rem@ == self.ports@.subrange(iz__ as int, self.ports@.len() as int),
		!more__ ==> iz__ == ports@.len(),
		frame_wf(self, version), ports_match(self, ports@),
		self.port_arrays_ok(out__@, iz__ as int, version, ports@),
	decreases ports@.len() - iz__ + (if more__ { 1int } else { 0int }),
//@end
//@fn src/frame/immutable/peppi.rs | impl Frame | port_data_from_struct_array | ret=res | rules=R4c
	requires array.wf(), exists|ps: Seq<PortOccupancy>| 1 <= ps.len() <= NUM_PORTS && dtv(array.data_type) == Frame::ports_dtm(version, ps),
	ensures forall|ps: Seq<PortOccupancy>| 1 <= ps.len() <= NUM_PORTS && dtv(array.data_type) == Frame::ports_dtm(version, ps) ==> Frame::ports_imported(array, version, ps, res@) /*[C14.import.ports]*/,
//@before let (fields
	let ghost arr = array;
	let ghost ps0 = choose|ps: Seq<PortOccupancy>| 1 <= ps.len() <= NUM_PORTS && dtv(arr.data_type) == Frame::ports_dtm(version, ps);
//@loop 1
	invariant i <= end__0, end__0 == NUM_PORTS, arr.wf(), values == arr.values, arr.data_type == DataType::Struct(fields),
		fields@.len() == values@.len(), values@.len() > 0,
		forall|k: int| 0 <= k < fields@.len() ==> fv(#[trigger] fields@[k]) == dtv(arr.data_type)->Struct_0[k],
		forall|k: int| 0 <= k < values@.len() ==> (#[trigger] values@[k]).awf() && values@[k].kind_ok() && values@[k].adt() == dtv(arr.data_type)->Struct_0[k].dt,
		1 <= ps0.len() <= NUM_PORTS && dtv(arr.data_type) == Frame::ports_dtm(version, ps0),
		Frame::ports_import_inv(arr, version, ports@, i as int),
	decreases end__0 - i,
//@end
//@fn src/frame/immutable/peppi.rs | impl Frame | from_struct_array | ret=res
	requires array.wf(), exists|ps: Seq<PortOccupancy>| Frame::schema_for(dtv(array.data_type), version, ps),
	ensures forall|ps: Seq<PortOccupancy>| Frame::schema_for(dtv(array.data_type), version, ps) ==> Frame::imported(array, version, ps, res) /*[C14.import.Frame]*/,
//@before let (fields
	let ghost arr = array;
	let ghost ps0 = choose|ps: Seq<PortOccupancy>| Frame::schema_for(dtv(arr.data_type), version, ps);
//@end
}

// C14 / C02: importing what was exported gives the same frames (columns, validity, item offsets, ports in order)
pub proof fn lemma_arrow_roundtrip_Frame(x: Frame, v: Version, ports: Seq<PortOccupancy>, a: StructArray, y: Frame)
	requires frame_wf(x, v), ports_match(x, ports), 1 <= ports.len() <= NUM_PORTS, x.exported(v, ports, a), Frame::imported(a, v, ports, y)
	ensures y.id == x.id, y.ports@ == x.ports@, y.start == x.start, y.end == x.end, y.item == x.item, y.item_offset == x.item_offset /*[C14.roundtrip.Frame]*/
{
	let pa = a.values@[1]->Struct_0;
	assert forall|k: int| 0 <= k < ports.len() implies y.ports@[k] == x.ports@[k] by {
		assert(pa.values@[k] is Struct);
		lemma_arrow_roundtrip_PortData(x.ports@[k], v, ports[k].follower, pa.values@[k]->Struct_0, y.ports@[k]);
	}
	assert(y.ports@ =~= x.ports@);
	if v.ge(2, 2) {
		lemma_arrow_roundtrip_Start(x.start->Some_0, v, a.values@[2]->Struct_0, y.start->Some_0);
	}
	if v.ge(3, 0) {
		lemma_arrow_roundtrip_End(x.end->Some_0, v, a.values@[3]->Struct_0, y.end->Some_0);
		lemma_arrow_roundtrip_Item(x.item->Some_0, v, (*a.values@[4]->List_0.values)->Struct_0, y.item->Some_0);
	}
}
'''


def template(repo):
    L = gen_codec.build_layouts(repo, REL, 'PrimitiveArray', 'Bitmap')
    out = [HEADER]
    for s in gen_codec.ORDER:
        out.append('//@struct %s %s' % (REL, s))
        out.append(gen_codec.immutable_specs(L, s, only_wf=True))
    for s in gen_codec.ORDER:
        out.append(gen_codec.arrow_specs(L, s))
        out.append(gen_codec.arrow_fn_contracts(L, s, REL_P, twin_gate=(3, 7) if s == 'End' else None))
    out.append(FRAME)
    out.append('} // verus!\nfn main() {}')
    return '\n'.join(out)
