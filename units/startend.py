"""Unit startend: Game Start / Game End payload parsers (src/io/slippi/de.rs game_start, player, player_bytes,
if_more, game_end, player_end) and src/game/shift_jis.rs MeleeString::try_from.   Serves C05, C19."""

TEMPLATE = r'''use vstd::prelude::*;
macro_rules! err { ($($t:tt)*) => { mk_err() } }
verus! {
//@use core.rs
//@use error.rs
//@use std_int.rs
//@use sjis.rs
type Result<T> = std::result::Result<T, Error>;
type BE = shim_core::BE;
global size_of usize == 8;

// ---------------- src/game/shift_jis.rs ----------------
//@struct src/game/shift_jis.rs MeleeString
// the text of a fixed-width name field: Shift-JIS decoding of the bytes before the first NUL (all bytes if there is none)
pub open spec fn nul_len(s: Seq<u8>) -> int {
	if exists|i: int| 0 <= i < s.len() && s[i] == 0 { choose|i: int| 0 <= i < s.len() && s[i] == 0 && forall|j: int| 0 <= j < i ==> s[j] != 0 } else { s.len() as int }
}
pub open spec fn field_text(s: Seq<u8>) -> Option<Seq<char>> { sjis_decode(s.subrange(0, nul_len(s))) }
pub proof fn lemma_nul_len(s: Seq<u8>, k: int)
	requires 0 <= k <= s.len(), forall|j: int| 0 <= j < k ==> s[j] != 0, k < s.len() ==> s[k] == 0,
	ensures nul_len(s) == k,
{
	if exists|i: int| 0 <= i < s.len() && s[i] == 0 {
		let c = choose|i: int| 0 <= i < s.len() && s[i] == 0 && forall|j: int| 0 <= j < i ==> s[j] != 0;
		if k < s.len() {
			assert(0 <= k < s.len() && s[k] == 0 && forall|j: int| 0 <= j < k ==> s[j] != 0);
			assert(c == k) by { if c < k { assert(s[c] != 0); } else if k < c { assert(s[k] != 0); } }
		} else {
			let w = choose|i: int| 0 <= i < s.len() && s[i] == 0;
			assert(s[w] != 0);
		}
	} else if k < s.len() { assert(s[k] == 0); }
}
impl MeleeString {
//@fn src/game/shift_jis.rs | impl TryFrom<&[u8]> for MeleeString | try_from | ret=res | free=MeleeString | sub=/s.iter().position(|&x| x == 0).unwrap_or(s.len())/first_index_of(s, 0).unwrap_or(s.len())/
	ensures
		field_text(s@) is Some ==> res is Ok && res->Ok_0.0@ == field_text(s@)->Some_0 /*[C19.decode_up_to_first_nul]*/,
		field_text(s@) is None ==> res is Err /*[C19.invalid_sequence_is_an_error]*/,
//@before match SHIFT_JIS
		proof { lemma_nul_len(s@, first_null as int); }
//@end
// normalisation: the property's character map (fix_char is proved equal to it for EVERY char by the Kani harness c19_fix_char)
//@fn src/game/shift_jis.rs | impl MeleeString | to_normalized | ret=res | sub=/self.0.clone().chars().map(fix_char).collect::<String>()/string_map_fix_char(&self.0)/
	ensures res@ == self.0@.map_values(|c: char| fix_char_spec(c)) /*[C19.normalise_maps_each_char_and_nothing_else]*/,
//@end
}
pub open spec fn fix_char_spec(c: char) -> char {
	let u = c as u32;
	if 0xff01 <= u <= 0xff5e { ((u - 0xfee0) as u8) as char } else if u == 0x3000 { ' ' } else if u == 0x2019 { '\'' } else if u == 0x201d { '"' } else { c }
}
// the real fix_char against the property's character map, for every char (the same claim the Kani harness c19_fix_char
// proves on the unextracted crate); `char::try_from(c).unwrap()` never panics is an obligation of this function too.
// Assumed: the two std conversions (u32::from(char) is the scalar value; char::try_from(u32) succeeds exactly on scalar values).
#[verifier::external_type_specification]
#[verifier::external_body]
pub struct ExCharTryFromError(std::char::CharTryFromError);
pub open spec fn is_scalar_value(u: u32) -> bool { u <= 0xD7FF || 0xE000 <= u <= 0x10FFFF }
pub assume_specification [<char as TryFrom<u32>>::try_from](u: u32) -> (r: std::result::Result<char, <char as std::convert::TryFrom<u32>>::Error>)
	ensures is_scalar_value(u) ==> r is Ok && r->Ok_0 as u32 == u, !is_scalar_value(u) ==> r is Err;
pub assume_specification [<u32 as From<char>>::from](c: char) -> (r: u32)
	ensures r == c as u32;
//@fn src/game/shift_jis.rs | - | fix_char | ret=res
	ensures res == fix_char_spec(c) /*[C19.fix_char_is_the_character_map]*/,
//@end
// `s.clone().chars().map(fix_char).collect::<String>()`: std yields the scalar values in order, applies the function to each,
// and concatenates.  The extraction PINS this exact expression: any other body text is UNDECIDED and is decided natively (c19 search).
#[verifier::external_body]
pub fn string_map_fix_char(s: &String) -> (r: String) ensures r@ == s@.map_values(|c: char| fix_char_spec(c)) { unimplemented!() }
// idempotence of the map (so normalising twice equals normalising once)
pub proof fn lemma_fix_char_idempotent(c: char)
	ensures fix_char_spec(fix_char_spec(c)) == fix_char_spec(c) /*[C19.normalise_idempotent]*/
{
	let u = c as u32;
	if 0xff01 <= u <= 0xff5e {
		assert(0x21 <= u - 0xfee0 <= 0x7e);
	}
}

// string level (the property speaks of strings): with to_normalized's contract `res@ == self.0@.map_values(fix_char_spec)`,
// normalising an already normalised string changes nothing and the number of characters is kept.
pub proof fn lemma_fix_char_idempotent_on_strings(s: Seq<char>)
	ensures
		s.map_values(|c: char| fix_char_spec(c)).map_values(|c: char| fix_char_spec(c)) == s.map_values(|c: char| fix_char_spec(c)) /*[C19.normalise_idempotent_on_strings]*/,
		s.map_values(|c: char| fix_char_spec(c)).len() == s.len() /*[C19.normalise_keeps_char_count]*/,
{
	let a = s.map_values(|c: char| fix_char_spec(c));
	let b = a.map_values(|c: char| fix_char_spec(c));
	assert forall|i: int| 0 <= i < s.len() implies b[i] == a[i] by { lemma_fix_char_idempotent(s[i]); }
	assert(b =~= a);
}

// ---------------- game types ----------------
pub struct TryFromPrimitiveError<T> { pub p: core::marker::PhantomData<T> }
impl<T> std::fmt::Debug for TryFromPrimitiveError<T> { #[verifier::external_body] fn fmt(&self, f: &mut std::fmt::Formatter<'_>) -> std::fmt::Result { unimplemented!() } }
#[verifier::external_body]
pub fn invalid_data<E>(err: E) -> (r: IoError) { unimplemented!() }
pub mod slippi {
	pub use super::Version;
//@struct src/io/slippi/mod.rs Slippi
}
//@use version.rs
pub mod game {
	use vstd::prelude::*;
	use super::{slippi, Version, MeleeString};
//@enum src/game/mod.rs Port
//@enum src/game/mod.rs PlayerType
//@enum src/game/mod.rs DashBack
//@enum src/game/mod.rs ShieldDrop
//@enum src/game/mod.rs Language
//@enum src/game/mod.rs EndMethod
//@const src/game/mod.rs NUM_PORTS
//@const src/game/mod.rs MAX_PLAYERS
//@struct src/game/mod.rs Team
//@struct src/game/mod.rs Ucf
//@struct src/game/mod.rs Netplay
//@struct src/game/mod.rs Player
//@struct src/game/mod.rs Scene
//@struct src/game/mod.rs Bytes
//@struct src/game/mod.rs Match
//@struct src/game/mod.rs Start
//@struct src/game/mod.rs PlayerEnd
//@struct src/game/mod.rs End
}
use game::{Match, Netplay, Player, PlayerType, Port, MAX_PLAYERS, NUM_PORTS, DashBack, ShieldDrop, Language, EndMethod};
//@tryfrom src/game/mod.rs Port u8
//@tryfrom src/game/mod.rs PlayerType u8
//@tryfrom src/game/mod.rs DashBack u32
//@tryfrom src/game/mod.rs ShieldDrop u32
//@tryfrom src/game/mod.rs Language u8
//@tryfrom src/game/mod.rs EndMethod u8

// ---------------- src/io/slippi/de.rs ----------------
// if_more: run the optional-tail reader iff any bytes remain (this is how "present exactly when the block is long enough" is implemented)
//@fn src/io/slippi/de.rs | - | if_more | ret=res
	requires forall|x: &mut &[u8]| f.requires((x,)),
	ensures
		(*old(r))@.len() == 0 ==> res == Ok::<Option<T>, Error>(None) && (*final(r))@ == (*old(r))@ /*[C05.tail_absent_when_block_ends]*/,
		(*old(r))@.len() > 0 ==> exists|x: &mut &[u8], y: Result<T>| f.ensures((x,), y) && *x == *old(r) && *final(x) == *final(r)
			&& (y is Ok ==> res == Ok::<Option<T>, Error>(Some(y->Ok_0))) && (y is Err ==> res is Err) /*[C05.tail_present_when_bytes_remain]*/,
//@end

// Game End: method u8 @0; LRAS initiator u8 @1 (block >= 2 bytes; 255 = none); placements i8 @2..5 (block >= 6 bytes; -1 = absent)
pub open spec fn placement_ok(p: i8) -> bool { -1 <= p <= 3 }
//@fn src/io/slippi/de.rs | - | player_end | ret=res
	ensures
		placement == -1 ==> res == Ok::<Option<game::PlayerEnd>, Error>(None) /*[C05.placement_minus_one_is_absent]*/,
		0 <= placement <= 3 ==> res == Ok::<Option<game::PlayerEnd>, Error>(Some(game::PlayerEnd { port: port, placement: placement as u8 })) /*[C05.placement_value]*/,
		!placement_ok(placement) ==> res is Err /*[C05.placement_out_of_range_is_error]*/,
//@end

pub open spec fn port_of_byte(x: u8) -> Port { if x == 0 { Port::P1 } else if x == 1 { Port::P2 } else if x == 2 { Port::P3 } else { Port::P4 } }
// the players list of a Game End block with placements p[0..4]: ports in order whose placement is not -1
pub open spec fn end_players(p: Seq<i8>, n: int) -> Seq<game::PlayerEnd> decreases n {
	if n <= 0 { Seq::empty() } else {
		let rest = end_players(p, n - 1);
		if p[n - 1] == -1 { rest } else { rest.push(game::PlayerEnd { port: port_of_byte((n - 1) as u8), placement: p[n - 1] as u8 }) }
	}
}
//@fn src/io/slippi/de.rs | - | game_end | ret=res | sub=/r.to_vec()/slice_to_vec_u8(*r)/
	ensures
		res is Ok ==> res->Ok_0.bytes.0@ == (*old(r))@ /*[C05.end_raw_block_retained]*/,
		res is Ok ==> (*old(r))@.len() >= 1 && endmethod_of(be_u8((*old(r))@, 0)) == Some(res->Ok_0.method) /*[C05.end_method_at_0]*/,
		(*old(r))@.len() >= 1 && endmethod_of(be_u8((*old(r))@, 0)) is None ==> res is Err,
		res is Ok ==> (res->Ok_0.lras_initiator is Some) == ((*old(r))@.len() >= 2) /*[C05.lras_present_iff_len_ge_2]*/,
		res is Ok && (*old(r))@.len() >= 2 ==> res->Ok_0.lras_initiator->Some_0 == (if be_u8((*old(r))@, 1) == 255 { None::<Port> } else { port_of(be_u8((*old(r))@, 1)) }) && (be_u8((*old(r))@, 1) == 255 || port_of(be_u8((*old(r))@, 1)) is Some) /*[C05.lras_at_1]*/,
		res is Ok ==> (res->Ok_0.players is Some) == ((*old(r))@.len() >= 3) /*[C05.placements_present_iff_more_bytes]*/,
		res is Ok && (*old(r))@.len() >= 3 ==> (*old(r))@.len() >= 6
			&& res->Ok_0.players->Some_0@ == end_players(Seq::new(4, |i: int| be_i8((*old(r))@, 2 + i)), 4) /*[C05.placements_at_2_to_5]*/,
//@closure 1
		|r: &mut &[u8]| -> (out: Result<Option<Port>>)
			ensures (*old(r))@.len() >= 1 ==> (*final(r))@ == skip((*old(r))@, 1) && (be_u8((*old(r))@, 0) == 255 ==> out == Ok::<Option<Port>, Error>(None))
				&& (be_u8((*old(r))@, 0) != 255 && port_of(be_u8((*old(r))@, 0)) is Some ==> out == Ok::<Option<Port>, Error>(Some(port_of(be_u8((*old(r))@, 0))->Some_0)))
				&& (be_u8((*old(r))@, 0) != 255 && port_of(be_u8((*old(r))@, 0)) is None ==> out is Err),
//@closure 2
		|r: &mut &[u8]| -> (out: Result<Vec<game::PlayerEnd>>)
			ensures out is Ok ==> (*old(r))@.len() >= 4 && (*final(r))@ == skip((*old(r))@, 4) && out->Ok_0@ == end_players(Seq::new(4, |i: int| be_i8((*old(r))@, i)), 4),
//@after let players = if_more
	proof {
		let b = (*old(r))@;
		if b.len() >= 6 { lemma_skip_skip(b, 1, 1); assert(Seq::new(4, |i: int| be_i8(skip(b, 2), i)) =~= Seq::new(4, |i: int| be_i8(b, 2 + i))); }
	}
//@before let placements
		let ghost r0 = *r;
		proof { broadcast use shim_core::lemma_skip_skip; }
//@loop 1
		invariant n <= 4, NUM_PORTS == 4, err__ is None ==> out__@ == end_players(placements@, n as int),
			placements@ == Seq::new(4, |i: int| be_i8(r0@, i)),
		decreases 4 - n + (if err__ is None { 1int } else { 0int }),
//@end

// ---- Game Start block ----
// player_bytes::<N, M>: M consecutive N-byte records (trusted here: const-generic nested arrays + iter_mut().try_for_each;
// its contract is checked against the real function by the Kani harness k_player_bytes)
#[verifier::external_body]
pub fn player_bytes<const N: usize, const M: usize>(r: &mut &[u8]) -> (res: Result<[[u8; N]; M]>)
	ensures
		(*old(r))@.len() >= N * M ==> res is Ok && (*final(r))@ == skip((*old(r))@, (N * M) as int)
			&& forall|i: int, j: int| 0 <= i < M && 0 <= j < N ==> #[trigger] res->Ok_0@[i]@[j] == (*old(r))@[i * N + j],
		(*old(r))@.len() < N * M ==> res is Err,
{ unimplemented!() }

// player(): per-port record parser; what it returns, field by field, is the contract player_fields_ok below
pub open spec fn opt_arr<const K: usize>(o: Option<[u8; K]>) -> Option<Seq<u8>> { match o { Some(a) => Some(a@), None => None } }
// UTF-8 C string in a 29-byte field: bytes before the first NUL (default 28)
pub open spec fn cstr_len(s: Seq<u8>, dflt: int) -> int {
	if exists|i: int| 0 <= i < s.len() && s[i] == 0 { choose|i: int| 0 <= i < s.len() && s[i] == 0 && forall|j: int| 0 <= j < i ==> s[j] != 0 } else { dflt }
}
pub open spec fn ucf_code_ok(x: u32) -> bool { x <= 2 }
// every exposed player field equals the value at its spec offset (spec/game_start_layout.json, players section)
pub open spec fn player_fields_ok(p: Player, port: Port, v0: Seq<u8>, is_teams: bool, v1_0: Option<Seq<u8>>, v1_3: Option<Seq<u8>>, name: Option<Seq<u8>>, code: Option<Seq<u8>>, v3_11: Option<Seq<u8>>) -> bool {
	&&& p.port == port
	&&& p.character == be_u8(v0, 0) /*[C05.player.character_at_0]*/
	&&& playertype_of(be_u8(v0, 1)) == Some(p.r#type) /*[C05.player.type_at_1]*/
	&&& p.stocks == be_u8(v0, 2) /*[C05.player.stocks_at_2]*/
	&&& p.costume == be_u8(v0, 3) /*[C05.player.costume_at_3]*/
	&&& (p.team is Some) == is_teams && (is_teams ==> p.team->Some_0.shade == be_u8(v0, 7) && p.team->Some_0.color == be_u8(v0, 9)) /*[C05.player.team_iff_teams]*/
	&&& p.handicap == be_u8(v0, 8) /*[C05.player.handicap_at_8]*/
	&&& p.bitfield == be_u8(v0, 12) /*[C05.player.bitfield_at_12]*/
	&&& (p.cpu_level is Some) == (p.r#type == PlayerType::Cpu) && (p.cpu_level is Some ==> p.cpu_level->Some_0 == be_u8(v0, 15)) /*[C05.player.cpu_level_iff_cpu]*/
	&&& p.offense_ratio == be_f32(v0, 24) && p.defense_ratio == be_f32(v0, 28) && p.model_scale == be_f32(v0, 32) /*[C05.player.ratios_at_24_28_32]*/
	&&& (p.ucf is Some) == (v1_0 is Some) /*[C05.player.ucf_iff_v1_0]*/
	&&& (v1_0 is Some ==> dashback_code(p.ucf->Some_0.dash_back) == be_u32(v1_0->Some_0, 0) && shielddrop_code(p.ucf->Some_0.shield_drop) == be_u32(v1_0->Some_0, 4)) /*[C05.player.ucf_at_0_4]*/
	&&& (p.name_tag is Some) == (v1_3 is Some) && (v1_3 is Some ==> field_text(v1_3->Some_0) == Some(p.name_tag->Some_0.0@)) /*[C19.name_tag_field]*/
	&&& (p.netplay is Some) == (name is Some && code is Some)
	&&& (p.netplay is Some ==> field_text(name->Some_0) == Some(p.netplay->Some_0.name.0@) && field_text(code->Some_0) == Some(p.netplay->Some_0.code.0@)) /*[C19.netplay_name_code_fields]*/
	&&& (p.netplay is Some ==> (p.netplay->Some_0.suid is Some) == (v3_11 is Some)
			&& (v3_11 is Some ==> utf8_decode(v3_11->Some_0.subrange(0, cstr_len(v3_11->Some_0, 28))) == Some(p.netplay->Some_0.suid->Some_0@))) /*[C05.player.suid]*/
}
pub open spec fn dashback_code(d: Option<DashBack>) -> u32 { match d { None => 0, Some(DashBack::Ucf) => 1, Some(DashBack::Arduino) => 2 } }
pub open spec fn shielddrop_code(d: Option<ShieldDrop>) -> u32 { match d { None => 0, Some(ShieldDrop::Ucf) => 1, Some(ShieldDrop::Arduino) => 2 } }
//@fn src/io/slippi/de.rs | - | player | ret=res | sub=/let r#type = /let type__ = / | sub=/match r#type {/match type__ {/ | sub=/Ok(r#type.map(|r#type| Player {/Ok(type__.map(|ty__| Player {/ | sub=/		r#type,/		r#type: ty__,/ | sub=/v3_11.iter().position(|&x| x == 0).unwrap_or(28)/first_index_of(&v3_11, 0).unwrap_or(28)/ | sub=/std::str::from_utf8(/str_from_utf8(/ | sub=/result.map(String::from).map_err(invalid_data)/utf8_result_to_string(result)/
	ensures
		res is Ok ==> (res->Ok_0 is Some) == (playertype_of(be_u8(v0@, 1)) is Some) /*[C05.player_listed_iff_type_human_cpu_demo]*/,
		res is Ok && res->Ok_0 is Some ==> player_fields_ok(res->Ok_0->Some_0, port, v0@, is_teams, opt_arr(v1_0), opt_arr(v1_3), opt_arr(v3_9_name), opt_arr(v3_9_code), opt_arr(v3_11)) /*[C05.player_fields]*/,
		// the fixed-width text fields once more on their own (property C19): a listed player has its name tag / netplay name and code exactly
		// when the block carries them, decoded up to the first NUL - so an undecodable field cannot come back as "absent", only as an error
		res is Ok && res->Ok_0 is Some ==> ((res->Ok_0->Some_0.name_tag is Some) == (opt_arr(v1_3) is Some)
			&& (opt_arr(v1_3) is Some ==> field_text(opt_arr(v1_3)->Some_0) == Some(res->Ok_0->Some_0.name_tag->Some_0.0@))) /*[C19.name_tag_decoded_or_error]*/,
		res is Ok && res->Ok_0 is Some ==> ((res->Ok_0->Some_0.netplay is Some) == (opt_arr(v3_9_name) is Some && opt_arr(v3_9_code) is Some)
			&& (res->Ok_0->Some_0.netplay is Some ==> field_text(opt_arr(v3_9_name)->Some_0) == Some(res->Ok_0->Some_0.netplay->Some_0.name.0@)
				&& field_text(opt_arr(v3_9_code)->Some_0) == Some(res->Ok_0->Some_0.netplay->Some_0.code.0@))) /*[C19.netplay_text_decoded_or_error]*/,
//@end

// ---- Game Start: contract transcribed from spec/game_start_layout.json (offsets index the raw block) ----
pub uninterp spec fn utf8_decode(b: Seq<u8>) -> Option<Seq<char>>;
pub struct Utf8Error;
#[verifier::external_body]
pub fn str_from_utf8(b: &[u8]) -> (r: std::result::Result<&str, Utf8Error>)
	ensures (r is Ok) == (utf8_decode(b@) is Some), r is Ok ==> r->Ok_0@ == utf8_decode(b@)->Some_0
{ unimplemented!() }
// `result.map(String::from).map_err(invalid_data)`
#[verifier::external_body]
pub fn utf8_result_to_string(r: std::result::Result<&str, Utf8Error>) -> (out: std::result::Result<String, IoError>)
	ensures (out is Ok) == (r is Ok), out is Ok ==> out->Ok_0@ == r->Ok_0@
{ unimplemented!() }

pub open spec fn recs<const K: usize, const M: usize>(a: [[u8; K]; M], b: Seq<u8>, base: int) -> bool {
	forall|i: int, j: int| 0 <= i < M && 0 <= j < K ==> #[trigger] a@[i]@[j] == b[base + i * K + j]
}
pub open spec fn opt_rec(b: Seq<u8>, present: bool, base: int, k: int, i: int) -> Option<Seq<u8>> {
	if present { Some(b.subrange(base + k * i, base + k * i + k)) } else { None }
}
// the players list: ports 0..n in port order; port i is listed iff its type byte is human/CPU/demo, and is then built from
// exactly its own slices of the block (36-byte record @100+36i, UCF @320+8i, name tag @352+16i, netplay name @420+31i,
// connect code @544+10i, Slippi UID @584+29i; each tail present iff the block is longer than where the tail starts)
pub open spec fn port_fields_ok(p: Player, b: Seq<u8>, i: int) -> bool {
	player_fields_ok(p, port_of_byte(i as u8), b.subrange(100 + 36 * i, 136 + 36 * i), be_u8(b, 12) != 0,
		opt_rec(b, b.len() > 320, 320, 8, i), opt_rec(b, b.len() > 352, 352, 16, i),
		opt_rec(b, b.len() > 420, 420, 31, i), opt_rec(b, b.len() > 420, 544, 10, i), opt_rec(b, b.len() > 584, 584, 29, i))
}
pub open spec fn players_match(ps: Seq<Player>, b: Seq<u8>, n: int) -> bool decreases n {
	if n <= 0 { ps.len() == 0 } else if playertype_of(be_u8(b, 100 + 36 * (n - 1) + 1)) is Some {
		ps.len() > 0 && port_fields_ok(ps.last(), b, n - 1) && players_match(ps.drop_last(), b, n - 1)
	} else { players_match(ps, b, n - 1) }
}
pub open spec fn tail_bool(b: Seq<u8>, off: int) -> Option<bool> { if b.len() > off { Some(be_u8(b, off) != 0) } else { None } }

// game_start is checked twice on the same body: once for the block-level fields, once for the players list
//@fn src/io/slippi/de.rs | - | game_start | ret=res | twin=__fields | inline_if_more | sub=/r.to_vec()/slice_to_vec_u8(*r)/ | sub=/buf.iter().position(|&x| x == 0).unwrap_or(50)/first_index_of(&buf, 0).unwrap_or(50)/ | sub=/std::str::from_utf8(/str_from_utf8(/ | sub=/result.map(String::from).map_err(invalid_data)/utf8_result_to_string(result)/ | sub=/let r#match = /let match__ = / | sub=/		r#match,/		r#match: match__,/
	ensures
		res is Ok ==> ({
			let b = (*old(r))@;
			let s = res->Ok_0;
			&&& b.len() >= 320
			&&& s.bytes.0@ == b /*[C05.start_raw_block_retained]*/
			&&& s.slippi.version == Version(be_u8(b, 0), be_u8(b, 1), be_u8(b, 2)) /*[C05.version_at_0]*/
			&&& s.bitfield@ == b.subrange(4, 8) /*[C05.bitfield_at_4]*/
			&&& s.is_raining_bombs == (be_u8(b, 10) != 0) /*[C05.raining_bombs_at_10]*/
			&&& s.is_teams == (be_u8(b, 12) != 0) /*[C05.is_teams_at_12]*/
			&&& s.item_spawn_frequency == be_i8(b, 15) /*[C05.item_spawn_frequency_at_15]*/
			&&& s.self_destruct_score == be_i8(b, 16) /*[C05.self_destruct_score_at_16]*/
			&&& s.stage == be_u16(b, 18) /*[C05.stage_at_18]*/
			&&& s.timer == be_u32(b, 20) /*[C05.timer_at_20]*/
			&&& s.item_spawn_bitfield@ == b.subrange(39, 44) /*[C05.item_spawn_bitfield_at_39]*/
			&&& s.damage_ratio == be_f32(b, 52) /*[C05.damage_ratio_at_52]*/
			&&& s.random_seed == be_u32(b, 316) /*[C05.random_seed_at_316]*/
			&&& s.is_pal == tail_bool(b, 416) /*[C05.is_pal_at_416_iff_len_gt_416]*/
			&&& s.is_frozen_ps == tail_bool(b, 417) /*[C05.frozen_ps_at_417_iff_len_gt_417]*/
			&&& (s.scene is Some) == (b.len() > 418) && (b.len() > 418 ==> b.len() >= 420 && s.scene->Some_0.minor == be_u8(b, 418) && s.scene->Some_0.major == be_u8(b, 419)) /*[C05.scene_at_418]*/
			&&& (s.language is Some) == (b.len() > 700) && (b.len() > 700 ==> language_of(be_u8(b, 700)) == Some(s.language->Some_0)) /*[C05.language_at_700]*/
			&&& (s.r#match is Some) == (b.len() > 701) && (b.len() > 701 ==> b.len() >= 760
					&& s.r#match->Some_0.game == be_u32(b, 752) && s.r#match->Some_0.tiebreaker == be_u32(b, 756)) /*[C05.match_at_701]*/
			// a block that ends inside an optional tail is rejected (length classes 320, 352, 416, 417, 418, 420, 584, 700, 701, 760)
			&&& (b.len() == 320 || b.len() == 352 || b.len() == 416 || b.len() == 417 || b.len() == 418 || b.len() == 420 || b.len() == 584 || b.len() == 700 || b.len() == 701 || b.len() >= 760) /*[C05.length_classes]*/
		}),
//@loop 1
		invariant n <= 4, NUM_PORTS == 4,
		decreases 4 - n + (if err__ is None { 1int } else { 0int }),
//@end
//@fn src/io/slippi/de.rs | - | game_start | ret=res | twin=__players | inline_if_more | sub=/r.to_vec()/slice_to_vec_u8(*r)/ | sub=/buf.iter().position(|&x| x == 0).unwrap_or(50)/first_index_of(&buf, 0).unwrap_or(50)/ | sub=/std::str::from_utf8(/str_from_utf8(/ | sub=/result.map(String::from).map_err(invalid_data)/utf8_result_to_string(result)/ | sub=/let r#match = /let match__ = / | sub=/		r#match,/		r#match: match__,/
	ensures
		res is Ok ==> ({
			let b = (*old(r))@;
			let s = res->Ok_0;
			&&& b.len() >= 320
			&&& players_match(s.players@, b, 4) /*[C05.players_by_port_from_their_slices]*/
		}),
//@loop 1
		invariant
			n <= 4, NUM_PORTS == 4, (*old(r))@.len() >= 320,
			is_teams == (be_u8((*old(r))@, 12) != 0),
			recs(players_v0, (*old(r))@, 100),
			(players_v1_0 is Some) == ((*old(r))@.len() > 320), players_v1_0 is Some ==> (*old(r))@.len() >= 352 && recs(players_v1_0->Some_0, (*old(r))@, 320),
			(players_v1_3 is Some) == ((*old(r))@.len() > 352), players_v1_3 is Some ==> (*old(r))@.len() >= 416 && recs(players_v1_3->Some_0, (*old(r))@, 352),
			(players_v3_9 is Some) == ((*old(r))@.len() > 420), players_v3_9 is Some ==> (*old(r))@.len() >= 584 && recs(players_v3_9->Some_0.0, (*old(r))@, 420) && recs(players_v3_9->Some_0.1, (*old(r))@, 544),
			(players_v3_11 is Some) == ((*old(r))@.len() > 584), players_v3_11 is Some ==> (*old(r))@.len() >= 700 && recs(players_v3_11->Some_0, (*old(r))@, 584),
			err__ is None ==> players_match(out__@, (*old(r))@, n as int),
		decreases 4 - n + (if err__ is None { 1int } else { 0int }),
//@before n += 1
		proof {
			if err__ is None {
				let b = (*old(r))@;
				let i = n as int;
				if playertype_of(be_u8(b, 100 + 36 * i + 1)) is Some { assert(out__@.drop_last() =~= out0); } else { assert(out__@ =~= out0); }
			}
		}
//@before let players =
	let ghost mut out0: Seq<Player> = Seq::empty();
//@before player(
		proof {
			out0 = out__@;
			let b = (*old(r))@;
			let i = n as int;
			assert(players_v0@[i]@ =~= b.subrange(100 + 36 * i, 136 + 36 * i));
			if players_v1_0 is Some { assert(players_v1_0->Some_0@[i]@ =~= b.subrange(320 + 8 * i, 320 + 8 * i + 8)); }
			if players_v1_3 is Some { assert(players_v1_3->Some_0@[i]@ =~= b.subrange(352 + 16 * i, 352 + 16 * i + 16)); }
			if players_v3_9 is Some {
				assert(players_v3_9->Some_0.0@[i]@ =~= b.subrange(420 + 31 * i, 420 + 31 * i + 31));
				assert(players_v3_9->Some_0.1@[i]@ =~= b.subrange(544 + 10 * i, 544 + 10 * i + 10));
			}
			if players_v3_11 is Some { assert(players_v3_11->Some_0@[i]@ =~= b.subrange(584 + 29 * i, 584 + 29 * i + 29)); }
		}
//@end


} // verus!
fn main() {}
'''


def template(repo):
    return TEMPLATE
