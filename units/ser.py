"""Unit ser: src/io/slippi/ser.rs (payload table, raw length, gecko blocks, start/end emission, write)
and src/frame/immutable/slippi.rs Data/PortData/Frame::write  (C01, C17, C09 writer guard)."""
from vp import gen_codec

REL = 'src/frame/immutable/mod.rs'
REL_S = 'src/frame/immutable/slippi.rs'
SER = 'src/io/slippi/ser.rs'

HEADER = r'''use vstd::prelude::*;
use std::mem::size_of;
macro_rules! assert_eq { ($a:expr, $b:expr) => { rt_assert($a == $b) } }
macro_rules! assert { ($a:expr) => { rt_assert($a) } }
verus! {
//@use core.rs
//@use arrow_imm.rs
//@use write.rs
//@use version.rs
//@use std_int.rs
//@use u8u16map.rs
//@use error.rs
broadcast use PrimitiveArray::axiom_values_spec;
'''

FRAME = r'''
// ------------------------------------------------------------------------------------------------
// game-level types (struct projection D5: only the fields the serializer reads)
//@struct src/frame/mod.rs PortOccupancy
// src/frame/mod.rs: the first frame id (not used by the code under contract today; present so that a body that starts using it stays decidable)
pub mod frame {
//@const src/frame/mod.rs FIRST_INDEX
}
pub mod game {
	use vstd::prelude::*;
	use super::{slippi, Version, PortOccupancy};
//@enum src/game/mod.rs Port
//@struct src/game/mod.rs Bytes
//@struct src/game/mod.rs Start keep=slippi,bytes
//@struct src/game/mod.rs End keep=bytes
//@struct src/game/mod.rs GeckoCodes
//@struct src/game/mod.rs Quirks
	impl End {
		// Game End payload size prescribed for the version: 1 (< 2.0), 2 (>= 2.0), 6 (>= 3.13)
		pub open spec fn size_spec(v: Version) -> int { if v.ge(3, 13) { 6 } else if v.ge(2, 0) { 2 } else { 1 } }
//@fn src/game/mod.rs | impl End | size | ret=res
		ensures res == End::size_spec(version) /*[game.End.size]*/,
//@end
	}
	pub mod immutable {
		use vstd::prelude::*;
		use super::{Start, End, GeckoCodes, Quirks};
		use super::super::{Frame, JsMap};
//@struct src/game/immutable.rs Game | tysub=/Option<Map<String, Value>>/Option<JsMap>/
	}
}
use game::{immutable::Game, GeckoCodes, Port};
pub mod slippi {
	use super::*;
	pub use super::Version;
//@struct src/io/slippi/mod.rs Slippi
//@const src/io/slippi/mod.rs FILE_SIGNATURE
	pub mod de {
//@enum src/io/slippi/de.rs Event
	}
	// (major, minor, patch) <= (3, 16, 0); the real function is proved against this by the Kani harness c09_assert_max_version
	pub open spec fn le_max(v: Version) -> bool { (v.0 as int) * 65536 + (v.1 as int) * 256 + (v.2 as int) <= 3 * 65536 + 16 * 256 + 0 }
	#[verifier::external_body]
	pub fn assert_max_version(version: Version) -> (res: Result<()>) ensures res is Ok == le_max(version) { unimplemented!() }
}
use slippi::de::Event;
// serde_json::Map<String, Value>: opaque here; the UBJSON writer is verified in the ubjson unit
#[verifier::external_body]
pub struct JsMap { _p: () }
pub uninterp spec fn ubjson_map_bytes(m: &JsMap) -> Seq<u8>;
pub mod ubjson {
	use super::*;
	#[verifier::external_body]
	pub fn write_map<W: Write>(w: &mut W, map: &JsMap) -> (res: std::result::Result<(), IoError>)
		ensures res is Ok ==> (*final(w)).written() == (*old(w)).written() + ubjson_map_bytes(map)
	{ unimplemented!() }
}
type Result<T> = std::result::Result<T, Error>;
type BE = shim_core::BE;

// arrow2::offset::OffsetsBuffer<i32>: view = the offsets (one more than rows); `buf[i]` is `at(i)`
pub struct OffsetsBuffer<T> { pub v: Vec<T> }
impl OffsetsBuffer<i32> {
	pub open spec fn view(&self) -> Seq<i32> { self.v@ }
	#[verifier::external_body]
	pub fn at(&self, i: usize) -> (r: i32) requires i < self@.len() ensures r == self@[i as int] { unimplemented!() }
}

//@struct src/frame/immutable/mod.rs Data
//@struct src/frame/immutable/mod.rs PortData
//@struct src/frame/immutable/mod.rs Frame

// ------------------------------------------------------------------------------------------------
// specs: what the canonical .slp rendering of the frame columns is (property C01/C17, anchors:
// "frames re-emitted in canonical order (start, pre*, item*, post*, end) with version-gated fields")
pub open spec fn present(d: &Data, i: int) -> bool { match d.validity { Some(b) => b@[i], None => true } }
pub open spec fn data_wf(d: &Data, v: Version, n: nat) -> bool {
	&&& d.pre.wf(v) && d.pre.len_spec() == n
	&&& d.post.wf(v) && d.post.len_spec() == n
	&&& (d.validity is Some ==> d.validity->Some_0@.len() == n)
}
pub open spec fn port_wf(p: &PortData, v: Version, n: nat) -> bool {
	data_wf(&p.leader, v, n) && (p.follower is Some ==> data_wf(&p.follower->Some_0, v, n))
}
pub open spec fn frame_wf(f: &Frame, v: Version) -> bool {
	let n = f.id@.len();
	&&& forall|k: int| 0 <= k < f.ports@.len() ==> port_wf(#[trigger] &f.ports@[k], v, n)
	&&& (f.start is Some) == v.ge(2, 2)
	&&& (f.start is Some ==> f.start->Some_0.wf(v) && f.start->Some_0.len_spec() == n)
	&&& (f.end is Some) == v.ge(3, 0)
	&&& (f.end is Some ==> f.end->Some_0.wf(v) && f.end->Some_0.len_spec() == n)
	&&& (f.item is Some) == v.ge(3, 0)
	&&& (f.item_offset is Some) == v.ge(3, 0)
	&&& (f.item_offset is Some ==> {
		let o = f.item_offset->Some_0@;
		&&& o.len() == n + 1
		&&& o[0] == 0
		&&& (forall|a: int, b: int| 0 <= a <= b < o.len() ==> 0 <= #[trigger] o[a] <= #[trigger] o[b])
		&&& f.item->Some_0.wf(v) && o[n as int] == f.item->Some_0.len_spec()
	})
}
pub open spec fn port_byte(p: Port) -> u8 { match p { Port::P1 => 0u8, Port::P2 => 1u8, Port::P3 => 2u8, Port::P4 => 3u8 } }
// one pre-frame event: 0x37, frame id, port, follower flag, payload
pub open spec fn pre_event(d: &Data, acc: Seq<u8>, v: Version, i: int, id: i32, port: Port, follower: bool) -> Seq<u8> {
	if present(d, i) { d.pre.emit(acc + seq![0x37u8] + bytes_i32(id) + seq![port_byte(port)] + seq![if follower { 1u8 } else { 0u8 }], i, v) } else { acc }
}
pub open spec fn post_event(d: &Data, acc: Seq<u8>, v: Version, i: int, id: i32, port: Port, follower: bool) -> Seq<u8> {
	if present(d, i) { d.post.emit(acc + seq![0x38u8] + bytes_i32(id) + seq![port_byte(port)] + seq![if follower { 1u8 } else { 0u8 }], i, v) } else { acc }
}
// a port: leader first, then (Ice Climbers) follower
pub open spec fn port_pre(p: &PortData, acc: Seq<u8>, v: Version, i: int, id: i32) -> Seq<u8> {
	let a = pre_event(&p.leader, acc, v, i, id, p.port, false);
	match p.follower { Some(f) => pre_event(&f, a, v, i, id, p.port, true), None => a }
}
pub open spec fn port_post(p: &PortData, acc: Seq<u8>, v: Version, i: int, id: i32) -> Seq<u8> {
	let a = post_event(&p.leader, acc, v, i, id, p.port, false);
	match p.follower { Some(f) => post_event(&f, a, v, i, id, p.port, true), None => a }
}
pub open spec fn ports_pre(ports: Seq<PortData>, k: int, acc: Seq<u8>, v: Version, i: int, id: i32) -> Seq<u8> decreases k {
	if k <= 0 { acc } else { port_pre(&ports[k - 1], ports_pre(ports, k - 1, acc, v, i, id), v, i, id) }
}
pub open spec fn ports_post(ports: Seq<PortData>, k: int, acc: Seq<u8>, v: Version, i: int, id: i32) -> Seq<u8> decreases k {
	if k <= 0 { acc } else { port_post(&ports[k - 1], ports_post(ports, k - 1, acc, v, i, id), v, i, id) }
}
// items lo..hi of the flat item columns, each as an Item event of frame `id`
pub open spec fn items_emit(it: &Item, lo: int, hi: int, acc: Seq<u8>, v: Version, id: i32) -> Seq<u8> decreases hi - lo {
	if hi <= lo { acc } else { it.emit(items_emit(it, lo, hi - 1, acc, v, id) + seq![0x3Bu8] + bytes_i32(id), hi - 1, v) }
}
// one frame in canonical order: start?, pre*, item*, post*, end?   (a1..a4 are the intermediate outputs)
pub open spec fn frame_a1(f: &Frame, acc: Seq<u8>, v: Version, i: int) -> Seq<u8> {
	let id = f.id.values_spec()[i];
	if v.ge(2, 2) { f.start->Some_0.emit(acc + seq![0x3Au8] + bytes_i32(id), i, v) } else { acc }
}
pub open spec fn frame_a2(f: &Frame, acc: Seq<u8>, v: Version, i: int) -> Seq<u8> {
	ports_pre(f.ports@, f.ports@.len() as int, frame_a1(f, acc, v, i), v, i, f.id.values_spec()[i])
}
pub open spec fn frame_a3(f: &Frame, acc: Seq<u8>, v: Version, i: int) -> Seq<u8> {
	if v.ge(3, 0) { items_emit(&f.item->Some_0, f.item_offset->Some_0@[i] as int, f.item_offset->Some_0@[i + 1] as int, frame_a2(f, acc, v, i), v, f.id.values_spec()[i]) } else { frame_a2(f, acc, v, i) }
}
pub open spec fn frame_a4(f: &Frame, acc: Seq<u8>, v: Version, i: int) -> Seq<u8> {
	ports_post(f.ports@, f.ports@.len() as int, frame_a3(f, acc, v, i), v, i, f.id.values_spec()[i])
}
pub open spec fn frame_emit(f: &Frame, acc: Seq<u8>, v: Version, i: int) -> Seq<u8> {
	if v.ge(3, 0) { f.end->Some_0.emit(frame_a4(f, acc, v, i) + seq![0x3Cu8] + bytes_i32(f.id.values_spec()[i]), i, v) } else { frame_a4(f, acc, v, i) }
}
pub open spec fn frames_emit(f: &Frame, n: int, acc: Seq<u8>, v: Version) -> Seq<u8> decreases n {
	if n <= 0 { acc } else { frame_emit(f, frames_emit(f, n - 1, acc, v), v, n - 1) }
}

impl Data {
//@fn src/frame/immutable/slippi.rs | impl Data | write_pre | ret=res
	requires data_wf(self, version, self.pre.len_spec()), idx < self.pre.len_spec(),
	ensures res is Ok ==> (*final(w)).written() == pre_event(self, (*old(w)).written(), version, idx as int, frame_id, port.port, port.follower) /*[C01.pre_event_bytes]*/,
//@end
//@fn src/frame/immutable/slippi.rs | impl Data | write_post | ret=res
	requires data_wf(self, version, self.post.len_spec()), idx < self.post.len_spec(),
	ensures res is Ok ==> (*final(w)).written() == post_event(self, (*old(w)).written(), version, idx as int, frame_id, port.port, port.follower) /*[C01.post_event_bytes]*/,
//@end
}
impl PortData {
//@fn src/frame/immutable/slippi.rs | impl PortData | write_pre | ret=res | rules=R6
	requires port_wf(self, version, self.leader.pre.len_spec()), idx < self.leader.pre.len_spec(),
	ensures res is Ok ==> (*final(w)).written() == port_pre(self, (*old(w)).written(), version, idx as int, frame_id) /*[C01.port_pre_leader_then_follower]*/,
//@end
//@fn src/frame/immutable/slippi.rs | impl PortData | write_post | ret=res | rules=R6
	requires port_wf(self, version, self.leader.pre.len_spec()), idx < self.leader.pre.len_spec(),
	ensures res is Ok ==> (*final(w)).written() == port_post(self, (*old(w)).written(), version, idx as int, frame_id) /*[C01.port_post_leader_then_follower]*/,
//@end
}

impl Frame {
//@fn src/frame/immutable/mod.rs | impl Frame | len | ret=res
	ensures res == self.id@.len(),
//@end
//@fn src/frame/immutable/slippi.rs | impl Frame | write | ret=res | rules=R5,R16,R4b,R4c | sub=/self.id.values().iter().enumerate()/enumerate_values(&self.id)/ | sub=/offset[idx]/offset.at(idx)/ | sub=/offset[idx + 1]/offset.at(idx + 1)/
	requires frame_wf(self, version),
	ensures res is Ok ==> (*final(w)).written() == frames_emit(self, self.id@.len() as int, (*old(w)).written(), version) /*[C01.frames_canonical_order]*/,
//@loop 1
		invariant
			frame_wf(self, version),
			it__.rem().len() <= self.id@.len(),
			it__.rem() == enum_seq(self.id.values_spec()).subrange(self.id@.len() - it__.rem().len(), self.id@.len() as int),
			w.written() == frames_emit(self, self.id@.len() - it__.rem().len(), (*old(w)).written(), version),
		ensures it__.rem().len() == 0,
		decreases it__.rem().len(),
//@before match#1
		let ghost k0 = self.id@.len() - it__.rem().len();
		let ghost w0 = w.written();
//@before if#1
		proof {
			assert(enum_seq(self.id.values_spec())[k0] == (idx, frame_id));
			assert(idx == k0 && frame_id == self.id.values_spec()[k0]);
		}
//@loop 2
		invariant
			frame_wf(self, version), idx == k0, k0 < self.id@.len(), frame_id == self.id.values_spec()[k0],
			ib__0 <= self.ports@.len(),
			w.written() == ports_pre(self.ports@, ib__0 as int, frame_a1(self, w0, version, k0), version, k0, frame_id),
		decreases self.ports@.len() - ib__0,
//@loop 3
		invariant
			frame_wf(self, version), idx == k0, k0 < self.id@.len(), frame_id == self.id.values_spec()[k0], version.ge(3, 0),
			offset@ == self.item_offset->Some_0@,
			offset@[k0] <= item_idx as int <= end__0 as int, end__0 as int == offset@[k0 + 1],
			w.written() == items_emit(&self.item->Some_0, offset@[k0] as int, item_idx as int, frame_a2(self, w0, version, k0), version, frame_id),
		decreases end__0 - item_idx,
//@loop 4
		invariant
			frame_wf(self, version), idx == k0, k0 < self.id@.len(), frame_id == self.id.values_spec()[k0],
			ib__1 <= self.ports@.len(),
			w.written() == ports_post(self.ports@, ib__1 as int, frame_a3(self, w0, version, k0), version, k0, frame_id),
		decreases self.ports@.len() - ib__1,
//@end
}

// ---------------- C13: the single-frame row view of the finished columns ----------------
impl OffsetsBuffer<i32> {
	#[verifier::external_body]
	pub fn start_end(&self, i: usize) -> (r: (usize, usize))
		requires i + 1 < self@.len(), self@[i as int] >= 0, self@[i as int + 1] >= 0,
		ensures r.0 == self@[i as int], r.1 == self@[i as int + 1],
	{ unimplemented!() }
}
pub open spec fn data_row_eq(d: &Data, row: &transpose::Data, i: int) -> bool { d.pre.row_eq(row.pre, i) && d.post.row_eq(row.post, i) }
pub open spec fn port_row_eq(p: &PortData, row: &transpose::PortData, i: int) -> bool {
	&&& row.port == p.port && data_row_eq(&p.leader, &row.leader, i)
	&&& (row.follower is Some) == (p.follower is Some) && (p.follower is Some ==> data_row_eq(&p.follower->Some_0, &row.follower->Some_0, i))
}
impl Data {
//@fn src/frame/immutable/mod.rs | impl Data | transpose_one | ret=res
	requires data_wf(self, version, self.pre.len_spec()), i < self.pre.len_spec(),
	ensures data_row_eq(self, &res, i as int) /*[C13.character_row]*/,
//@end
}
impl PortData {
//@fn src/frame/immutable/mod.rs | impl PortData | transpose_one | ret=res
	requires port_wf(self, version, self.leader.pre.len_spec()), i < self.leader.pre.len_spec(),
	ensures port_row_eq(self, &res, i as int) /*[C13.port_row]*/,
//@end
}
impl Frame {
//@fn src/frame/immutable/mod.rs | impl Frame | transpose_one | ret=res
	requires frame_wf(self, version), i < self.id@.len(),
	ensures
		res.id == self.id.values_spec()[i as int] /*[C13.frame_id]*/,
		res.ports@.len() == self.ports@.len() && (forall|k: int| 0 <= k < self.ports@.len() ==> port_row_eq(#[trigger] &self.ports@[k], &res.ports@[k], i as int)) /*[C13.ports]*/,
		(res.start is Some) == version.ge(2, 2) && (version.ge(2, 2) ==> self.start->Some_0.row_eq(res.start->Some_0, i as int)) /*[C13.start]*/,
		(res.end is Some) == version.ge(3, 0) && (version.ge(3, 0) ==> self.end->Some_0.row_eq(res.end->Some_0, i as int)) /*[C13.end]*/,
		(res.items is Some) == version.ge(3, 0) /*[C13.items_iff_3_0]*/,
		version.ge(3, 0) ==> ({
			let lo = self.item_offset->Some_0@[i as int] as int;
			let hi = self.item_offset->Some_0@[i as int + 1] as int;
			&&& res.items->Some_0@.len() == hi - lo
			&&& forall|k: int| 0 <= k < hi - lo ==> self.item->Some_0.row_eq(#[trigger] res.items->Some_0@[k], lo + k)
		}) /*[C13.items_are_the_offset_slice]*/,
//@loop 1
		invariant ic__ <= self.ports@.len(), out__@.len() == ic__, frame_wf(self, version), i < self.id@.len(),
			forall|k: int| 0 <= k < ic__ ==> port_row_eq(#[trigger] &self.ports@[k], &out__@[k], i as int),
		decreases self.ports@.len() - ic__,
//@before let (start, end)
				let ghost fi = i as int;
//@loop 2
		invariant frame_wf(self, version), fi < self.id@.len(), 0 <= fi, version.ge(3, 0),
			start == self.item_offset->Some_0@[fi], endc__1 == end, end == self.item_offset->Some_0@[fi + 1],
			start <= i <= end, out__1@.len() == i - start,
			forall|k: int| 0 <= k < i - start ==> self.item->Some_0.row_eq(#[trigger] out__1@[k], start + k),
		decreases end - i,
//@end
}
// Game::frame(idx) (impl game::Game for Game) delegates with the start block's version
impl Game {
//@fn src/game/immutable.rs | impl game::Game for Game | len | ret=res | twin=__view
	ensures res == self.frames.id@.len() /*[C13.game_len_is_the_row_count]*/,
//@end
//@fn src/game/immutable.rs | impl game::Game for Game | start | ret=res | twin=__view | sigsub=/&Start/&game::Start/
	ensures *res == self.start /*[C13.game_start_accessor]*/,
//@end
//@fn src/game/immutable.rs | impl game::Game for Game | end | ret=res | twin=__view | sigsub=/Option<End>/Option<game::End>/
	ensures *res == self.end /*[C13.game_end_accessor]*/,
//@end
//@fn src/game/immutable.rs | impl game::Game for Game | gecko_codes | ret=res | twin=__view
	ensures *res == self.gecko_codes /*[C13.game_gecko_accessor]*/,
//@end
//@fn src/game/immutable.rs | impl game::Game for Game | metadata | ret=res | twin=__view | sigsub=/Option<Map<String, Value>>/Option<JsMap>/
	ensures *res == self.metadata /*[C13.game_metadata_accessor]*/,
//@end
//@fn src/game/immutable.rs | impl game::Game for Game | frame | ret=res | twin=__view
	requires frame_wf(&self.frames, ver(self)), idx < self.frames.id@.len(),
	ensures res.id == self.frames.id.values_spec()[idx as int] /*[C13.game_frame_is_row_idx]*/,
		res.ports@.len() == self.frames.ports@.len() && (forall|k: int| 0 <= k < self.frames.ports@.len() ==> port_row_eq(#[trigger] &self.frames.ports@[k], &res.ports@[k], idx as int)),
		(res.start is Some) == ver(self).ge(2, 2), (res.end is Some) == ver(self).ge(3, 0), (res.items is Some) == ver(self).ge(3, 0) /*[C13.absent_fields_by_version]*/,
//@end
}

// ------------------------------------------------------------------------------------------------
// src/io/slippi/ser.rs
//@struct src/io/slippi/ser.rs PayloadSizes
//@struct src/io/slippi/ser.rs FrameCounts

pub open spec fn code(e: Event) -> u8 {
	match e { Event::MessageSplitter => 0x10u8, Event::Payloads => 0x35u8, Event::GameStart => 0x36u8, Event::FramePre => 0x37u8, Event::FramePost => 0x38u8,
		Event::GameEnd => 0x39u8, Event::FrameStart => 0x3Au8, Event::Item => 0x3Bu8, Event::FrameEnd => 0x3Cu8, Event::GeckoCodes => 0x3Du8 }
}
pub open spec fn ver(g: &Game) -> Version { g.start.slippi.version }
pub open spec fn end_payload_len(g: &Game) -> int { match g.end { Some(e) => e.bytes.0@.len() as int, None => game::End::size_spec(ver(g)) } }
pub open spec fn has_gecko_events(g: &Game) -> bool { ver(g).ge(3, 3) && g.gecko_codes is Some }
// the payload-size table the property prescribes (order matters)
pub open spec fn payload_table_spec(g: &Game) -> Seq<(u8, u16)> {
	let v = ver(g);
	let t0 = seq![(0x36u8, g.start.bytes.0@.len() as u16), (0x37u8, (6 + Pre::size_spec(v)) as u16), (0x38u8, (6 + Post::size_spec(v)) as u16), (0x39u8, end_payload_len(g) as u16)];
	let t1 = if v.ge(2, 2) { t0.push((0x3Au8, (4 + Start::size_spec(v)) as u16)) } else { t0 };
	let t2 = if v.ge(3, 0) { t1.push((0x3Bu8, (4 + Item::size_spec(v)) as u16)).push((0x3Cu8, (4 + End::size_spec(v)) as u16)) } else { t1 };
	if has_gecko_events(g) { t2.push((0x3Du8, g.gecko_codes->Some_0.actual_size as u16)).push((0x10u8, 516u16)) } else { t2 }
}
pub open spec fn gecko_blocks(c: &GeckoCodes) -> int { (c.actual_size as int + 511) / 512 }
pub open spec fn gecko_wf(c: &GeckoCodes) -> bool {
	c.bytes@.len() % 512 == 0 && c.bytes@.len() / 512 == gecko_blocks(c) && c.bytes@.len() / 512 * 517 <= 0xffff_ffff
}
pub open spec fn game_wf(g: &Game) -> bool {
	&&& frame_wf(&g.frames, ver(g))
	&&& g.start.bytes.0@.len() <= 0xffff
	&&& (g.end is Some ==> g.end->Some_0.bytes.0@.len() <= 0xffff)
	&&& (g.gecko_codes is Some ==> gecko_wf(&g.gecko_codes->Some_0))
	// stated input bound: fewer than 2^32 frame rows and items (a raw element cannot be longer than that anyway)
	&&& g.frames.id@.len() <= 0xffff_ffff
	&&& (g.frames.item is Some ==> g.frames.item->Some_0.id@.len() <= 0xffff_ffff)
}
pub open spec fn validity_lens_ok(ports: Seq<PortData>, n: nat) -> bool {
	&&& forall|k: int| 0 <= k < ports.len() ==> (#[trigger] ports[k]).leader.validity is Some ==> ports[k].leader.validity->Some_0@.len() == n
	&&& forall|k: int| 0 <= k < ports.len() ==> (#[trigger] ports[k]).follower is Some && ports[k].follower->Some_0.validity is Some ==> ports[k].follower->Some_0.validity->Some_0@.len() == n
}
pub proof fn lemma_ports_present_monotone(ports: Seq<PortData>, k: int, m: int, n: nat)
	requires validity_lens_ok(ports, n), 0 <= k <= m <= ports.len(),
	ensures 0 <= ports_present_count(ports, k, n as int) <= ports_present_count(ports, m, n as int),
	decreases m
{
	if m > 0 {
		let p_ = &ports[m - 1];
		if p_.leader.validity is Some { lemma_count_false_le(p_.leader.validity->Some_0@); }
		if p_.follower is Some && p_.follower->Some_0.validity is Some { lemma_count_false_le(p_.follower->Some_0.validity->Some_0@); }
		assert(port_present_count(&ports[m - 1], n as int) >= 0);
		if k < m {
			lemma_ports_present_monotone(ports, k, m - 1, n);
		} else {
			lemma_ports_present_monotone(ports, m - 1, m - 1, n);
		}
	}
}
pub proof fn lemma_table_map(g: &Game)
	ensures ({
		let m = pairs_map(payload_table_spec(g));
		let v = ver(g);
		&&& payload_table_spec(g).len() <= 9
		&&& payload_table_spec(g).len() == 4 + (if v.ge(2, 2) { 1int } else { 0 }) + (if v.ge(3, 0) { 2int } else { 0 }) + (if has_gecko_events(g) { 2int } else { 0 })
		&&& m.contains_key(0x36u8) && m[0x36u8] == g.start.bytes.0@.len() as u16
		&&& m.contains_key(0x37u8) && m[0x37u8] == (6 + Pre::size_spec(v)) as u16
		&&& m.contains_key(0x38u8) && m[0x38u8] == (6 + Post::size_spec(v)) as u16
		&&& m.contains_key(0x39u8) && m[0x39u8] == end_payload_len(g) as u16
		&&& m.contains_key(0x3Au8) == v.ge(2, 2) && (v.ge(2, 2) ==> m[0x3Au8] == (4 + Start::size_spec(v)) as u16)
		&&& m.contains_key(0x3Bu8) == v.ge(3, 0) && (v.ge(3, 0) ==> m[0x3Bu8] == (4 + Item::size_spec(v)) as u16)
		&&& m.contains_key(0x3Cu8) == v.ge(3, 0) && (v.ge(3, 0) ==> m[0x3Cu8] == (4 + End::size_spec(v)) as u16)
	}),
{
	reveal_with_fuel(pairs_map, 12);
	let t = payload_table_spec(g);
	assert(t.drop_last().len() == t.len() - 1);
}

// per-character presence counts
pub open spec fn data_present_count(d: &Data, n: int) -> int { match d.validity { Some(b) => n - count_false(b@), None => n } }
pub open spec fn port_present_count(p: &PortData, n: int) -> int {
	data_present_count(&p.leader, n) + (match p.follower { Some(f) => data_present_count(&f, n), None => 0 })
}
pub open spec fn ports_present_count(ports: Seq<PortData>, k: int, n: int) -> int decreases k {
	if k <= 0 { 0 } else { ports_present_count(ports, k - 1, n) + port_present_count(&ports[k - 1], n) }
}
pub open spec fn count_frames(g: &Game) -> int { g.frames.id@.len() as int }
pub open spec fn count_frame_data(g: &Game) -> int { ports_present_count(g.frames.ports@, g.frames.ports@.len() as int, g.frames.id@.len() as int) }
pub open spec fn count_items(g: &Game) -> int { match g.frames.item { Some(i) => i.id@.len() as int, None => 0 } }
pub open spec fn double_end(g: &Game) -> bool { match g.quirks { Some(q) => q.double_game_end, None => false } }
// length of the raw element: payload-size event + start + gecko blocks + frame events + game end(s)
pub open spec fn raw_formula(g: &Game) -> int {
	let v = ver(g);
	2 + 3 * payload_table_spec(g).len()
	+ 1 + g.start.bytes.0@.len()
	+ (match g.end { Some(e) => (1 + e.bytes.0@.len()) * (if double_end(g) { 2int } else { 1int }), None => 0 })
	+ count_frame_data(g) * (1 + 6 + Pre::size_spec(v))
	+ count_frame_data(g) * (1 + 6 + Post::size_spec(v))
	+ (if v.ge(2, 2) { count_frames(g) * (1 + 4 + Start::size_spec(v)) } else { 0 })
	+ (if v.ge(3, 0) { count_frames(g) * (1 + 4 + End::size_spec(v)) + count_items(g) * (1 + 4 + Item::size_spec(v)) } else { 0 })
	+ (match g.gecko_codes { Some(c) => c.bytes@.len() / 512 * 517, None => 0 })
}

//@fn src/io/slippi/ser.rs | - | gecko_codes_size | ret=res
	requires gecko_wf(gecko_codes),
	ensures res == gecko_codes.bytes@.len() / 512 * 517 /*[C17.gecko_blocks_size]*/,
//@end

//@fn src/io/slippi/ser.rs | - | frame_counts | ret=res | rules=R6,R9c
	requires frames.id@.len() <= 0xffff_ffff,
		ports_present_count(frames.ports@, frames.ports@.len() as int, frames.id@.len() as int) <= 0xffff_ffff,
		(frames.item is Some ==> frames.item->Some_0.id@.len() <= 0xffff_ffff),
		validity_lens_ok(frames.ports@, frames.id@.len()),
	ensures res.frames == frames.id@.len() /*[C17.count_frames]*/,
		res.frame_data == ports_present_count(frames.ports@, frames.ports@.len() as int, frames.id@.len() as int) /*[C17.count_frame_data]*/,
		res.items == (match frames.item { Some(i) => i.id@.len() as int, None => 0 }) /*[C17.count_items]*/,
//@loop 1
		invariant
			len == frames.id@.len(), is__ <= frames.ports@.len(),
			sum__ == ports_present_count(frames.ports@, is__ as int, len as int),
			ports_present_count(frames.ports@, frames.ports@.len() as int, len as int) <= 0xffff_ffff,
			validity_lens_ok(frames.ports@, frames.id@.len()),
		decreases frames.ports@.len() - is__,
//@before let p =
		proof {
			let p_ = &frames.ports@[is__ as int];
			if p_.leader.validity is Some { lemma_count_false_le(p_.leader.validity->Some_0@); }
			if p_.follower is Some && p_.follower->Some_0.validity is Some { lemma_count_false_le(p_.follower->Some_0.validity->Some_0@); }
			lemma_ports_present_monotone(frames.ports@, is__ as int + 1, frames.ports@.len() as int, len as nat);
			lemma_ports_present_monotone(frames.ports@, 0, is__ as int, len as nat);
		}
//@end

impl PayloadSizes {
//@fn src/io/slippi/ser.rs | impl PayloadSizes | new | ret=res
	ensures res.sizes@ == Seq::<(u8, u16)>::empty(),
//@end
//@fn src/io/slippi/ser.rs | impl PayloadSizes | push
	requires size <= 0xffff,
	ensures (*final(self)).sizes@ == (*old(self)).sizes@.push((code(event), size as u16)) /*[C01.payload_entry]*/,
//@end
//@fn src/io/slippi/ser.rs | impl PayloadSizes | raw_size | ret=res | rules=R6 | sub=/std::collections::HashMap<u8, u16>/U8U16Map/ | sub=/self.sizes.iter().map(|(k, v)| (*k, *v)).collect()/pairs_to_map(&self.sizes)/ | sub=/sizes[&(/sizes.at(&(/ | sub=/ as u8)]/ as u8))/
	requires self.sizes@ == payload_table_spec(game), game_wf(game), raw_formula(game) <= 0xffff_ffff,
	ensures res == raw_formula(game) /*[C17.raw_length_formula]*/,
//@before let counts
		proof {
			let v = ver(game);
			let n = game.frames.id@.len();
			lemma_table_map(game);
			lemma_ports_present_monotone(game.frames.ports@, 0, game.frames.ports@.len() as int, n);
			assert(validity_lens_ok(game.frames.ports@, n));
			let fd = count_frame_data(game);
			let fr = count_frames(game);
			let it = count_items(game);
			assert(fd * (1 + 6 + Pre::size_spec(v)) >= fd) by (nonlinear_arith) requires fd >= 0, Pre::size_spec(v) >= 0;
			assert(fd * (1 + 6 + Post::size_spec(v)) >= 0) by (nonlinear_arith) requires fd >= 0, Post::size_spec(v) >= 0;
			assert(fr * (1 + 4 + Start::size_spec(v)) >= 0) by (nonlinear_arith) requires fr >= 0, Start::size_spec(v) >= 0;
			assert(fr * (1 + 4 + End::size_spec(v)) >= 0) by (nonlinear_arith) requires fr >= 0, End::size_spec(v) >= 0;
			assert(it * (1 + 4 + crate::Item::size_spec(v)) >= 0) by (nonlinear_arith) requires it >= 0, crate::Item::size_spec(v) >= 0;
		}
//@end
}

//@fn src/io/slippi/ser.rs | - | payload_sizes | ret=res | sub=/const FRAME_NUMBER: usize/let FRAME_NUMBER: usize/ | sub=/const PORT: usize/let PORT: usize/
	requires game.start.bytes.0@.len() <= 0xffff, (game.end is Some ==> game.end->Some_0.bytes.0@.len() <= 0xffff),
	ensures res.sizes@ == payload_table_spec(game) /*[C01.payload_table]*/,
//@end

// gecko blocks: k-th block = 0x10, 512 raw bytes, BE16(min(512, remaining actual bytes)), 0x3D, is-last flag
pub open spec fn gecko_block(c: &GeckoCodes, k: int) -> Seq<u8> {
	let rest = c.actual_size as int - 512 * k;
	seq![0x10u8] + c.bytes@.subrange(512 * k, 512 * k + 512) + bytes_u16((if rest < 512 { rest } else { 512 }) as u16) + seq![0x3Du8]
		+ seq![if 512 * (k + 1) >= c.actual_size as int { 1u8 } else { 0u8 }]
}
pub open spec fn gecko_emit(c: &GeckoCodes, k: int, acc: Seq<u8>) -> Seq<u8> decreases k {
	if k <= 0 { acc } else { gecko_emit(c, k - 1, acc) + gecko_block(c, k - 1) }
}
//@fn src/io/slippi/ser.rs | - | gecko_codes | ret=res | sub=/std::cmp::min(/min_usize(/ | sub=/u8::from(/u8_from_bool(/
	requires gecko_wf(codes),
	ensures res is Ok ==> (*final(w)).written() == gecko_emit(codes, gecko_blocks(codes), (*old(w)).written()) /*[C01.gecko_blocks]*/,
//@loop 1
		invariant
			gecko_wf(codes), actual_size == codes.actual_size as int,
			pos % 512 == 0, pos / 512 <= gecko_blocks(codes), pos <= codes.bytes@.len(),
			w.written() == gecko_emit(codes, pos as int / 512, (*old(w)).written()),
		ensures pos as int / 512 == gecko_blocks(codes),
		decreases gecko_blocks(codes) - pos / 512,
//@end

//@fn src/io/slippi/ser.rs | - | game_start | ret=res
	requires ver == s.slippi.version,
	ensures res is Ok ==> (*final(w)).written() == (*old(w)).written() + seq![0x36u8] + s.bytes.0@ /*[C01.start_raw_reemitted]*/,
//@end
//@fn src/io/slippi/ser.rs | - | game_end | ret=res
	ensures res is Ok ==> (*final(w)).written() == (*old(w)).written() + seq![0x39u8] + e.bytes.0@ /*[C01.end_raw_reemitted]*/,
//@end

// the payload-size table as bytes: code, BE16 size per entry
pub open spec fn table_emit(t: Seq<(u8, u16)>, k: int, acc: Seq<u8>) -> Seq<u8> decreases k {
	if k <= 0 { acc } else { table_emit(t, k - 1, acc) + seq![t[k - 1].0] + bytes_u16(t[k - 1].1) }
}
pub open spec fn file_signature() -> Seq<u8> { seq![0x7bu8, 0x55, 0x03, 0x72, 0x61, 0x77, 0x5b, 0x24, 0x55, 0x23, 0x6c] }
pub open spec fn metadata_marker() -> Seq<u8> { seq![0x55u8, 0x08, 0x6d, 0x65, 0x74, 0x61, 0x64, 0x61, 0x74, 0x61, 0x7b] }
// the whole .slp file
pub open spec fn file_spec(g: &Game, acc: Seq<u8>) -> Seq<u8> {
	let t = payload_table_spec(g);
	let a0 = acc + file_signature() + bytes_u32(raw_formula(g) as u32) + seq![0x35u8] + seq![(3 * t.len() + 1) as u8];
	let a1 = table_emit(t, t.len() as int, a0);
	let a2 = a1 + seq![0x36u8] + g.start.bytes.0@;
	let a3 = match g.gecko_codes { Some(c) => gecko_emit(&c, gecko_blocks(&c), a2), None => a2 };
	let a4 = frames_emit(&g.frames, g.frames.id@.len() as int, a3, ver(g));
	let a5 = match g.end { Some(e) => if double_end(g) { a4 + seq![0x39u8] + e.bytes.0@ + seq![0x39u8] + e.bytes.0@ } else { a4 + seq![0x39u8] + e.bytes.0@ }, None => a4 };
	let a6 = match g.metadata { Some(m) => a5 + metadata_marker() + ubjson_map_bytes(&m) + seq![0x7du8], None => a5 };
	a6 + seq![0x7du8]
}
// ------------------------------------------------------------------------------------------------
// C17, mechanised: the raw element that file_spec lays out is exactly raw_formula(game) bytes long, i.e. the declared
// raw length equals the actual length (so a reader that trusts the header finds the metadata key right after the events).
pub open spec fn pres(d: &Data, i: int) -> int { if present(d, i) { 1 } else { 0 } }
pub open spec fn port_pres(p: &PortData, i: int) -> int { pres(&p.leader, i) + (match p.follower { Some(f) => pres(&f, i), None => 0 }) }
pub open spec fn ports_pres(ports: Seq<PortData>, k: int, i: int) -> int decreases k {
	if k <= 0 { 0 } else { ports_pres(ports, k - 1, i) + port_pres(&ports[k - 1], i) }
}
// characters present, summed over the first n frame rows
pub open spec fn pres_total(ports: Seq<PortData>, n: int) -> int decreases n {
	if n <= 0 { 0 } else { pres_total(ports, n - 1) + ports_pres(ports, ports.len() as int, n - 1) }
}
pub open spec fn data_upto(d: &Data, n: int) -> int decreases n { if n <= 0 { 0 } else { data_upto(d, n - 1) + pres(d, n - 1) } }
pub open spec fn port_upto(p: &PortData, n: int) -> int { data_upto(&p.leader, n) + (match p.follower { Some(f) => data_upto(&f, n), None => 0 }) }
pub open spec fn ports_upto(ports: Seq<PortData>, k: int, n: int) -> int decreases k {
	if k <= 0 { 0 } else { ports_upto(ports, k - 1, n) + port_upto(&ports[k - 1], n) }
}
pub proof fn lemma_pre_event_len(d: &Data, acc: Seq<u8>, v: Version, i: int, id: i32, port: Port, follower: bool)
	ensures pre_event(d, acc, v, i, id, port, follower).len() == acc.len() + pres(d, i) * (7 + Pre::size_spec(v))
{
	if present(d, i) { d.pre.lemma_emit_len(acc + seq![0x37u8] + bytes_i32(id) + seq![port_byte(port)] + seq![if follower { 1u8 } else { 0u8 }], i, v); }
}
pub proof fn lemma_post_event_len(d: &Data, acc: Seq<u8>, v: Version, i: int, id: i32, port: Port, follower: bool)
	ensures post_event(d, acc, v, i, id, port, follower).len() == acc.len() + pres(d, i) * (7 + Post::size_spec(v))
{
	if present(d, i) { d.post.lemma_emit_len(acc + seq![0x38u8] + bytes_i32(id) + seq![port_byte(port)] + seq![if follower { 1u8 } else { 0u8 }], i, v); }
}
pub proof fn lemma_port_pre_len(p: &PortData, acc: Seq<u8>, v: Version, i: int, id: i32)
	ensures port_pre(p, acc, v, i, id).len() == acc.len() + port_pres(p, i) * (7 + Pre::size_spec(v))
{
	lemma_pre_event_len(&p.leader, acc, v, i, id, p.port, false);
	let a = pre_event(&p.leader, acc, v, i, id, p.port, false);
	match p.follower { Some(f) => { lemma_pre_event_len(&f, a, v, i, id, p.port, true); }, None => {} }
	assert(port_pres(p, i) * (7 + Pre::size_spec(v)) == pres(&p.leader, i) * (7 + Pre::size_spec(v)) + (port_pres(p, i) - pres(&p.leader, i)) * (7 + Pre::size_spec(v))) by (nonlinear_arith);
}
pub proof fn lemma_port_post_len(p: &PortData, acc: Seq<u8>, v: Version, i: int, id: i32)
	ensures port_post(p, acc, v, i, id).len() == acc.len() + port_pres(p, i) * (7 + Post::size_spec(v))
{
	lemma_post_event_len(&p.leader, acc, v, i, id, p.port, false);
	let a = post_event(&p.leader, acc, v, i, id, p.port, false);
	match p.follower { Some(f) => { lemma_post_event_len(&f, a, v, i, id, p.port, true); }, None => {} }
	assert(port_pres(p, i) * (7 + Post::size_spec(v)) == pres(&p.leader, i) * (7 + Post::size_spec(v)) + (port_pres(p, i) - pres(&p.leader, i)) * (7 + Post::size_spec(v))) by (nonlinear_arith);
}
pub proof fn lemma_ports_pre_len(ports: Seq<PortData>, k: int, acc: Seq<u8>, v: Version, i: int, id: i32)
	requires 0 <= k <= ports.len()
	ensures ports_pre(ports, k, acc, v, i, id).len() == acc.len() + ports_pres(ports, k, i) * (7 + Pre::size_spec(v))
	decreases k
{
	if k > 0 {
		lemma_ports_pre_len(ports, k - 1, acc, v, i, id);
		lemma_port_pre_len(&ports[k - 1], ports_pre(ports, k - 1, acc, v, i, id), v, i, id);
		assert(ports_pres(ports, k, i) * (7 + Pre::size_spec(v)) == ports_pres(ports, k - 1, i) * (7 + Pre::size_spec(v)) + port_pres(&ports[k - 1], i) * (7 + Pre::size_spec(v))) by (nonlinear_arith)
			requires ports_pres(ports, k, i) == ports_pres(ports, k - 1, i) + port_pres(&ports[k - 1], i);
	}
}
pub proof fn lemma_ports_post_len(ports: Seq<PortData>, k: int, acc: Seq<u8>, v: Version, i: int, id: i32)
	requires 0 <= k <= ports.len()
	ensures ports_post(ports, k, acc, v, i, id).len() == acc.len() + ports_pres(ports, k, i) * (7 + Post::size_spec(v))
	decreases k
{
	if k > 0 {
		lemma_ports_post_len(ports, k - 1, acc, v, i, id);
		lemma_port_post_len(&ports[k - 1], ports_post(ports, k - 1, acc, v, i, id), v, i, id);
		assert(ports_pres(ports, k, i) * (7 + Post::size_spec(v)) == ports_pres(ports, k - 1, i) * (7 + Post::size_spec(v)) + port_pres(&ports[k - 1], i) * (7 + Post::size_spec(v))) by (nonlinear_arith)
			requires ports_pres(ports, k, i) == ports_pres(ports, k - 1, i) + port_pres(&ports[k - 1], i);
	}
}
pub proof fn lemma_items_emit_len(it: &Item, lo: int, hi: int, acc: Seq<u8>, v: Version, id: i32)
	requires lo <= hi
	ensures items_emit(it, lo, hi, acc, v, id).len() == acc.len() + (hi - lo) * (5 + Item::size_spec(v))
	decreases hi - lo
{
	if hi > lo {
		lemma_items_emit_len(it, lo, hi - 1, acc, v, id);
		it.lemma_emit_len(items_emit(it, lo, hi - 1, acc, v, id) + seq![0x3Bu8] + bytes_i32(id), hi - 1, v);
		assert((hi - lo) * (5 + Item::size_spec(v)) == (hi - 1 - lo) * (5 + Item::size_spec(v)) + (5 + Item::size_spec(v))) by (nonlinear_arith);
	} else {
		assert((hi - lo) * (5 + Item::size_spec(v)) == 0) by (nonlinear_arith) requires hi == lo;
	}
}
// bytes one frame row adds
pub open spec fn frame_row_len(f: &Frame, v: Version, i: int) -> int {
	let np = ports_pres(f.ports@, f.ports@.len() as int, i);
	(if v.ge(2, 2) { 5 + Start::size_spec(v) } else { 0 })
	+ np * (7 + Pre::size_spec(v)) + np * (7 + Post::size_spec(v))
	+ (if v.ge(3, 0) { (f.item_offset->Some_0@[i + 1] - f.item_offset->Some_0@[i]) * (5 + Item::size_spec(v)) + (5 + End::size_spec(v)) } else { 0 })
}
pub proof fn lemma_frame_emit_len(f: &Frame, acc: Seq<u8>, v: Version, i: int)
	requires frame_wf(f, v), 0 <= i < f.id@.len()
	ensures frame_emit(f, acc, v, i).len() == acc.len() + frame_row_len(f, v, i)
{
	let id = f.id.values_spec()[i];
	if v.ge(2, 2) { f.start->Some_0.lemma_emit_len(acc + seq![0x3Au8] + bytes_i32(id), i, v); }
	lemma_ports_pre_len(f.ports@, f.ports@.len() as int, frame_a1(f, acc, v, i), v, i, id);
	if v.ge(3, 0) {
		let o = f.item_offset->Some_0@;
		assert(o[i] <= o[i + 1]);
		lemma_items_emit_len(&f.item->Some_0, o[i] as int, o[i + 1] as int, frame_a2(f, acc, v, i), v, id);
	}
	lemma_ports_post_len(f.ports@, f.ports@.len() as int, frame_a3(f, acc, v, i), v, i, id);
	if v.ge(3, 0) { f.end->Some_0.lemma_emit_len(frame_a4(f, acc, v, i) + seq![0x3Cu8] + bytes_i32(id), i, v); }
}
// bytes the first n frame rows add: per-kind counts times event sizes
pub open spec fn frames_len(f: &Frame, v: Version, n: int) -> int {
	(if v.ge(2, 2) { n * (5 + Start::size_spec(v)) } else { 0 })
	+ pres_total(f.ports@, n) * (7 + Pre::size_spec(v)) + pres_total(f.ports@, n) * (7 + Post::size_spec(v))
	+ (if v.ge(3, 0) { (f.item_offset->Some_0@[n] - f.item_offset->Some_0@[0]) * (5 + Item::size_spec(v)) + n * (5 + End::size_spec(v)) } else { 0 })
}
pub proof fn lemma_frames_emit_len(f: &Frame, n: int, acc: Seq<u8>, v: Version)
	requires frame_wf(f, v), 0 <= n <= f.id@.len()
	ensures frames_emit(f, n, acc, v).len() == acc.len() + frames_len(f, v, n)
	decreases n
{
	if n > 0 {
		lemma_frames_emit_len(f, n - 1, acc, v);
		lemma_frame_emit_len(f, frames_emit(f, n - 1, acc, v), v, n - 1);
		let np = ports_pres(f.ports@, f.ports@.len() as int, n - 1);
		let pt = pres_total(f.ports@, n - 1);
		let (a, b) = (7 + Pre::size_spec(v), 7 + Post::size_spec(v));
		assert((pt + np) * a == pt * a + np * a && (pt + np) * b == pt * b + np * b) by (nonlinear_arith);
		if v.ge(2, 2) { assert(n * (5 + Start::size_spec(v)) == (n - 1) * (5 + Start::size_spec(v)) + (5 + Start::size_spec(v))) by (nonlinear_arith); }
		if v.ge(3, 0) {
			let o = f.item_offset->Some_0@;
			let c = 5 + Item::size_spec(v);
			assert((o[n] - o[0]) * c == (o[n - 1] - o[0]) * c + (o[n] - o[n - 1]) * c) by (nonlinear_arith);
			assert(n * (5 + End::size_spec(v)) == (n - 1) * (5 + End::size_spec(v)) + (5 + End::size_spec(v))) by (nonlinear_arith);
		}
	}
}
// summing presence row by row equals summing it character by character
pub proof fn lemma_ports_upto_step(ports: Seq<PortData>, k: int, n: int)
	requires 0 <= k <= ports.len(), n > 0
	ensures ports_upto(ports, k, n) == ports_upto(ports, k, n - 1) + ports_pres(ports, k, n - 1)
	decreases k
{
	if k > 0 { lemma_ports_upto_step(ports, k - 1, n); }
}
pub proof fn lemma_pres_total_by_character(ports: Seq<PortData>, n: int)
	requires n >= 0
	ensures pres_total(ports, n) == ports_upto(ports, ports.len() as int, n)
	decreases n
{
	if n > 0 {
		lemma_pres_total_by_character(ports, n - 1);
		lemma_ports_upto_step(ports, ports.len() as int, n);
	} else {
		lemma_ports_upto_zero(ports, ports.len() as int);
	}
}
pub proof fn lemma_ports_upto_zero(ports: Seq<PortData>, k: int)
	requires 0 <= k <= ports.len()
	ensures ports_upto(ports, k, 0) == 0
	decreases k
{
	if k > 0 { lemma_ports_upto_zero(ports, k - 1); }
}
// a character's present rows among the first n == n minus the unset validity bits among them
pub proof fn lemma_data_upto_count(d: &Data, n: int)
	requires n >= 0, d.validity is Some ==> n <= d.validity->Some_0@.len()
	ensures data_upto(d, n) == (match d.validity { Some(b) => n - count_false(b@.subrange(0, n)), None => n })
	decreases n
{
	if n > 0 {
		lemma_data_upto_count(d, n - 1);
		match d.validity {
			Some(b) => {
				assert(b@.subrange(0, n).drop_last() =~= b@.subrange(0, n - 1));
				assert(b@.subrange(0, n).last() == b@[n - 1]);
			},
			None => {},
		}
	} else {
		match d.validity { Some(b) => { assert(b@.subrange(0, 0).len() == 0); }, None => {} }
	}
}
pub proof fn lemma_ports_upto_is_present_count(ports: Seq<PortData>, k: int, n: nat)
	requires 0 <= k <= ports.len(), validity_lens_ok(ports, n)
	ensures ports_upto(ports, k, n as int) == ports_present_count(ports, k, n as int)
	decreases k
{
	if k > 0 {
		lemma_ports_upto_is_present_count(ports, k - 1, n);
		let p = &ports[k - 1];
		lemma_data_upto_count(&p.leader, n as int);
		match p.leader.validity { Some(b) => { assert(b@.subrange(0, n as int) =~= b@); }, None => {} }
		match p.follower {
			Some(fo) => {
				lemma_data_upto_count(&fo, n as int);
				match fo.validity { Some(b) => { assert(b@.subrange(0, n as int) =~= b@); }, None => {} }
			},
			None => {},
		}
	}
}
pub proof fn lemma_table_emit_len(t: Seq<(u8, u16)>, k: int, acc: Seq<u8>)
	requires 0 <= k <= t.len()
	ensures table_emit(t, k, acc).len() == acc.len() + 3 * k
	decreases k
{
	if k > 0 { lemma_table_emit_len(t, k - 1, acc); }
}
pub proof fn lemma_gecko_emit_len(c: &GeckoCodes, k: int, acc: Seq<u8>)
	requires gecko_wf(c), 0 <= k <= gecko_blocks(c)
	ensures gecko_emit(c, k, acc).len() == acc.len() + 517 * k
	decreases k
{
	if k > 0 {
		lemma_gecko_emit_len(c, k - 1, acc);
		assert(512 * (k - 1) + 512 <= c.bytes@.len());
	}
}
// the accumulator of file_spec after the last event of the raw element (everything up to, excluding, the metadata key)
pub open spec fn raw_element_end(g: &Game, acc: Seq<u8>) -> Seq<u8> {
	let t = payload_table_spec(g);
	let a0 = acc + file_signature() + bytes_u32(raw_formula(g) as u32) + seq![0x35u8] + seq![(3 * t.len() + 1) as u8];
	let a1 = table_emit(t, t.len() as int, a0);
	let a2 = a1 + seq![0x36u8] + g.start.bytes.0@;
	let a3 = match g.gecko_codes { Some(c) => gecko_emit(&c, gecko_blocks(&c), a2), None => a2 };
	let a4 = frames_emit(&g.frames, g.frames.id@.len() as int, a3, ver(g));
	match g.end { Some(e) => if double_end(g) { a4 + seq![0x39u8] + e.bytes.0@ + seq![0x39u8] + e.bytes.0@ } else { a4 + seq![0x39u8] + e.bytes.0@ }, None => a4 }
}
pub proof fn lemma_declared_raw_length_is_actual(g: &Game, acc: Seq<u8>)
	requires game_wf(g), g.gecko_codes is Some ==> ver(g).ge(3, 3)
	ensures
		// 11 signature bytes + 4 length bytes, then the raw element: exactly raw_formula(g) bytes
		raw_element_end(g, acc).len() == acc.len() + 15 + raw_formula(g) /*[C17.declared_length_is_actual_length]*/,
		// and file_spec continues from there with the metadata key / closing brace
		file_spec(g, acc) == (match g.metadata { Some(m) => raw_element_end(g, acc) + metadata_marker() + ubjson_map_bytes(&m) + seq![0x7du8], None => raw_element_end(g, acc) }) + seq![0x7du8] /*[C17.metadata_follows_the_raw_element]*/,
{
	let v = ver(g);
	let t = payload_table_spec(g);
	let n = g.frames.id@.len() as int;
	let a0 = acc + file_signature() + bytes_u32(raw_formula(g) as u32) + seq![0x35u8] + seq![(3 * t.len() + 1) as u8];
	lemma_table_emit_len(t, t.len() as int, a0);
	let a1 = table_emit(t, t.len() as int, a0);
	let a2 = a1 + seq![0x36u8] + g.start.bytes.0@;
	let a3 = match g.gecko_codes { Some(c) => gecko_emit(&c, gecko_blocks(&c), a2), None => a2 };
	match g.gecko_codes { Some(c) => { lemma_gecko_emit_len(&c, gecko_blocks(&c), a2); }, None => {} }
	lemma_frames_emit_len(&g.frames, n, a3, v);
	lemma_pres_total_by_character(g.frames.ports@, n);
	lemma_ports_upto_is_present_count(g.frames.ports@, g.frames.ports@.len() as int, n as nat);
	assert(pres_total(g.frames.ports@, n) == count_frame_data(g));
	if v.ge(3, 0) {
		let o = g.frames.item_offset->Some_0@;
		assert(o[n] - o[0] == count_items(g));
	}
	match g.gecko_codes { Some(c) => { assert(517 * gecko_blocks(&c) == c.bytes@.len() / 512 * 517); }, None => {} }
}
//@fn src/io/slippi/ser.rs | - | write | ret=res | rules=R4d,R6
	requires game_wf(game), raw_formula(game) <= 0xffff_ffff,
	ensures
		res is Ok ==> (*final(w)).written() == file_spec(game, (*old(w)).written()) /*[C01.file_layout]*/,
//@loop 1
		invariant
			id__0 <= vd__0@.len(), vd__0@ == payload_table_spec(game), vd__0@.len() <= 9,
			w.written() == table_emit(payload_table_spec(game), id__0 as int, (*old(w)).written() + file_signature() + bytes_u32(raw_formula(game) as u32) + seq![0x35u8] + seq![(3 * payload_table_spec(game).len() + 1) as u8]),
		decreases vd__0@.len() - id__0,
//@before let payload_sizes
		proof { lemma_table_map(game); }
//@end
// C09 as its own (small) contract on the same body: the version guard runs first and its error is returned
//@fn src/io/slippi/ser.rs | - | write | ret=res | rules=R4d,R6 | twin=__c09
	requires game_wf(game), raw_formula(game) <= 0xffff_ffff,
	ensures
		!slippi::le_max(ver(game)) ==> res is Err /*[C09.slp_writer_refuses_newer]*/,
		!slippi::le_max(ver(game)) ==> (*final(w)).written() == (*old(w)).written() /*[C09.nothing_written]*/,
//@loop 1
		invariant
			id__0 <= vd__0@.len(), vd__0@ == payload_table_spec(game), vd__0@.len() <= 9, slippi::le_max(ver(game)),
		decreases vd__0@.len() - id__0,
//@before let payload_sizes
		proof { lemma_table_map(game); }
//@end
'''


def template(repo):
    L = gen_codec.build_layouts(repo, REL, 'PrimitiveArray', 'Bitmap')
    out = [HEADER]
    out.append('pub mod transpose {\nuse super::*;')
    for s in gen_codec.ORDER + ['Data', 'PortData', 'Frame']:
        out.append('//@struct src/frame/transpose.rs %s' % s)
    out.append('}')
    for s in gen_codec.ORDER:
        out.append('//@struct %s %s' % (REL, s))
        out.append(gen_codec.immutable_specs(L, s, with_from=False))
        out.append(gen_codec.immutable_fn_contracts(L, s, REL, REL_S, stub=True, only=('write', 'size', 'transpose_one')))
    out.append(gen_codec.emit_len_lemmas(L))
    out.append(FRAME)
    out.append('} // verus!\nfn main() {}')
    return '\n'.join(out)
