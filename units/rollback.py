"""Unit rollback: immutable::Frame::rollbacks / rollbacks_ (C15)."""
REL = 'src/frame/immutable/mod.rs'

TEMPLATE = r'''use vstd::prelude::*;
verus! {
//@use arrow_imm.rs
//@use std_int.rs
pub mod frame {
//@const src/frame/mod.rs FIRST_INDEX
//@enum src/frame/mod.rs Rollbacks
}
use frame::Rollbacks;
broadcast use PrimitiveArray::axiom_values_spec;

// Only the id column matters for this unit (the other columns of immutable::Frame are not read by rollbacks).
pub struct Frame { pub id: PrimitiveArray<i32> }

// the property, verbatim: row k of the visiting order is marked iff an earlier-visited row has the same id
pub open spec fn seen_before(s: Seq<(usize, i32)>, k: int) -> bool {
	exists|j: int| 0 <= j < k && s[j].1 == s[k].1
}
pub open spec fn zb(s: Seq<(usize, i32)>, j: int) -> int { s[j].1 - frame::FIRST_INDEX }
pub open spec fn seen_upto(s: Seq<(usize, i32)>, n: int, z: int) -> bool {
	exists|j: int| 0 <= j < n && #[trigger] zb(s, j) == z
}
pub open spec fn visit_ok(f: &Frame, s: Seq<(usize, i32)>) -> bool {
	&&& forall|k: int| 0 <= k < s.len() ==> (#[trigger] s[k]).0 < f.id.values_spec().len() && s[k].1 == f.id.values_spec()[s[k].0 as int]
	&&& forall|j: int, k: int| 0 <= j < k < s.len() ==> s[j].0 != s[k].0
}
pub open spec fn ids_in_range(f: &Frame) -> bool {
	forall|i: int| 0 <= i < f.id.values_spec().len() ==> frame::FIRST_INDEX <= #[trigger] f.id.values_spec()[i]
}
pub open spec fn ids_below(f: &Frame, hi: int) -> bool {
	forall|i: int| 0 <= i < f.id.values_spec().len() ==> #[trigger] f.id.values_spec()[i] <= hi
}

impl Frame {
//@fn src/frame/immutable/mod.rs | impl Frame | len | ret=res
	ensures res == self.id.values_spec().len(),
//@end

//@fn src/frame/immutable/mod.rs | impl Frame | rollbacks_ | ret=result | rules=R5,R6 | sigsub=/<'a>/<'a, I: PairIter<'a>>/ | sigsub=/impl Iterator<Item = (usize, &'a i32)>/I/
	requires
		visit_ok(self, ids.rem()),
		ids_in_range(self),
		ids_below(self, 0x7fff_ffff - 123),
	ensures
		result@.len() == self.id.values_spec().len() /*[C15.mask_len]*/,
		forall|k: int| 0 <= k < ids.rem().len() ==> result@[(#[trigger] ids.rem()[k]).0 as int] == seen_before(ids.rem(), k) /*[C15.marked_iff_seen_before]*/,
		forall|i: int| 0 <= i < result@.len() && (forall|k: int| 0 <= k < ids.rem().len() ==> (#[trigger] ids.rem()[k]).0 != i) ==> !result@[i] /*[C15.unvisited_rows_unmarked]*/,
//@loop 1
		invariant
			it__.rem().len() <= ids.rem().len(),
			it__.rem() == ids.rem().subrange(ids.rem().len() - it__.rem().len(), ids.rem().len() as int),
			visit_ok(self, ids.rem()), ids_in_range(self), ids_below(self, 0x7fff_ffff - 123),
			result@.len() == self.id.values_spec().len(),
			seen@.len() == unique_id_count,
			self.id.values_spec().len() > 0 ==> (exists|m: int| 0 <= m < self.id.values_spec().len() && unique_id_count == 1 + (self.id.values_spec()[m] - frame::FIRST_INDEX)
				&& forall|i: int| 0 <= i < self.id.values_spec().len() ==> self.id.values_spec()[i] <= self.id.values_spec()[m]),
			forall|z: int| 0 <= z < seen@.len() ==> #[trigger] seen@[z] == seen_upto(ids.rem(), ids.rem().len() - it__.rem().len(), z),
			forall|k: int| 0 <= k < ids.rem().len() - it__.rem().len() ==> result@[(#[trigger] ids.rem()[k]).0 as int] == seen_before(ids.rem(), k),
			forall|i: int| 0 <= i < result@.len() && (forall|k: int| 0 <= k < ids.rem().len() - it__.rem().len() ==> (#[trigger] ids.rem()[k]).0 != i) ==> !result@[i],
		ensures it__.rem().len() == 0,
		decreases it__.rem().len(),
//@before match#2
	let ghost n0 = ids.rem().len() - it__.rem().len();
	let ghost seen0 = seen@;
	let ghost result0 = result@;
//@before let zero_based_id
			proof {
				let all = ids.rem();
				assert(all[n0] == (idx, *id));
				assert(zb(all, n0) == *id - frame::FIRST_INDEX);
				assert(all[n0].1 == self.id.values_spec()[all[n0].0 as int]);
			}
//@afterblock if#1
			proof {
				let all = ids.rem();
				let n1 = n0 + 1;
				assert(n1 == all.len() - it__.rem().len());
				assert forall|z: int| 0 <= z < seen@.len() implies #[trigger] seen@[z] == seen_upto(all, n1, z) by {
					if z == zero_based_id as int {
						assert(zb(all, n0) == z);
					} else {
						assert(seen@[z] == seen0[z]);
						if seen_upto(all, n0, z) { let j = choose|j: int| 0 <= j < n0 && zb(all, j) == z; assert(0 <= j < n1 && zb(all, j) == z); }
						if seen_upto(all, n1, z) { let j = choose|j: int| 0 <= j < n1 && zb(all, j) == z; assert(j != n0); assert(0 <= j < n0 && zb(all, j) == z); }
					}
				}
				assert(result@[idx as int] == seen0[zero_based_id as int]);
				assert(seen0[zero_based_id as int] == seen_upto(all, n0, zero_based_id as int));
				if seen_upto(all, n0, zero_based_id as int) { let j = choose|j: int| 0 <= j < n0 && zb(all, j) == zero_based_id as int; assert(all[j].1 == all[n0].1); assert(seen_before(all, n0)); }
				if seen_before(all, n0) { let j = choose|j: int| 0 <= j < n0 && all[j].1 == all[n0].1; assert(zb(all, j) == zero_based_id as int); assert(seen_upto(all, n0, zero_based_id as int)); }
				assert forall|k: int| 0 <= k < n1 implies result@[(#[trigger] all[k]).0 as int] == seen_before(all, k) by {
					if k < n0 { assert(all[k].0 != all[n0].0); assert(result@[all[k].0 as int] == result0[all[k].0 as int]); }
				}
				assert forall|i: int| 0 <= i < result@.len() && (forall|k: int| 0 <= k < n1 ==> (#[trigger] all[k]).0 != i) implies !result@[i] by {
					assert(all[n0].0 != i);
					assert(result@[i] == result0[i]);
					assert(forall|k: int| 0 <= k < n0 ==> (#[trigger] all[k]).0 != i);
				}
			}
//@end

//@fn src/frame/immutable/mod.rs | impl Frame | rollbacks_ | twin=__any_id | rules=R5,R6 | sigsub=/<'a>/<'a, I: PairIter<'a>>/ | sigsub=/impl Iterator<Item = (usize, &'a i32)>/I/
	requires
		visit_ok(self, ids.rem()),
		ids_in_range(self),
//@loop 1
		invariant
			visit_ok(self, ids.rem()), ids_in_range(self),
			it__.rem().len() <= ids.rem().len(),
			it__.rem() == ids.rem().subrange(ids.rem().len() - it__.rem().len(), ids.rem().len() as int),
			result@.len() == self.id.values_spec().len(),
			seen@.len() == unique_id_count,
			self.id.values_spec().len() > 0 ==> (exists|m: int| 0 <= m < self.id.values_spec().len() && unique_id_count == 1 + (self.id.values_spec()[m] - frame::FIRST_INDEX)
				&& forall|i: int| 0 <= i < self.id.values_spec().len() ==> self.id.values_spec()[i] <= self.id.values_spec()[m]),
		decreases it__.rem().len(),
//@before match#2
	let ghost n0 = ids.rem().len() - it__.rem().len();
	let ghost seen0 = seen@;
	let ghost result0 = result@;
//@before let zero_based_id
			proof {
				let all = ids.rem();
				assert(all[n0] == (idx, *id));
				assert(zb(all, n0) == *id - frame::FIRST_INDEX);
				assert(all[n0].1 == self.id.values_spec()[all[n0].0 as int]);
			}
//@end

//@fn src/frame/immutable/mod.rs | impl Frame | rollbacks | ret=result | tail
	requires ids_in_range(self), ids_below(self, 0x7fff_ffff - 123),
	ensures
		result@.len() == self.id.values_spec().len() /*[C15.one_bool_per_row]*/,
		keep == Rollbacks::ExceptFirst ==> forall|i: int| 0 <= i < result@.len() ==>
			#[trigger] result@[i] == (exists|j: int| 0 <= j < i && self.id.values_spec()[j] == self.id.values_spec()[i]) /*[C15.keep_first]*/,
		keep == Rollbacks::ExceptLast ==> forall|i: int| 0 <= i < result@.len() ==>
			#[trigger] result@[i] == (exists|j: int| i < j < result@.len() && self.id.values_spec()[j] == self.id.values_spec()[i]) /*[C15.keep_last]*/,
//@before let ret__
		proof {
			let vals = self.id.values_spec();
			assert(visit_ok(self, enum_seq(vals)));
			assert(visit_ok(self, rev_seq(enum_seq(vals))));
		}
//@after let ret__
		proof {
			let vals = self.id.values_spec();
			let n = vals.len() as int;
			if keep == Rollbacks::ExceptFirst {
				let s = enum_seq(vals);
				assert forall|i: int| 0 <= i < n implies #[trigger] ret__@[i] == (exists|j: int| 0 <= j < i && vals[j] == vals[i]) by {
					assert(s[i].0 == i);
					assert(ret__@[s[i].0 as int] == seen_before(s, i));
					if seen_before(s, i) { let j = choose|j: int| 0 <= j < i && s[j].1 == s[i].1; assert(vals[j] == vals[i]); }
					if exists|j: int| 0 <= j < i && vals[j] == vals[i] { let j = choose|j: int| 0 <= j < i && vals[j] == vals[i]; assert(s[j].1 == s[i].1); }
				}
			} else {
				let s = rev_seq(enum_seq(vals));
				assert forall|i: int| 0 <= i < n implies #[trigger] ret__@[i] == (exists|j: int| i < j < n && vals[j] == vals[i]) by {
					let k = n - 1 - i;
					assert(s[k].0 == i);
					assert(ret__@[s[k].0 as int] == seen_before(s, k));
					if seen_before(s, k) { let j = choose|j: int| 0 <= j < k && s[j].1 == s[k].1; assert(vals[n - 1 - j] == vals[i]); }
					if exists|j: int| i < j < n && vals[j] == vals[i] { let j = choose|j: int| i < j < n && vals[j] == vals[i]; assert(s[n - 1 - j].1 == s[k].1); }
				}
			}
		}
//@end
}

} // verus!
fn main() {}
'''


def template(repo):
    return TEMPLATE
