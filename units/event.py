"""Unit event: the incremental event parser — src/io/slippi/de.rs ParseState::{last_id, frame_open,
frame_close}, handle_splitter_event, parse_event — and the frame-level containers of
src/frame/mutable.rs (Data / PortData / Frame).  Serves C04, C08, C12, C06 (total contract), C03 (header stripping)."""
from vp import gen_codec

REL_MUT = 'src/frame/mutable.rs'
DE = 'src/io/slippi/de.rs'

HEADER = r'''use vstd::prelude::*;
macro_rules! assert_eq { ($a:expr, $b:expr) => { rt_assert($a == $b) } }
macro_rules! assert { ($a:expr) => { rt_assert($a) } }
macro_rules! err { ($($t:tt)*) => { mk_err() } }
macro_rules! debug { ($($t:tt)*) => { () } }
macro_rules! trace { ($($t:tt)*) => { () } }
macro_rules! info { ($($t:tt)*) => { () } }
macro_rules! warn { ($($t:tt)*) => { () } }
verus! {
//@use core.rs
//@use stream.rs
//@use error.rs
//@use version.rs
//@use offsets.rs
//@use std_int.rs
broadcast use shim_core::lemma_skip_skip;
broadcast use shim_core::group_bytes;
global size_of usize == 8;
'''

PART_0 = r'''
//@struct src/frame/mod.rs PortOccupancy
pub mod frame {
	pub use super::PortOccupancy;
	pub mod mutable_alias { pub type MutableFrame = super::super::mutable::Frame; }
//@const src/frame/mod.rs FIRST_INDEX
}
pub mod game {
	use vstd::prelude::*;
	use super::{slippi, Version, PortOccupancy};
//@enum src/game/mod.rs Port
//@const src/game/mod.rs ICE_CLIMBERS
//@const src/game/mod.rs NUM_PORTS
//@struct src/game/mod.rs Bytes
//@struct src/game/mod.rs Player | keep=port,character
//@struct src/game/mod.rs Start | keep=slippi,players,bytes
//@struct src/game/mod.rs End | keep=bytes
//@struct src/game/mod.rs GeckoCodes
//@struct src/game/mod.rs Quirks
	impl End {
		// Game End payload size prescribed for the version: 1 (< 2.0), 2 (>= 2.0), 6 (>= 3.13)
		pub open spec fn size_spec(v: Version) -> int { if v.ge(3, 13) { 6 } else if v.ge(2, 0) { 2 } else { 1 } }
//@fn src/game/mod.rs | impl End | size | ret=res
		ensures res == End::size_spec(version) /*[game.End.size]*/,
//@end
	}
}
use game::Port;
pub mod slippi {
	pub use super::Version;
//@struct src/io/slippi/mod.rs Slippi
}
pub open spec fn port_number(p: Port) -> int { match p { Port::P1 => 0, Port::P2 => 1, Port::P3 => 2, Port::P4 => 3 } }

'''

PART_A = r'''
// ---------------- frame-level containers (mutable) ----------------
//@struct src/frame/mutable.rs Data
//@struct src/frame/mutable.rs PortData
//@struct src/frame/mutable.rs Frame

// a character's columns: pre and post each internally consistent; the character-level validity bitmap (if any)
// has one bit per pre row
pub open spec fn data_wf(d: &Data, v: Version) -> bool {
	&&& d.pre.wf(v) && d.post.wf(v)
	&&& (d.validity is Some ==> d.validity->Some_0@.len() == d.pre.len_spec())
}
impl Data {
//@fn src/frame/mutable.rs | impl Data | with_capacity | ret=res
	ensures data_wf(&res, version), res.pre.len_spec() == 0, res.post.len_spec() == 0, res.validity is None, res.pre.validity is None, res.post.validity is None,
//@end
//@fn src/frame/mutable.rs | impl Data | len | ret=res
	ensures res == self.pre.len_spec(),
//@end
//@fn src/frame/mutable.rs | impl Data | push_null
	requires data_wf(&*old(self), version),
	ensures data_wf(&*final(self), version),
		Pre::pushed_null((*old(self)).pre, (*final(self)).pre, version) /*[C04.null_row.pre]*/,
		Post::pushed_null((*old(self)).post, (*final(self)).post, version) /*[C04.null_row.post]*/,
		(*final(self)).pre.len_spec() == (*old(self)).pre.len_spec() + 1,
		(*final(self)).post.len_spec() == (*old(self)).post.len_spec() + 1,
		(*final(self)).validity is Some /*[C04.null_row.absent_bit]*/,
		(*old(self)).validity is Some ==> (*final(self)).validity->Some_0@ == (*old(self)).validity->Some_0@.push(false),
		(*old(self)).validity is None ==> (*final(self)).validity->Some_0@ == Seq::new((*old(self)).pre.len_spec(), |i: int| true).push(false),
//@end
}
impl PortData {
//@fn src/frame/mutable.rs | impl PortData | with_capacity | ret=res
	ensures res.port == port.port, data_wf(&res.leader, version), res.leader.pre.len_spec() == 0, res.leader.post.len_spec() == 0, res.leader.validity is None,
		(res.follower is Some) == port.follower /*[C04.follower_iff_ics]*/,
		res.follower is Some ==> data_wf(&res.follower->Some_0, version) && res.follower->Some_0.pre.len_spec() == 0 && res.follower->Some_0.post.len_spec() == 0 && res.follower->Some_0.validity is None,
//@end
//@fn src/frame/mutable.rs | impl PortData | len | ret=res
	ensures res == self.leader.pre.len_spec(),
//@end
}
pub open spec fn port_wf(p: &PortData, v: Version) -> bool {
	data_wf(&p.leader, v) && (p.follower is Some ==> data_wf(&p.follower->Some_0, v))
}
// structural well-formedness of the frame columns for a version (what with_capacity establishes and every event preserves)
pub open spec fn frame_swf(f: &Frame, v: Version) -> bool {
	&&& forall|k: int| 0 <= k < f.ports@.len() ==> port_wf(#[trigger] &f.ports@[k], v)
	&&& (f.start is Some) == v.ge(2, 2) && (f.start is Some ==> f.start->Some_0.wf(v))
	&&& (f.end is Some) == v.ge(3, 0) && (f.end is Some ==> f.end->Some_0.wf(v))
	&&& (f.item is Some) == v.ge(3, 0) && (f.item is Some ==> f.item->Some_0.wf(v))
	&&& (f.item_offset is Some) == v.ge(3, 0) && (f.item_offset is Some ==> f.item_offset->Some_0@.len() > 0 && f.item_offset->Some_0@.last() >= 0)
}
impl Frame {
//@fn src/frame/mutable.rs | impl Frame | with_capacity | ret=res
	ensures frame_swf(&res, version) /*[C04.columns_by_version]*/,
		res.id@.len() == 0,
		res.ports@.len() == ports@.len(),
		forall|k: int| 0 <= k < ports@.len() ==> (#[trigger] res.ports@[k]).port == ports@[k].port && (res.ports@[k].follower is Some) == ports@[k].follower
			&& res.ports@[k].leader.pre.len_spec() == 0 && res.ports@[k].leader.post.len_spec() == 0 && res.ports@[k].leader.validity is None
			&& (res.ports@[k].follower is Some ==> res.ports@[k].follower->Some_0.pre.len_spec() == 0 && res.ports@[k].follower->Some_0.post.len_spec() == 0 && res.ports@[k].follower->Some_0.validity is None) /*[C04.one_column_set_per_port]*/,
		res.start is Some ==> res.start->Some_0.len_spec() == 0,
		res.end is Some ==> res.end->Some_0.len_spec() == 0,
		res.item is Some ==> res.item->Some_0.len_spec() == 0,
		res.item_offset is Some ==> res.item_offset->Some_0@ == seq![0i32],
//@loop 1
		invariant
			ic__ <= ports@.len(), out__@.len() == ic__,
			forall|k: int| 0 <= k < ic__ ==> port_wf(#[trigger] &out__@[k], version) && out__@[k].port == ports@[k].port && (out__@[k].follower is Some) == ports@[k].follower
				&& out__@[k].leader.pre.len_spec() == 0 && out__@[k].leader.post.len_spec() == 0 && out__@[k].leader.validity is None
				&& (out__@[k].follower is Some ==> out__@[k].follower->Some_0.pre.len_spec() == 0 && out__@[k].follower->Some_0.post.len_spec() == 0 && out__@[k].follower->Some_0.validity is None),
		decreases ports@.len() - ic__,
//@end
//@fn src/frame/mutable.rs | impl Frame | len | ret=res
	ensures res == self.id@.len(),
//@end
}

// ---------------- C13: the single-frame row view of the in-progress columns ----------------
pub open spec fn data_row_eq(d: &Data, row: &transpose::Data, i: int) -> bool { d.pre.row_eq(row.pre, i) && d.post.row_eq(row.post, i) }
pub open spec fn port_row_eq(p: &PortData, row: &transpose::PortData, i: int) -> bool {
	&&& row.port == p.port && data_row_eq(&p.leader, &row.leader, i)
	&&& (row.follower is Some) == (p.follower is Some) && (p.follower is Some ==> data_row_eq(&p.follower->Some_0, &row.follower->Some_0, i))
}
// row i of every column exists (the frame is complete)
pub open spec fn data_has_row(d: &Data, v: Version, i: int) -> bool { data_wf(d, v) && i < d.pre.len_spec() && i < d.post.len_spec() }
pub open spec fn port_has_row(p: &PortData, v: Version, i: int) -> bool { data_has_row(&p.leader, v, i) && (p.follower is Some ==> data_has_row(&p.follower->Some_0, v, i)) }
pub open spec fn frame_has_row(f: &Frame, v: Version, i: int) -> bool {
	&&& frame_swf(f, v) && 0 <= i < f.id@.len()
	&&& forall|k: int| 0 <= k < f.ports@.len() ==> port_has_row(#[trigger] &f.ports@[k], v, i)
	&&& (v.ge(2, 2) ==> i < f.start->Some_0.len_spec())
	&&& (v.ge(3, 0) ==> i < f.end->Some_0.len_spec() && i + 1 < f.item_offset->Some_0@.len()
			&& 0 <= f.item_offset->Some_0@[i] <= f.item_offset->Some_0@[i + 1] <= f.item->Some_0.len_spec())
}
impl Data {
//@fn src/frame/mutable.rs | impl Data | transpose_one | ret=res
	requires data_has_row(self, version, i as int),
	ensures data_row_eq(self, &res, i as int) /*[C13.mutable.character_row]*/,
//@end
}
impl PortData {
//@fn src/frame/mutable.rs | impl PortData | transpose_one | ret=res
	requires port_has_row(self, version, i as int),
	ensures port_row_eq(self, &res, i as int) /*[C13.mutable.port_row]*/,
//@end
}
impl Frame {
//@fn src/frame/mutable.rs | impl Frame | transpose_one | ret=res
	requires frame_has_row(self, version, i as int),
	ensures
		res.id == self.id.values_spec()[i as int] /*[C13.mutable.frame_id]*/,
		res.ports@.len() == self.ports@.len() && (forall|k: int| 0 <= k < self.ports@.len() ==> port_row_eq(#[trigger] &self.ports@[k], &res.ports@[k], i as int)) /*[C13.mutable.ports]*/,
		(res.start is Some) == version.ge(2, 2) && (version.ge(2, 2) ==> self.start->Some_0.row_eq(res.start->Some_0, i as int)) /*[C13.mutable.start]*/,
		(res.end is Some) == version.ge(3, 0) && (version.ge(3, 0) ==> self.end->Some_0.row_eq(res.end->Some_0, i as int)) /*[C13.mutable.end]*/,
		(res.items is Some) == version.ge(3, 0) /*[C13.mutable.items_iff_3_0]*/,
		version.ge(3, 0) ==> ({
			let lo = self.item_offset->Some_0@[i as int] as int;
			let hi = self.item_offset->Some_0@[i as int + 1] as int;
			&&& res.items->Some_0@.len() == hi - lo
			&&& forall|k: int| 0 <= k < hi - lo ==> self.item->Some_0.row_eq(#[trigger] res.items->Some_0@[k], lo + k)
		}) /*[C13.mutable.items_are_the_offset_slice]*/,
//@loop 1
		invariant ic__ <= self.ports@.len(), out__@.len() == ic__, frame_has_row(self, version, i as int),
			forall|k: int| 0 <= k < ic__ ==> port_row_eq(#[trigger] &self.ports@[k], &out__@[k], i as int),
		decreases self.ports@.len() - ic__,
//@before let (start, end)
				let ghost fi = i as int;
//@loop 2
		invariant frame_has_row(self, version, fi), version.ge(3, 0),
			start == self.item_offset->Some_0@[fi], endc__1 == end, end == self.item_offset->Some_0@[fi + 1],
			start <= i <= end, out__1@.len() == i - start,
			forall|k: int| 0 <= k < i - start ==> self.item->Some_0.row_eq(#[trigger] out__1@[k], start + k),
		decreases end - i,
//@end
}
'''

PART_B = r'''
// ---------------- src/io/slippi/de.rs ----------------
pub assume_specification<T: Clone> [ <[T]>::to_vec ](s: &[T]) -> (r: Vec<T>)
	ensures r@.len() == s@.len(), forall|i: int| 0 <= i < s@.len() ==> cloned(#[trigger] s@[i], r@[i]);
// `v.to_vec()` on bytes: a copy
#[verifier::external_body]
pub fn to_vec_u8(v: &Vec<u8>) -> (r: Vec<u8>) ensures r@ == v@ { unimplemented!() }
#[verifier::external_body]
pub struct JsMap { _p: () }
type PayloadSizes = [Option<NonZeroU16>; 256];
type BE = shim_core::BE;
//@enum src/io/slippi/de.rs Event
// num_enum's TryFromPrimitive derive, regenerated from the discriminants above (D1); validated against the real derive by Kani (k_event_try_from)
pub struct TryFromPrimitiveError;
pub open spec fn event_of(x: u8) -> Option<Event> {
	if x == 0x10 { Some(Event::MessageSplitter) } else if x == 0x35 { Some(Event::Payloads) } else if x == 0x36 { Some(Event::GameStart) }
	else if x == 0x37 { Some(Event::FramePre) } else if x == 0x38 { Some(Event::FramePost) } else if x == 0x39 { Some(Event::GameEnd) }
	else if x == 0x3A { Some(Event::FrameStart) } else if x == 0x3B { Some(Event::Item) } else if x == 0x3C { Some(Event::FrameEnd) }
	else if x == 0x3D { Some(Event::GeckoCodes) } else { None }
}
impl TryFrom<u8> for Event {
	type Error = TryFromPrimitiveError;
	#[verifier::external_body]
	fn try_from(x: u8) -> (r: std::result::Result<Event, TryFromPrimitiveError>)
		ensures event_of(x) is Some ==> r is Ok && r->Ok_0 == event_of(x)->Some_0, event_of(x) is None ==> r is Err
	{ unimplemented!() }
}
//@struct src/io/slippi/de.rs SplitAccumulator
//@struct src/io/slippi/de.rs PartialGame | tysub=/Option<serde_json::Map<String, serde_json::Value>>/Option<JsMap>/
//@struct src/io/slippi/de.rs ParseState | keep=payload_sizes,bytes_read,split_accumulator,port_indexes,game
use frame::mutable_alias::MutableFrame;
use game::{Quirks, NUM_PORTS};
type Result<T> = std::result::Result<T, Error>;

pub open spec fn ver(st: &ParseState) -> Version { st.game.start.slippi.version }
pub open spec fn ids(st: &ParseState) -> Seq<Option<i32>> { st.game.frames.id@ }
pub open spec fn last_id_spec(st: &ParseState) -> Option<i32> {
	if st.game.frames.id.values_spec().len() == 0 { None } else { Some(st.game.frames.id.values_spec().last()) }
}
// structural well-formedness of the parser state
pub open spec fn state_swf(st: &ParseState) -> bool {
	&&& frame_swf(&st.game.frames, ver(st))
}
// stated input bound (assumption 6 in DESIGN §8): the total input is shorter than 2^31 bytes
pub open spec fn within_input_bound(st: &ParseState) -> bool {
	st.bytes_read <= 0xffff_ffff_ffff && st.split_accumulator.actual_size <= 0x7fff_ffff
}

// game_end (Game End payload parser) is verified in the startend unit; here only: it keeps the raw block
pub uninterp spec fn game_end_spec(b: Seq<u8>) -> Option<game::End>;
#[verifier::external_body]
pub fn game_end(r: &mut &[u8]) -> (res: Result<game::End>)
	ensures res is Ok == game_end_spec((*old(r))@) is Some, res is Ok ==> res->Ok_0 == game_end_spec((*old(r))@)->Some_0 && res->Ok_0.bytes.0@ == (*old(r))@
{ unimplemented!() }

impl ParseState {
// the in-progress view: ParseState::frame(idx) (impl game::Game for ParseState) is the row view of the mutable columns
//@fn src/io/slippi/de.rs | impl game::Game for ParseState | frame | ret=res | twin=__view
	requires frame_has_row(&self.game.frames, ver(self), idx as int),
	ensures res.id == self.game.frames.id.values_spec()[idx as int] /*[C13.in_progress_frame_is_row_idx]*/,
		res.ports@.len() == self.game.frames.ports@.len() && (forall|k: int| 0 <= k < self.game.frames.ports@.len() ==> port_row_eq(#[trigger] &self.game.frames.ports@[k], &res.ports@[k], idx as int)),
		(res.start is Some) == ver(self).ge(2, 2), (res.end is Some) == ver(self).ge(3, 0), (res.items is Some) == ver(self).ge(3, 0) /*[C13.in_progress_absent_fields_by_version]*/,
//@end
// the accessors the incremental API reports through (property C12: the reported consumed-byte count, the frames so far)
//@fn src/io/slippi/de.rs | impl ParseState | bytes_read | ret=res
	ensures res == self.bytes_read /*[C12.reported_count_is_the_counter]*/,
//@end
//@fn src/io/slippi/de.rs | impl ParseState | frames | ret=res
	ensures *res == self.game.frames /*[C12.frames_view_is_the_columns]*/,
//@end
//@fn src/io/slippi/de.rs | impl game::Game for ParseState | len | ret=res | twin=__view
	ensures res == self.game.frames.id@.len() /*[C12.len_is_the_row_count]*/,
//@end
//@fn src/io/slippi/de.rs | impl game::Game for ParseState | start | ret=res | twin=__view
	ensures *res == self.game.start /*[C12.start_view_is_the_parsed_start]*/,
//@end
//@fn src/io/slippi/de.rs | impl game::Game for ParseState | end | ret=res | twin=__view
	ensures *res == self.game.end /*[C12.end_view_is_the_parsed_end]*/,
//@end
//@fn src/io/slippi/de.rs | impl game::Game for ParseState | gecko_codes | ret=res | twin=__view
	ensures *res == self.game.gecko_codes /*[C12.gecko_view_is_the_parsed_list]*/,
//@end
//@fn src/io/slippi/de.rs | impl ParseState | last_id | ret=res | rules=R6b | sub=/self.game.frames.id.values().last().map(|id| *id)/(match self.game.frames.id.values().last() { Some(id) => Some(*id), None => None })/
	ensures res == last_id_spec(self),
//@end
//@fn src/io/slippi/de.rs | impl ParseState | frame_open
	ensures (*final(self)).game.frames.id@ == (*old(self)).game.frames.id@.push(Some(id)) /*[C04.one_row_per_occurrence]*/,
		(*final(self)).game.frames.id.values_spec().len() == (*old(self)).game.frames.id.values_spec().len() + 1,
		(*final(self)).game.frames.id.values_spec().last() == id,
		frames_same_except_id(&*old(self), &*final(self)), rest_same(&*old(self), &*final(self)),
//@end
}
pub open spec fn frames_same_except_id(a: &ParseState, b: &ParseState) -> bool {
	&&& b.game.frames.ports == a.game.frames.ports && b.game.frames.start == a.game.frames.start && b.game.frames.end == a.game.frames.end
	&&& b.game.frames.item == a.game.frames.item && b.game.frames.item_offset == a.game.frames.item_offset
}
// everything outside the frame columns
pub open spec fn rest_same(a: &ParseState, b: &ParseState) -> bool {
	&&& b.payload_sizes == a.payload_sizes && b.bytes_read == a.bytes_read && b.split_accumulator == a.split_accumulator && b.port_indexes == a.port_indexes
	&&& b.game.start == a.game.start && b.game.end == a.game.end && b.game.metadata == a.game.metadata && b.game.gecko_codes == a.game.gecko_codes
	&&& b.game.hash == a.game.hash && b.game.quirks == a.game.quirks
}

// a character's columns after padding to n rows: existing rows untouched, added rows null and marked absent
pub open spec fn data_padded(a: &Data, b: &Data, n: nat) -> bool {
	&&& Pre::extended_by_nulls(a.pre, b.pre) && Post::extended_by_nulls(a.post, b.post)
	&&& b.pre.len_spec() == n && b.post.len_spec() == n
	&&& (a.pre.len_spec() == n ==> b.validity == a.validity)
	&&& (a.pre.len_spec() < n ==> b.validity is Some)
	&&& (a.validity is Some && b.validity is Some ==> col_ext_false(a.validity->Some_0@, b.validity->Some_0@))
	&&& (a.validity is None && b.validity is Some ==> col_ext_false(Seq::new(a.pre.len_spec(), |i: int| true), b.validity->Some_0@))
}
pub open spec fn port_padded(a: &PortData, b: &PortData, n: nat) -> bool {
	&&& b.port == a.port && data_padded(&a.leader, &b.leader, n)
	&&& (a.follower is Some == b.follower is Some) && (a.follower is Some ==> data_padded(&a.follower->Some_0, &b.follower->Some_0, n))
}
// row alignment (C04 "its values sit in that row and never in another row"): with n frame rows, every character has
// n or n-1 pre rows and n or n-1 post rows (n-1: no event yet in the open frame) and never a post without its pre
pub open spec fn data_aligned(d: &Data, n: nat) -> bool {
	&&& (d.pre.len_spec() == n || d.pre.len_spec() + 1 == n)
	&&& (d.post.len_spec() == n || d.post.len_spec() + 1 == n)
	&&& d.post.len_spec() <= d.pre.len_spec()
}
pub open spec fn port_aligned(p: &PortData, n: nat) -> bool { data_aligned(&p.leader, n) && (p.follower is Some ==> data_aligned(&p.follower->Some_0, n)) }
pub open spec fn rows_aligned(st: &ParseState) -> bool {
	forall|k: int| 0 <= k < st.game.frames.ports@.len() ==> port_aligned(#[trigger] &st.game.frames.ports@[k], st.game.frames.id@.len())
}
// all characters level with the frame rows (what a closed frame looks like)
pub open spec fn data_level(d: &Data, n: nat) -> bool { d.pre.len_spec() == n && d.post.len_spec() == n }
pub open spec fn rows_level(st: &ParseState) -> bool {
	forall|k: int| 0 <= k < st.game.frames.ports@.len() ==> data_level(&(#[trigger] st.game.frames.ports@[k]).leader, st.game.frames.id@.len())
		&& (st.game.frames.ports@[k].follower is Some ==> data_level(&st.game.frames.ports@[k].follower->Some_0, st.game.frames.id@.len()))
}
// a character may be closed when its pre and post columns are level and not ahead of the frame rows
pub open spec fn data_closable(d: &Data, n: nat) -> bool { d.pre.len_spec() == d.post.len_spec() && d.pre.len_spec() <= n }
pub open spec fn port_closable(p: &PortData, n: nat) -> bool { data_closable(&p.leader, n) && (p.follower is Some ==> data_closable(&p.follower->Some_0, n)) }
pub proof fn lemma_data_padded_step(a: &Data, m: &Data, b: &Data, v: Version, n: nat)
	requires data_wf(a, v), data_wf(m, v), data_wf(b, v), m.pre.len_spec() < n,
		Pre::extended_by_nulls(a.pre, m.pre), Post::extended_by_nulls(a.post, m.post),
		a.pre.len_spec() == a.post.len_spec(), m.pre.len_spec() == m.post.len_spec(), a.pre.len_spec() <= m.pre.len_spec(),
		(a.pre.len_spec() == m.pre.len_spec() ==> m.validity == a.validity),
		(a.pre.len_spec() < m.pre.len_spec() ==> m.validity is Some),
		(a.validity is Some && m.validity is Some ==> col_ext_false(a.validity->Some_0@, m.validity->Some_0@)),
		(a.validity is None && m.validity is Some ==> col_ext_false(Seq::new(a.pre.len_spec(), |i: int| true), m.validity->Some_0@)),
		Pre::pushed_null(m.pre, b.pre, v), Post::pushed_null(m.post, b.post, v),
		b.validity is Some,
		m.validity is Some ==> b.validity->Some_0@ == m.validity->Some_0@.push(false),
		m.validity is None ==> b.validity->Some_0@ == Seq::new(m.pre.len_spec(), |i: int| true).push(false),
		b.pre.len_spec() == m.pre.len_spec() + 1, b.post.len_spec() == m.post.len_spec() + 1,
	ensures
		Pre::extended_by_nulls(a.pre, b.pre), Post::extended_by_nulls(a.post, b.post),
		a.pre.len_spec() < b.pre.len_spec(), b.validity is Some,
		(a.validity is Some ==> col_ext_false(a.validity->Some_0@, b.validity->Some_0@)),
		(a.validity is None ==> col_ext_false(Seq::new(a.pre.len_spec(), |i: int| true), b.validity->Some_0@)),
{
	Pre::lemma_null_step(a.pre, m.pre, b.pre, v);
	Post::lemma_null_step(a.post, m.post, b.post, v);
}

impl ParseState {
//@fn src/io/slippi/de.rs | impl ParseState | frame_close | rules=R4
	requires state_swf(&*old(self)),
		forall|k: int| 0 <= k < (*old(self)).game.frames.ports@.len() ==> port_closable(#[trigger] &(*old(self)).game.frames.ports@[k], (*old(self)).game.frames.id@.len()),
	ensures state_swf(&*final(self)), rest_same(&*old(self), &*final(self)),
		(*final(self)).game.frames.id == (*old(self)).game.frames.id,
		(*final(self)).game.frames.start == (*old(self)).game.frames.start && (*final(self)).game.frames.end == (*old(self)).game.frames.end,
		(*final(self)).game.frames.item == (*old(self)).game.frames.item && (*final(self)).game.frames.item_offset == (*old(self)).game.frames.item_offset,
		(*final(self)).game.frames.ports@.len() == (*old(self)).game.frames.ports@.len(),
		forall|k: int| 0 <= k < (*old(self)).game.frames.ports@.len() ==>
			port_padded(#[trigger] &(*old(self)).game.frames.ports@[k], &(*final(self)).game.frames.ports@[k], (*old(self)).game.frames.id@.len()) /*[C04.every_column_one_entry_per_row]*/,
		rows_level(&*final(self)) /*[C04.closed_frame_is_level]*/,
//@loop 1
		invariant
			len == (*old(self)).game.frames.id@.len(),
			i__0 <= self.game.frames.ports@.len(),
			self.game.frames.ports@.len() == (*old(self)).game.frames.ports@.len(),
			rest_same(&*old(self), self), self.game.frames.id == (*old(self)).game.frames.id,
			self.game.frames.start == (*old(self)).game.frames.start && self.game.frames.end == (*old(self)).game.frames.end,
			self.game.frames.item == (*old(self)).game.frames.item && self.game.frames.item_offset == (*old(self)).game.frames.item_offset,
			state_swf(&*old(self)),
			forall|k: int| 0 <= k < self.game.frames.ports@.len() ==> port_wf(#[trigger] &self.game.frames.ports@[k], ver(&*old(self))),
			forall|k: int| 0 <= k < (*old(self)).game.frames.ports@.len() ==> port_closable(#[trigger] &(*old(self)).game.frames.ports@[k], len as nat),
			forall|k: int| 0 <= k < i__0 ==> port_padded(#[trigger] &(*old(self)).game.frames.ports@[k], &self.game.frames.ports@[k], len as nat),
			forall|k: int| 0 <= k < i__0 ==> data_level(&(#[trigger] self.game.frames.ports@[k]).leader, len as nat)
				&& (self.game.frames.ports@[k].follower is Some ==> data_level(&self.game.frames.ports@[k].follower->Some_0, len as nat)),
			forall|k: int| i__0 <= k < self.game.frames.ports@.len() ==> #[trigger] self.game.frames.ports@[k] == (*old(self)).game.frames.ports@[k],
		decreases self.game.frames.ports@.len() - i__0,
//@after let p = &mut
			let ghost p0 = *p;
			let ghost v0 = ver(&*old(self));
			proof {
				Pre::lemma_null_refl(p0.leader.pre); Post::lemma_null_refl(p0.leader.post);
				if p0.follower is Some { Pre::lemma_null_refl(p0.follower->Some_0.pre); Post::lemma_null_refl(p0.follower->Some_0.post); }
			}
//@loop 2
		invariant
			len == (*old(self)).game.frames.id@.len(), state_swf(&*old(self)),
			self.game.start == (*old(self)).game.start, v0 == ver(&*old(self)),
			data_wf(&p0.leader, ver(&*old(self))), data_closable(&p0.leader, len as nat),
			data_wf(&p.leader, ver(&*old(self))), data_closable(&p.leader, len as nat),
			Pre::extended_by_nulls(p0.leader.pre, p.leader.pre), Post::extended_by_nulls(p0.leader.post, p.leader.post), p0.leader.pre.len_spec() <= p.leader.pre.len_spec(),
			(p0.leader.pre.len_spec() == p.leader.pre.len_spec() ==> p.leader.validity == p0.leader.validity),
			(p0.leader.pre.len_spec() < p.leader.pre.len_spec() ==> p.leader.validity is Some),
			(p0.leader.validity is Some && p.leader.validity is Some ==> col_ext_false(p0.leader.validity->Some_0@, p.leader.validity->Some_0@)),
			(p0.leader.validity is None && p.leader.validity is Some ==> col_ext_false(Seq::new(p0.leader.pre.len_spec(), |i: int| true), p.leader.validity->Some_0@)),
			p.follower == p0.follower, p.port == p0.port,
		decreases len - p.leader.pre.len_spec(),
//@before p.leader.push_null
				let ghost m0 = p.leader;
//@after p.leader.push_null
				proof { lemma_data_padded_step(&p0.leader, &m0, &p.leader, v0, len as nat); }
//@loop 3
		invariant
			len == (*old(self)).game.frames.id@.len(), state_swf(&*old(self)),
			self.game.start == (*old(self)).game.start, v0 == ver(&*old(self)),
			data_wf(&p0.follower->Some_0, ver(&*old(self))), data_closable(&p0.follower->Some_0, len as nat),
			data_wf(&(*f), ver(&*old(self))), data_closable(&(*f), len as nat),
			Pre::extended_by_nulls(p0.follower->Some_0.pre, (*f).pre), Post::extended_by_nulls(p0.follower->Some_0.post, (*f).post), p0.follower->Some_0.pre.len_spec() <= (*f).pre.len_spec(),
			(p0.follower->Some_0.pre.len_spec() == (*f).pre.len_spec() ==> (*f).validity == p0.follower->Some_0.validity),
			(p0.follower->Some_0.pre.len_spec() < (*f).pre.len_spec() ==> (*f).validity is Some),
			(p0.follower->Some_0.validity is Some && (*f).validity is Some ==> col_ext_false(p0.follower->Some_0.validity->Some_0@, (*f).validity->Some_0@)),
			(p0.follower->Some_0.validity is None && (*f).validity is Some ==> col_ext_false(Seq::new(p0.follower->Some_0.pre.len_spec(), |i: int| true), (*f).validity->Some_0@)),
			p0.follower is Some,
		decreases len - f.pre.len_spec(),
//@before f.push_null
					let ghost m1 = *f;
//@after f.push_null
					proof { lemma_data_padded_step(&p0.follower->Some_0, &m1, &*f, v0, len as nat); }
//@end
//@fn src/io/slippi/de.rs | impl ParseState | frame_close | rules=R4 | twin=__total
	requires state_swf(&*old(self)),
	ensures state_swf(&*final(self)) /*[C06.frame_close_total]*/, rest_same(&*old(self), &*final(self)),
		(*final(self)).game.frames.id == (*old(self)).game.frames.id,
//@loop 1
		invariant
			len == (*old(self)).game.frames.id@.len(),
			i__0 <= self.game.frames.ports@.len(),
			rest_same(&*old(self), self), self.game.frames.id == (*old(self)).game.frames.id,
			self.game.frames.start == (*old(self)).game.frames.start && self.game.frames.end == (*old(self)).game.frames.end,
			self.game.frames.item == (*old(self)).game.frames.item && self.game.frames.item_offset == (*old(self)).game.frames.item_offset,
			state_swf(&*old(self)),
			forall|k: int| 0 <= k < self.game.frames.ports@.len() ==> port_wf(#[trigger] &self.game.frames.ports@[k], ver(&*old(self))),
		decreases self.game.frames.ports@.len() - i__0,
//@loop 2
		invariant len == (*old(self)).game.frames.id@.len(), state_swf(&*old(self)), self.game.start == (*old(self)).game.start,
			data_wf(&p.leader, ver(&*old(self))), p.follower is Some ==> data_wf(&p.follower->Some_0, ver(&*old(self))),
		decreases len - p.leader.pre.len_spec(),
//@loop 3
		invariant len == (*old(self)).game.frames.id@.len(), state_swf(&*old(self)), self.game.start == (*old(self)).game.start,
			data_wf(&*f, ver(&*old(self))),
		decreases len - f.pre.len_spec(),
//@end
}

//@fn src/io/slippi/de.rs | - | handle_splitter_event | ret=res
	requires buf@.len() == 516, be_u16(buf@, 512) <= 512, (*old(accumulator)).actual_size <= 0x7fff_ffff,
	ensures res is Ok,
		(*final(accumulator)).raw@ == (*old(accumulator)).raw@ + buf@.subrange(0, 512) /*[C01.gecko_padding_kept]*/,
		(*final(accumulator)).actual_size == (*old(accumulator)).actual_size + be_u16(buf@, 512) /*[C01.gecko_actual_size]*/,
		res->Ok_0 == (if buf@[515] != 0 { Some(buf@[514]) } else { None::<u8> }) /*[C01.gecko_final_block]*/,
//@end

//@fn src/io/slippi/de.rs | - | port_index | ret=res
	ensures res is Ok == (port < 4 && state.port_indexes[port as int] < state.game.frames.ports@.len()) /*[C06.port_checked]*/,
		res is Ok ==> res->Ok_0 == state.port_indexes[port as int],
//@end

// ---- the well-formedness premise of one event (property C04: "for every well-formed replay") ----
pub open spec fn payload_size(st: &ParseState, code: u8) -> int { match st.payload_sizes[code as int] { Some(n) => n@ as int, None => -1 } }
pub open spec fn slot_of(st: &ParseState, port: u8) -> int { st.port_indexes[port as int] as int }
pub open spec fn char_ok(st: &ParseState, p: Seq<u8>) -> bool {
	&&& p[4] < 4 && slot_of(st, p[4]) < st.game.frames.ports@.len()
	&&& (p[5] != 0 ==> st.game.frames.ports@[slot_of(st, p[4])].follower is Some)
}
pub open spec fn addressed(st: &ParseState, p: Seq<u8>) -> Data {
	if p[5] != 0 { st.game.frames.ports@[slot_of(st, p[4])].follower->Some_0 } else { st.game.frames.ports@[slot_of(st, p[4])].leader }
}
// event `code` with payload `p` (>= 4 bytes of frame id where applicable) is consistent with the open frame
pub open spec fn event_ok(st: &ParseState, code: u8, p: Seq<u8>) -> bool {
	let v = ver(st);
	let last = last_id_spec(st);
	&&& (code == 0x3A ==> p.len() >= 4 ==> v.ge(2, 2))
	&&& (code == 0x37 ==> p.len() >= 6 ==> char_ok(st, p) && (if v.ge(2, 2) { last == Some(be_i32(p, 0)) } else {
			(last is Some ==> last->Some_0 < 0x7fff_ffff) && (be_i32(p, 0) == (match last { Some(l) => l as int, None => -124int }) + 1 || last == Some(be_i32(p, 0))) }))
	// one pre-frame event per character per frame occurrence
	&&& (code == 0x37 ==> p.len() >= 6 ==> (v.ge(2, 2) || last == Some(be_i32(p, 0)) ==> addressed(st, p).pre.len_spec() + 1 == st.game.frames.id@.len()))
	// a post-frame event follows that character's pre-frame event, once
	&&& (code == 0x38 ==> p.len() >= 6 ==> char_ok(st, p) && last == Some(be_i32(p, 0))
			&& addressed(st, p).post.len_spec() + 1 == st.game.frames.id@.len() && addressed(st, p).pre.len_spec() == st.game.frames.id@.len())
	&&& (code == 0x3B ==> p.len() >= 4 ==> v.ge(3, 0) && last == Some(be_i32(p, 0)))
	&&& (code == 0x3C ==> p.len() >= 4 ==> v.ge(3, 0) && last == Some(be_i32(p, 0))
			&& st.game.frames.item->Some_0.len_spec() <= 0x7fff_ffff
			&& st.game.frames.item_offset->Some_0@.last() <= st.game.frames.item->Some_0.len_spec())
	&&& (code == 0x10 ==> p.len() == 516 && be_u16(p, 512) <= 512)
}

//@struct src/io/slippi/de.rs Opts | keep=skip_frames,compute_hash

// the event that is dispatched: a final splitter block hands over the wrapped code with the accumulated raw bytes
pub open spec fn eff_code(st: &ParseState, code0: u8, p: Seq<u8>) -> u8 { if code0 == 0x10 && p.len() == 516 && p[515] != 0 { p[514] } else { code0 } }
pub open spec fn eff_payload(st: &ParseState, code0: u8, p: Seq<u8>) -> Seq<u8> {
	if code0 == 0x10 && p.len() == 516 && p[515] != 0 { st.split_accumulator.raw@ + p.subrange(0, 512) } else { p }
}
pub open spec fn all_closable(st: &ParseState) -> bool {
	forall|k: int| 0 <= k < st.game.frames.ports@.len() ==> port_closable(#[trigger] &st.game.frames.ports@[k], st.game.frames.id@.len())
}
// exactly the code byte and the table-given number of payload bytes left the stream
pub open spec fn consumed_one_event<R: Read>(st: &ParseState, r0: &R, r1: &R) -> bool {
	let rest = r0.rest();
	&&& rest.len() >= 1 && payload_size(st, rest[0]) > 0 && rest.len() >= 1 + payload_size(st, rest[0])
	&&& r1.rest() == skip(rest, 1 + payload_size(st, rest[0]))
	// (the code byte, then the payload)
	&&& r1.consumed() == r0.consumed() + rest.subrange(0, 1) + rest.subrange(1, 1 + payload_size(st, rest[0]))
	&&& r1.hit_eof() == r0.hit_eof()
}
// premise on the bytes about to be read (nothing is demanded when they do not even form a sized event)
pub open spec fn next_event_ok(st: &ParseState, rest: Seq<u8>) -> bool {
	rest.len() >= 1 && payload_size(st, rest[0]) > 0 && rest.len() >= 1 + payload_size(st, rest[0]) ==> {
		let code0 = rest[0];
		let p = rest.subrange(1, 1 + payload_size(st, code0));
		let ec = eff_code(st, code0, p);
		let ep = eff_payload(st, code0, p);
		&&& event_ok(st, code0, p)
		// the Message Splitter only ever wraps Gecko List events (or codes unknown to the library)
		&&& (ec != code0 ==> ec == 0x3D || event_of(ec) is None)
		// frames before 3.0 are closed by the next Frame Start: every character seen in the open frame has both its events
		&&& (ec == 0x3A && !ver(st).ge(3, 0) ==> all_closable(st))
		// a Frame End closes the frame: ditto
		&&& (ec == 0x3C ==> all_closable(st))
		// before 2.2 a pre-frame event with the next id closes the previous frame: ditto
		&&& (ec == 0x37 && !ver(st).ge(2, 2) && p.len() >= 4 && last_id_spec(st) != Some(be_i32(p, 0)) ==> all_closable(st))
		// from 3.0 on a Frame Start follows a Frame End: every character is level with the frame rows
		&&& (ec == 0x3A && ver(st).ge(3, 0) ==> rows_level(st))
	}
}
// completeness: a sized event consistent with the open frame (next_event_ok) whose payload is at least as long as its version's
// fields is ACCEPTED -- whatever follows those fields (newer minor versions append bytes) and whatever the field values are
pub open spec fn event_long_enough(st: &ParseState, rest: Seq<u8>) -> bool {
	&&& rest.len() >= 1 && payload_size(st, rest[0]) > 0 && rest.len() >= 1 + payload_size(st, rest[0])
	&&& {
		let code0 = rest[0];
		let p = rest.subrange(1, 1 + payload_size(st, code0));
		let ec = eff_code(st, code0, p);
		let ep = eff_payload(st, code0, p);
		let v = ver(st);
		&&& ec != 0x35 && ec != 0x36
		&&& (ec == 0x37 ==> ep.len() >= 6 + Pre::size_spec(v))
		&&& (ec == 0x38 ==> ep.len() >= 6 + Post::size_spec(v))
		&&& (ec == 0x3A ==> ep.len() >= 4 + Start::size_spec(v))
		&&& (ec == 0x3B ==> ep.len() >= 4 + Item::size_spec(v))
		&&& (ec == 0x3C ==> ep.len() >= 4 + End::size_spec(v))
		&&& (ec == 0x39 ==> game_end_spec(ep) is Some)
	}
}
// --- effect of one character event on that character's columns
pub open spec fn char_pre_updated(a: &Data, b: &Data, p: Seq<u8>, v: Version) -> bool {
	&&& Pre::pushed_row(a.pre, b.pre, skip(p, 6), 0, v) /*[C03.pre_header_6_bytes]*/
	&&& b.post == a.post
	&&& (a.validity is Some ==> b.validity is Some && b.validity->Some_0@ == a.validity->Some_0@.push(true)) /*[C04.present_bit]*/
	&&& (a.validity is None ==> b.validity is None)
}
pub open spec fn char_post_updated(a: &Data, b: &Data, p: Seq<u8>, v: Version) -> bool {
	&&& Post::pushed_row(a.post, b.post, skip(p, 6), 0, v) /*[C03.post_header_6_bytes]*/
	&&& b.pre == a.pre && b.validity == a.validity
}
// exactly the addressed character (slot, leader/follower) changes, by `upd`; every other character and port is untouched
pub open spec fn ports_updated(a: Seq<PortData>, b: Seq<PortData>, slot: int, fol: bool, p: Seq<u8>, v: Version, is_pre: bool) -> bool {
	&&& b.len() == a.len()
	&&& forall|k: int| 0 <= k < a.len() && k != slot ==> #[trigger] b[k] == a[k] /*[C04.other_ports_untouched]*/
	&&& b[slot].port == a[slot].port
	&&& (fol ==> b[slot].leader == a[slot].leader && b[slot].follower is Some
			&& (if is_pre { char_pre_updated(&a[slot].follower->Some_0, &b[slot].follower->Some_0, p, v) } else { char_post_updated(&a[slot].follower->Some_0, &b[slot].follower->Some_0, p, v) }))
	&&& (!fol ==> b[slot].follower == a[slot].follower
			&& (if is_pre { char_pre_updated(&a[slot].leader, &b[slot].leader, p, v) } else { char_post_updated(&a[slot].leader, &b[slot].leader, p, v) }))
}
pub open spec fn padded_then_updated(a: Seq<PortData>, mid: Seq<PortData>, b: Seq<PortData>, n: nat, slot: int, folb: u8, p: Seq<u8>, v: Version) -> bool {
	&&& mid.len() == a.len()
	&&& forall|k: int| 0 <= k < a.len() ==> port_padded(#[trigger] &a[k], &mid[k], n)
	&&& ports_updated(mid, b, slot, folb != 0, p, v, true)
}
pub open spec fn non_frame_same(a: &ParseState, b: &ParseState) -> bool {
	&&& b.payload_sizes == a.payload_sizes && b.port_indexes == a.port_indexes
	&&& b.game.start == a.game.start && b.game.metadata == a.game.metadata && b.game.hash == a.game.hash && b.game.quirks == a.game.quirks
}
// the whole effect of one successfully parsed event with effective code ec and payload ep
pub open spec fn event_effect(a: &ParseState, b: &ParseState, code0: u8, p: Seq<u8>) -> bool {
	let v = ver(a);
	let ec = eff_code(a, code0, p);
	let ep = eff_payload(a, code0, p);
	let fa = &a.game.frames;
	let fb = &b.game.frames;
	&&& non_frame_same(a, b)
	// splitter accumulator
	&&& (code0 != 0x10 ==> b.split_accumulator == a.split_accumulator)
	&&& (code0 == 0x10 ==> b.split_accumulator.actual_size == a.split_accumulator.actual_size + be_u16(p, 512)
			&& b.split_accumulator.raw@ == (if p[515] != 0 { Seq::<u8>::empty() } else { a.split_accumulator.raw@ + p.subrange(0, 512) }))
	// game end / gecko codes
	&&& (ec != 0x39 ==> b.game.end == a.game.end)
	&&& (ec == 0x39 ==> game_end_spec(ep) is Some && b.game.end == Some(game_end_spec(ep)->Some_0))
	&&& (ec != 0x3D ==> b.game.gecko_codes == a.game.gecko_codes)
	&&& (ec == 0x3D ==> b.game.gecko_codes is Some && b.game.gecko_codes->Some_0.bytes@ == ep && b.game.gecko_codes->Some_0.actual_size == b.split_accumulator.actual_size)
	// codes that are not frame events (unknown codes, splitter blocks, gecko, game end) leave every frame column untouched
	&&& (ec != 0x3A && ec != 0x37 && ec != 0x38 && ec != 0x3B && ec != 0x3C ==> *fb == *fa) /*[C08.unknown_events_touch_nothing]*/
	// Frame Pre
	&&& (ec == 0x37 ==> {
			let id = be_i32(ep, 0);
			&&& fb.id@ == (if v.ge(2, 2) || last_id_spec(a) == Some(id) { fa.id@ } else { fa.id@.push(Some(id)) }) /*[C04.pre_opens_row_before_2_2]*/
			&&& (v.ge(2, 2) || last_id_spec(a) == Some(id) ==> ports_updated(fa.ports@, fb.ports@, slot_of(a, ep[4]), ep[5] != 0, ep, v, true)) /*[C04.pre_row_in_addressed_slot]*/
			// before 2.2 the event that opens the next frame first pads the characters that were absent from the previous one
			&&& (!(v.ge(2, 2) || last_id_spec(a) == Some(id)) ==> exists|mid: Seq<PortData>| #[trigger] padded_then_updated(fa.ports@, mid, fb.ports@, fa.id@.len(), slot_of(a, ep[4]), ep[5], ep, v)) /*[C04.pre_2_2_closes_previous_frame]*/
			&&& fb.start == fa.start && fb.end == fa.end && fb.item == fa.item && fb.item_offset == fa.item_offset
		})
	// Frame Post
	&&& (ec == 0x38 ==> {
			&&& fb.id == fa.id
			&&& ports_updated(fa.ports@, fb.ports@, slot_of(a, ep[4]), ep[5] != 0, ep, v, false) /*[C04.post_row_in_addressed_slot]*/
			&&& fb.start == fa.start && fb.end == fa.end && fb.item == fa.item && fb.item_offset == fa.item_offset
		})
	// Item
	&&& (ec == 0x3B ==> {
			&&& fb.id == fa.id && fb.ports == fa.ports && fb.start == fa.start && fb.end == fa.end && fb.item_offset == fa.item_offset
			&&& fb.item is Some && Item::pushed_row(fa.item->Some_0, fb.item->Some_0, skip(ep, 4), 0, v) /*[C04.item_appended]*/
		})
	// Frame Start
	&&& (ec == 0x3A ==> {
			&&& fb.id@ == fa.id@.push(Some(be_i32(ep, 0))) /*[C04.start_opens_row]*/
			&&& fb.start is Some && Start::pushed_row(fa.start->Some_0, fb.start->Some_0, skip(ep, 4), 0, v) /*[C03.start_header_4_bytes]*/
			&&& fb.end == fa.end && fb.item == fa.item && fb.item_offset == fa.item_offset
			&&& fb.ports@.len() == fa.ports@.len()
			&&& (v.ge(3, 0) ==> fb.ports == fa.ports)
			&&& (!v.ge(3, 0) ==> forall|k: int| 0 <= k < fa.ports@.len() ==> port_padded(#[trigger] &fa.ports@[k], &fb.ports@[k], fa.id@.len())) /*[C04.closed_by_next_start]*/
		})
	// Frame End
	&&& (ec == 0x3C ==> {
			&&& fb.id == fa.id && fb.start == fa.start && fb.item == fa.item
			&&& fb.end is Some && End::pushed_row(fa.end->Some_0, fb.end->Some_0, skip(ep, 4), 0, v) /*[C03.end_header_4_bytes]*/
			&&& fb.item_offset is Some && fb.item_offset->Some_0@ == fa.item_offset->Some_0@.push(fa.item->Some_0.len_spec() as i32) /*[C04.item_offsets_delimit_frame]*/
			&&& fb.ports@.len() == fa.ports@.len()
			&&& forall|k: int| 0 <= k < fa.ports@.len() ==> port_padded(#[trigger] &fa.ports@[k], &fb.ports@[k], fa.id@.len()) /*[C04.closed_by_frame_end]*/
		})
}

// parse_event is checked once per class of the next event code (the same body and the same postcondition each time;
// the classes are exhaustive), which keeps each solver query small
//@fn src/io/slippi/de.rs | - | parse_event | ret=res | twin=__pre | drop=if let Some\(ref d\) = opts | drop=\*state\.event_counts\.entry | sigsub=/mut r: R,/r: &mut R,/ | sub=/r.read_exact(&mut buf)?/r.read_exact(buf.as_mut_slice())?/ | sub=/bytes: buf.to_vec(),/bytes: to_vec_u8(&buf),/
	requires within_input_bound(&*old(state)), state_swf(&*old(state)), (*old(r)).inv(),
		next_event_ok(&*old(state), (*old(r)).rest()), !(*old(r)).hit_eof(), rows_aligned(&*old(state)),
		(*old(r)).rest().len() >= 1 ==> (*old(r)).rest()[0] == 0x37,
	ensures
		(*final(r)).inv(), (*final(r)).stable() == (*old(r)).stable(),
		res is Ok ==> consumed_one_event(&*old(state), &*old(r), &*final(r)) /*[C12.exactly_one_event_consumed]*/,
		res is Ok ==> res->Ok_0 == eff_code(&*old(state), (*old(r)).rest()[0], (*old(r)).rest().subrange(1, 1 + payload_size(&*old(state), (*old(r)).rest()[0]))) /*[C12.returns_dispatched_code]*/,
		res is Ok ==> (*final(state)).bytes_read == (*old(state)).bytes_read + 1 + payload_size(&*old(state), (*old(r)).rest()[0]) /*[C12.bytes_read_accounting]*/,
		res is Ok ==> state_swf(&*final(state)) /*[C04.state_stays_well_formed]*/,
		res is Ok ==> rows_aligned(&*final(state)) /*[C04.rows_stay_aligned_with_frames]*/,
		res is Ok ==> event_effect(&*old(state), &*final(state), (*old(r)).rest()[0], (*old(r)).rest().subrange(1, 1 + payload_size(&*old(state), (*old(r)).rest()[0]))) /*[C04.event_effect]*/,
		(*final(r)).hit_eof() ==> res is Err /*[C07.eof_is_an_error]*/,
		event_long_enough(&*old(state), (*old(r)).rest()) ==> res is Ok /*[C08.sized_event_accepted]*/,
//@before let mut code
	let ghost mut mid: Seq<PortData> = Seq::empty();
//@after frame_close#2
						proof { mid = state.game.frames.ports@; }
//@before state.bytes_read +=
	proof {
		let a0 = &*old(state);
		let rest0 = (*old(r)).rest();
		let ep = rest0.subrange(1, 1 + payload_size(a0, rest0[0]));
		if !(ver(a0).ge(2, 2) || last_id_spec(a0) == Some(be_i32(ep, 0))) {
			assert(padded_then_updated(a0.game.frames.ports@, mid, state.game.frames.ports@, a0.game.frames.id@.len(), slot_of(a0, ep[4]), ep[5], ep, ver(a0)));
		}
	}
//@end
//@fn src/io/slippi/de.rs | - | parse_event | ret=res | twin=__post | drop=if let Some\(ref d\) = opts | drop=\*state\.event_counts\.entry | sigsub=/mut r: R,/r: &mut R,/ | sub=/r.read_exact(&mut buf)?/r.read_exact(buf.as_mut_slice())?/ | sub=/bytes: buf.to_vec(),/bytes: to_vec_u8(&buf),/
	requires within_input_bound(&*old(state)), state_swf(&*old(state)), (*old(r)).inv(),
		next_event_ok(&*old(state), (*old(r)).rest()), !(*old(r)).hit_eof(), rows_aligned(&*old(state)),
		(*old(r)).rest().len() >= 1 ==> (*old(r)).rest()[0] == 0x38,
	ensures
		(*final(r)).inv(), (*final(r)).stable() == (*old(r)).stable(),
		res is Ok ==> consumed_one_event(&*old(state), &*old(r), &*final(r)) /*[C12.exactly_one_event_consumed]*/,
		res is Ok ==> res->Ok_0 == eff_code(&*old(state), (*old(r)).rest()[0], (*old(r)).rest().subrange(1, 1 + payload_size(&*old(state), (*old(r)).rest()[0]))) /*[C12.returns_dispatched_code]*/,
		res is Ok ==> (*final(state)).bytes_read == (*old(state)).bytes_read + 1 + payload_size(&*old(state), (*old(r)).rest()[0]) /*[C12.bytes_read_accounting]*/,
		res is Ok ==> state_swf(&*final(state)) /*[C04.state_stays_well_formed]*/,
		res is Ok ==> rows_aligned(&*final(state)) /*[C04.rows_stay_aligned_with_frames]*/,
		res is Ok ==> event_effect(&*old(state), &*final(state), (*old(r)).rest()[0], (*old(r)).rest().subrange(1, 1 + payload_size(&*old(state), (*old(r)).rest()[0]))) /*[C04.event_effect]*/,
		(*final(r)).hit_eof() ==> res is Err /*[C07.eof_is_an_error]*/,
		event_long_enough(&*old(state), (*old(r)).rest()) ==> res is Ok /*[C08.sized_event_accepted]*/,
//@end
//@fn src/io/slippi/de.rs | - | parse_event | ret=res | twin=__start | drop=if let Some\(ref d\) = opts | drop=\*state\.event_counts\.entry | sigsub=/mut r: R,/r: &mut R,/ | sub=/r.read_exact(&mut buf)?/r.read_exact(buf.as_mut_slice())?/ | sub=/bytes: buf.to_vec(),/bytes: to_vec_u8(&buf),/
	requires within_input_bound(&*old(state)), state_swf(&*old(state)), (*old(r)).inv(),
		next_event_ok(&*old(state), (*old(r)).rest()), !(*old(r)).hit_eof(), rows_aligned(&*old(state)),
		(*old(r)).rest().len() >= 1 ==> (*old(r)).rest()[0] == 0x3A,
	ensures
		(*final(r)).inv(), (*final(r)).stable() == (*old(r)).stable(),
		res is Ok ==> consumed_one_event(&*old(state), &*old(r), &*final(r)) /*[C12.exactly_one_event_consumed]*/,
		res is Ok ==> res->Ok_0 == eff_code(&*old(state), (*old(r)).rest()[0], (*old(r)).rest().subrange(1, 1 + payload_size(&*old(state), (*old(r)).rest()[0]))) /*[C12.returns_dispatched_code]*/,
		res is Ok ==> (*final(state)).bytes_read == (*old(state)).bytes_read + 1 + payload_size(&*old(state), (*old(r)).rest()[0]) /*[C12.bytes_read_accounting]*/,
		res is Ok ==> state_swf(&*final(state)) /*[C04.state_stays_well_formed]*/,
		res is Ok ==> rows_aligned(&*final(state)) /*[C04.rows_stay_aligned_with_frames]*/,
		res is Ok ==> event_effect(&*old(state), &*final(state), (*old(r)).rest()[0], (*old(r)).rest().subrange(1, 1 + payload_size(&*old(state), (*old(r)).rest()[0]))) /*[C04.event_effect]*/,
		(*final(r)).hit_eof() ==> res is Err /*[C07.eof_is_an_error]*/,
		event_long_enough(&*old(state), (*old(r)).rest()) ==> res is Ok /*[C08.sized_event_accepted]*/,
//@end
//@fn src/io/slippi/de.rs | - | parse_event | ret=res | twin=__item | drop=if let Some\(ref d\) = opts | drop=\*state\.event_counts\.entry | sigsub=/mut r: R,/r: &mut R,/ | sub=/r.read_exact(&mut buf)?/r.read_exact(buf.as_mut_slice())?/ | sub=/bytes: buf.to_vec(),/bytes: to_vec_u8(&buf),/
	requires within_input_bound(&*old(state)), state_swf(&*old(state)), (*old(r)).inv(),
		next_event_ok(&*old(state), (*old(r)).rest()), !(*old(r)).hit_eof(), rows_aligned(&*old(state)),
		(*old(r)).rest().len() >= 1 ==> (*old(r)).rest()[0] == 0x3B,
	ensures
		(*final(r)).inv(), (*final(r)).stable() == (*old(r)).stable(),
		res is Ok ==> consumed_one_event(&*old(state), &*old(r), &*final(r)) /*[C12.exactly_one_event_consumed]*/,
		res is Ok ==> res->Ok_0 == eff_code(&*old(state), (*old(r)).rest()[0], (*old(r)).rest().subrange(1, 1 + payload_size(&*old(state), (*old(r)).rest()[0]))) /*[C12.returns_dispatched_code]*/,
		res is Ok ==> (*final(state)).bytes_read == (*old(state)).bytes_read + 1 + payload_size(&*old(state), (*old(r)).rest()[0]) /*[C12.bytes_read_accounting]*/,
		res is Ok ==> state_swf(&*final(state)) /*[C04.state_stays_well_formed]*/,
		res is Ok ==> rows_aligned(&*final(state)) /*[C04.rows_stay_aligned_with_frames]*/,
		res is Ok ==> event_effect(&*old(state), &*final(state), (*old(r)).rest()[0], (*old(r)).rest().subrange(1, 1 + payload_size(&*old(state), (*old(r)).rest()[0]))) /*[C04.event_effect]*/,
		(*final(r)).hit_eof() ==> res is Err /*[C07.eof_is_an_error]*/,
		event_long_enough(&*old(state), (*old(r)).rest()) ==> res is Ok /*[C08.sized_event_accepted]*/,
//@end
//@fn src/io/slippi/de.rs | - | parse_event | ret=res | twin=__end | drop=if let Some\(ref d\) = opts | drop=\*state\.event_counts\.entry | sigsub=/mut r: R,/r: &mut R,/ | sub=/r.read_exact(&mut buf)?/r.read_exact(buf.as_mut_slice())?/ | sub=/bytes: buf.to_vec(),/bytes: to_vec_u8(&buf),/
	requires within_input_bound(&*old(state)), state_swf(&*old(state)), (*old(r)).inv(),
		next_event_ok(&*old(state), (*old(r)).rest()), !(*old(r)).hit_eof(), rows_aligned(&*old(state)),
		(*old(r)).rest().len() >= 1 ==> (*old(r)).rest()[0] == 0x3C,
	ensures
		(*final(r)).inv(), (*final(r)).stable() == (*old(r)).stable(),
		res is Ok ==> consumed_one_event(&*old(state), &*old(r), &*final(r)) /*[C12.exactly_one_event_consumed]*/,
		res is Ok ==> res->Ok_0 == eff_code(&*old(state), (*old(r)).rest()[0], (*old(r)).rest().subrange(1, 1 + payload_size(&*old(state), (*old(r)).rest()[0]))) /*[C12.returns_dispatched_code]*/,
		res is Ok ==> (*final(state)).bytes_read == (*old(state)).bytes_read + 1 + payload_size(&*old(state), (*old(r)).rest()[0]) /*[C12.bytes_read_accounting]*/,
		res is Ok ==> state_swf(&*final(state)) /*[C04.state_stays_well_formed]*/,
		res is Ok ==> rows_aligned(&*final(state)) /*[C04.rows_stay_aligned_with_frames]*/,
		res is Ok ==> event_effect(&*old(state), &*final(state), (*old(r)).rest()[0], (*old(r)).rest().subrange(1, 1 + payload_size(&*old(state), (*old(r)).rest()[0]))) /*[C04.event_effect]*/,
		(*final(r)).hit_eof() ==> res is Err /*[C07.eof_is_an_error]*/,
		event_long_enough(&*old(state), (*old(r)).rest()) ==> res is Ok /*[C08.sized_event_accepted]*/,
//@end
//@fn src/io/slippi/de.rs | - | parse_event | ret=res | twin=__splitter | drop=if let Some\(ref d\) = opts | drop=\*state\.event_counts\.entry | sigsub=/mut r: R,/r: &mut R,/ | sub=/r.read_exact(&mut buf)?/r.read_exact(buf.as_mut_slice())?/ | sub=/bytes: buf.to_vec(),/bytes: to_vec_u8(&buf),/
	requires within_input_bound(&*old(state)), state_swf(&*old(state)), (*old(r)).inv(),
		next_event_ok(&*old(state), (*old(r)).rest()), !(*old(r)).hit_eof(), rows_aligned(&*old(state)),
		(*old(r)).rest().len() >= 1 ==> (*old(r)).rest()[0] == 0x10,
	ensures
		(*final(r)).inv(), (*final(r)).stable() == (*old(r)).stable(),
		res is Ok ==> consumed_one_event(&*old(state), &*old(r), &*final(r)) /*[C12.exactly_one_event_consumed]*/,
		res is Ok ==> res->Ok_0 == eff_code(&*old(state), (*old(r)).rest()[0], (*old(r)).rest().subrange(1, 1 + payload_size(&*old(state), (*old(r)).rest()[0]))) /*[C12.returns_dispatched_code]*/,
		res is Ok ==> (*final(state)).bytes_read == (*old(state)).bytes_read + 1 + payload_size(&*old(state), (*old(r)).rest()[0]) /*[C12.bytes_read_accounting]*/,
		res is Ok ==> state_swf(&*final(state)) /*[C04.state_stays_well_formed]*/,
		res is Ok ==> rows_aligned(&*final(state)) /*[C04.rows_stay_aligned_with_frames]*/,
		res is Ok ==> event_effect(&*old(state), &*final(state), (*old(r)).rest()[0], (*old(r)).rest().subrange(1, 1 + payload_size(&*old(state), (*old(r)).rest()[0]))) /*[C04.event_effect]*/,
		(*final(r)).hit_eof() ==> res is Err /*[C07.eof_is_an_error]*/,
		event_long_enough(&*old(state), (*old(r)).rest()) ==> res is Ok /*[C08.sized_event_accepted]*/,
//@end
//@fn src/io/slippi/de.rs | - | parse_event | ret=res | twin=__other | drop=if let Some\(ref d\) = opts | drop=\*state\.event_counts\.entry | sigsub=/mut r: R,/r: &mut R,/ | sub=/r.read_exact(&mut buf)?/r.read_exact(buf.as_mut_slice())?/ | sub=/bytes: buf.to_vec(),/bytes: to_vec_u8(&buf),/
	requires within_input_bound(&*old(state)), state_swf(&*old(state)), (*old(r)).inv(),
		next_event_ok(&*old(state), (*old(r)).rest()), !(*old(r)).hit_eof(), rows_aligned(&*old(state)),
		(*old(r)).rest().len() >= 1 ==> (*old(r)).rest()[0] != 0x37 && (*old(r)).rest()[0] != 0x38 && (*old(r)).rest()[0] != 0x3A && (*old(r)).rest()[0] != 0x3B && (*old(r)).rest()[0] != 0x3C && (*old(r)).rest()[0] != 0x10,
	ensures
		(*final(r)).inv(), (*final(r)).stable() == (*old(r)).stable(),
		res is Ok ==> consumed_one_event(&*old(state), &*old(r), &*final(r)) /*[C12.exactly_one_event_consumed]*/,
		res is Ok ==> res->Ok_0 == eff_code(&*old(state), (*old(r)).rest()[0], (*old(r)).rest().subrange(1, 1 + payload_size(&*old(state), (*old(r)).rest()[0]))) /*[C12.returns_dispatched_code]*/,
		res is Ok ==> (*final(state)).bytes_read == (*old(state)).bytes_read + 1 + payload_size(&*old(state), (*old(r)).rest()[0]) /*[C12.bytes_read_accounting]*/,
		res is Ok ==> state_swf(&*final(state)) /*[C04.state_stays_well_formed]*/,
		res is Ok ==> rows_aligned(&*final(state)) /*[C04.rows_stay_aligned_with_frames]*/,
		res is Ok ==> event_effect(&*old(state), &*final(state), (*old(r)).rest()[0], (*old(r)).rest().subrange(1, 1 + payload_size(&*old(state), (*old(r)).rest()[0]))) /*[C04.event_effect]*/,
		(*final(r)).hit_eof() ==> res is Err /*[C07.eof_is_an_error]*/,
		event_long_enough(&*old(state), (*old(r)).rest()) ==> res is Ok /*[C08.sized_event_accepted]*/,
//@end

// ---- C06: the same bodies with NO premise on the bytes: every assert / unwrap / index / arithmetic site must be safe ----
//@fn src/io/slippi/de.rs | - | handle_splitter_event | ret=res | twin=__total
	requires (*old(accumulator)).actual_size <= 0x7fff_ffff,
	ensures res is Ok ==> (*final(accumulator)).actual_size <= (*old(accumulator)).actual_size + 512 && buf@.len() == 516,
		res is Err ==> (*final(accumulator)).actual_size == (*old(accumulator)).actual_size,
//@end
//@fn src/io/slippi/de.rs | - | parse_event | ret=res | twin=__total | drop=if let Some\(ref d\) = opts | drop=\*state\.event_counts\.entry | sigsub=/mut r: R,/r: &mut R,/ | sub=/r.read_exact(&mut buf)?/r.read_exact(buf.as_mut_slice())?/ | sub=/bytes: buf.to_vec(),/bytes: to_vec_u8(&buf),/ | sub=/handle_splitter_event(/handle_splitter_event__total(/ | sub=/state.frame_close();/state.frame_close__total();/
	requires within_input_bound(&*old(state)), state_swf(&*old(state)), (*old(r)).inv(), !(*old(r)).hit_eof(),
	ensures (*final(r)).inv(), (*final(r)).stable() == (*old(r)).stable(),
		res is Ok ==> state_swf(&*final(state)) /*[C06.state_stays_well_formed]*/,
		res is Ok ==> consumed_one_event(&*old(state), &*old(r), &*final(r)) /*[C12.exactly_one_event_consumed]*/,
		res is Ok ==> (*final(state)).bytes_read == (*old(state)).bytes_read + 1 + payload_size(&*old(state), (*old(r)).rest()[0]) /*[C12.bytes_read_accounting]*/,
		res is Ok ==> non_frame_same(&*old(state), &*final(state)) /*[C12.event_touches_no_header_data]*/,
		res is Ok ==> (*final(state)).game.frames.id@.len() <= (*old(state)).game.frames.id@.len() + 1 /*[C12.at_most_one_row_per_event]*/,
		res is Ok ==> (*final(state)).game.frames.id@.len() >= (*old(state)).game.frames.id@.len() /*[C12.frame_count_never_decreases]*/,
		res is Ok ==> (*final(state)).split_accumulator.actual_size <= (*old(state)).split_accumulator.actual_size + 1 + payload_size(&*old(state), (*old(r)).rest()[0]) /*[C06.accumulator_bounded_by_input]*/,
		(*final(r)).hit_eof() ==> res is Err /*[C07.eof_is_an_error]*/,
//@end
'''


def template(repo, for_reader=False):
    L = gen_codec.build_layouts(repo, REL_MUT, 'MutablePrimitiveArray', 'MutableBitmap')
    out = [HEADER]
    out.append(PART_0)
    out.append('pub mod transpose {\nuse super::*;')
    for s in gen_codec.ORDER + ['Data', 'PortData', 'Frame']:
        out.append('//@struct src/frame/transpose.rs %s' % s)
    out.append('}')
    out.append('pub mod mutable {\nuse vstd::prelude::*;\nuse super::*;\ntype Result<T> = std::result::Result<T, IoError>;')
    for s in gen_codec.ORDER:
        out.append('//@struct %s %s' % (REL_MUT, s))
        out.append(gen_codec.mutable_specs(L, s, opaque=True))
        out.append(gen_codec.mutable_fn_contracts(L, s, REL_MUT, stub=True))
        out.append(gen_codec.mutable_null_lemmas(L, s))
    out.append(PART_A)
    out.append('} // mod mutable\npub use mutable::*;')
    out.append(PART_B)
    text = '\n'.join(out)
    if for_reader:
        text = as_stubs(text)
        return text
    return text + '\n} // verus!\nfn main() {}'


def as_stubs(text):
    """The event unit's functions as contract-only stubs for units that call them (reader): the functional
    per-class parse_event twins are dropped, the `__total` contracts become the contracts of the plain names
    (that is what a caller may rely on for arbitrary bytes), every other function keeps its contract."""
    import re
    blocks = re.split(r'(?m)^(?=//@fn )', text)
    res = []
    for b in blocks:
        if not b.startswith('//@fn '):
            res.append(b)
            continue
        head, rest = b.split('\n', 1)
        end = rest.index('//@end') + len('//@end')
        body, tail = rest[:end], rest[end:]
        name = [x.strip() for x in head[len('//@fn '):].split(' | ')][2]
        tw = re.search(r'twin=(\w+)', head)
        if name == 'parse_event' and tw and tw.group(1) != '__total':
            res.append(tail)
            continue
        if name == 'frame_close' and not tw:
            res.append(tail)
            continue
        if name in ('handle_splitter_event', 'port_index'):
            res.append(tail)
            continue
        if tw and tw.group(1) == '__total':
            head = head.replace(' | twin=__total', '')
            if name == 'frame_close':
                # what a caller may rely on = the total contract AND, when the functional premise holds, the functional result
                # (both are verified on the same body in the event unit: frame_close and frame_close__total)
                body = body.replace('ensures state_swf(&*final(self)) /*[C06.frame_close_total]*/,',
                                    'ensures state_swf(&*final(self)) /*[C06.frame_close_total]*/,\n\t\tall_closable(&*old(self)) ==> rows_level(&*final(self)),', 1)
        if ' | stub' not in head:
            head += ' | stub'
        # keep only the contract part of the body (sections are ignored for stubs anyway)
        res.append(head + '\n' + body + tail)
    return ''.join(res)
