"""Unit codec_imm: immutable::S::{write, size, transpose_one} and From<mutable::S> for the 11 codec
structs (src/frame/immutable/{mod,slippi}.rs) against the independent layout table."""
from vp import gen_codec

REL_MUT = 'src/frame/mutable.rs'
REL = 'src/frame/immutable/mod.rs'
REL_S = 'src/frame/immutable/slippi.rs'
TREL = 'src/frame/transpose.rs'

HEADER = '''use vstd::prelude::*;
use std::mem::size_of;
verus! {
//@use core.rs
//@use arrow_imm.rs
//@use arrow_conv.rs
//@use error.rs
//@use offsets.rs
//@use vec_iter.rs
//@use write.rs
//@use version.rs
type Result<T> = std::result::Result<T, IoError>;
broadcast use PrimitiveArray::axiom_values_spec;
'''


# the hand-written conversions of the per-character and per-port containers (the finished game's columns ARE the parsed columns)
HAND_FROM = '''
//@struct src/frame/immutable/mod.rs Data
//@struct src/frame/immutable/mod.rs PortData
impl From<mutable::Data> for Data {
//@fn src/frame/immutable/mod.rs | impl From<mutable::Data> for Data | from | ret=res | stub
//@end
}
//@fn src/frame/immutable/mod.rs | impl From<mutable::Data> for Data | from | ret=res | free=Data | twin=__Data
	ensures res == <Data as vstd::std_specs::convert::FromSpec<mutable::Data>>::from_spec(d) /*[C12.finished_columns_are_the_parsed_columns.Data]*/,
//@end
impl vstd::std_specs::convert::FromSpecImpl<mutable::Data> for Data {
	open spec fn obeys_from_spec() -> bool { true }
	open spec fn from_spec(m: mutable::Data) -> Data {
		Data {
			pre: <Pre as vstd::std_specs::convert::FromSpec<mutable::Pre>>::from_spec(m.pre),
			post: <Post as vstd::std_specs::convert::FromSpec<mutable::Post>>::from_spec(m.post),
			validity: match m.validity { Some(c) => Some(<Bitmap as vstd::std_specs::convert::FromSpec<MutableBitmap>>::from_spec(c)), None => None },
		}
	}
}
impl From<mutable::PortData> for PortData {
//@fn src/frame/immutable/mod.rs | impl From<mutable::PortData> for PortData | from | ret=res | stub
//@end
}
//@fn src/frame/immutable/mod.rs | impl From<mutable::PortData> for PortData | from | ret=res | free=PortData | twin=__PortData
	ensures res == <PortData as vstd::std_specs::convert::FromSpec<mutable::PortData>>::from_spec(p) /*[C12.finished_columns_are_the_parsed_columns.PortData]*/,
//@end
impl vstd::std_specs::convert::FromSpecImpl<mutable::PortData> for PortData {
	open spec fn obeys_from_spec() -> bool { true }
	open spec fn from_spec(m: mutable::PortData) -> PortData {
		PortData {
			port: m.port,
			leader: <Data as vstd::std_specs::convert::FromSpec<mutable::Data>>::from_spec(m.leader),
			follower: match m.follower { Some(c) => Some(<Data as vstd::std_specs::convert::FromSpec<mutable::Data>>::from_spec(c)), None => None },
		}
	}
}

// arrow2::offset::OffsetsBuffer<i32>: view = the offsets. The conversion `OffsetsBuffer::try_from(Buffer::from(x.into_inner())).unwrap()`
// keeps them; try_from only rejects non-monotone offsets, which Offsets<i32> (monotone by construction) never holds (assumed, arrow2)
pub struct OffsetsBuffer<T> { pub v: Vec<T> }
impl OffsetsBuffer<i32> { pub open spec fn view(&self) -> Seq<i32> { self.v@ } }
#[verifier::external_body]
pub fn offsets_into_buffer(x: Offsets<i32>) -> (r: OffsetsBuffer<i32>) ensures r@ == x@ { unimplemented!() }
//@struct src/frame/immutable/mod.rs Frame
pub open spec fn ports_converted(a: Seq<mutable::PortData>, b: Seq<PortData>, n: int) -> bool {
	forall|k: int| 0 <= k < n ==> #[trigger] b[k] == <PortData as vstd::std_specs::convert::FromSpec<mutable::PortData>>::from_spec(a[k])
}
//@fn src/frame/immutable/mod.rs | impl From<mutable::Frame> for Frame | from | ret=res | free=Frame | twin=__Frame | rules=R9y,R15,R18,R19,R19p,R3c,R9,R6c,R9b,R1,R2,R3,R3b,R6,R6b,R6bp,R4 | sub=/OffsetsBuffer::try_from(Buffer::from(x.into_inner())).unwrap()/offsets_into_buffer(x)/
	ensures
		res.id == <PrimitiveArray<i32> as vstd::std_specs::convert::FromSpec<MutablePrimitiveArray<i32>>>::from_spec(f.id) /*[C12.finished_columns_are_the_parsed_columns.id]*/,
		res.ports@.len() == f.ports@.len() && ports_converted(f.ports@, res.ports@, f.ports@.len() as int) /*[C12.finished_columns_are_the_parsed_columns.ports]*/,
		res.start == (match f.start { Some(c) => Some(<Start as vstd::std_specs::convert::FromSpec<mutable::Start>>::from_spec(c)), None => None }) /*[C12.finished_columns_are_the_parsed_columns.start]*/,
		res.end == (match f.end { Some(c) => Some(<End as vstd::std_specs::convert::FromSpec<mutable::End>>::from_spec(c)), None => None }) /*[C12.finished_columns_are_the_parsed_columns.end]*/,
		res.item == (match f.item { Some(c) => Some(<Item as vstd::std_specs::convert::FromSpec<mutable::Item>>::from_spec(c)), None => None }) /*[C12.finished_columns_are_the_parsed_columns.item]*/,
		(res.item_offset is Some) == (f.item_offset is Some) && (f.item_offset is Some ==> res.item_offset->Some_0@ == f.item_offset->Some_0@) /*[C12.finished_columns_are_the_parsed_columns.item_offset]*/,
//@before Frame {
	let ghost ports0 = f.ports@;
//@loop 1
		invariant out__@.len() + it__.rem@.len() == ports0.len(), it__.rem@ == ports0.subrange(out__@.len() as int, ports0.len() as int),
			ports_converted(ports0, out__@, out__@.len() as int), !more__ ==> it__.rem@.len() == 0,
		decreases it__.rem@.len() + (if more__ { 1int } else { 0int }),
//@end
'''


def template(repo):
    LM = gen_codec.build_layouts(repo, REL_MUT, 'MutablePrimitiveArray', 'MutableBitmap')
    L = gen_codec.build_layouts(repo, REL, 'PrimitiveArray', 'Bitmap')
    out = [HEADER]
    out.append('pub mod transpose {\nuse super::*;')
    for s in gen_codec.ORDER:
        out.append('//@struct %s %s' % (TREL, s))
    out.append('}')
    out.append('pub mod game {\nuse super::*;\n//@enum src/game/mod.rs Port\n}\nuse game::Port;')
    out.append('pub mod mutable {\nuse super::*;')
    for s in gen_codec.ORDER + ['Data', 'PortData', 'Frame']:
        out.append('//@struct %s %s' % (REL_MUT, s))
    out.append('}')
    for s in gen_codec.ORDER:
        out.append('//@struct %s %s' % (REL, s))
        out.append(gen_codec.immutable_specs(L, s))
        out.append(gen_codec.immutable_fn_contracts(L, s, REL, REL_S))
        out.append(gen_codec.immutable_roundtrip_lemmas(L, s))
    out.append(HAND_FROM)
    out.append('} // verus!\nfn main() {}')
    return '\n'.join(out)
