"""Unit codec_imm: immutable::S::{write, size, transpose_one} and From<mutable::S> for the 11 codec
structs (src/frame/immutable/{mod,slippi}.rs) against the independent layout table."""
from vp import gen_codec

REL_MUT = 'src/frame/mutable.rs'
REL = 'src/frame/immutable/mod.rs'
REL_S = 'src/frame/immutable/slippi.rs'
TREL = 'src/frame/transpose.rs'

HEADER = '''use vstd::prelude::*;
use std::mem::size_of;
verus! {
//@use core.rs
//@use arrow_imm.rs
//@use arrow_conv.rs
//@use write.rs
//@use version.rs
type Result<T> = std::result::Result<T, IoError>;
broadcast use PrimitiveArray::axiom_values_spec;
'''


def template(repo):
    LM = gen_codec.build_layouts(repo, REL_MUT, 'MutablePrimitiveArray', 'MutableBitmap')
    L = gen_codec.build_layouts(repo, REL, 'PrimitiveArray', 'Bitmap')
    out = [HEADER]
    out.append('pub mod transpose {\nuse super::*;')
    for s in gen_codec.ORDER:
        out.append('//@struct %s %s' % (TREL, s))
    out.append('}')
    out.append('pub mod mutable {\nuse super::*;')
    for s in gen_codec.ORDER:
        out.append('//@struct %s %s' % (REL_MUT, s))
    out.append('}')
    for s in gen_codec.ORDER:
        out.append('//@struct %s %s' % (REL, s))
        out.append(gen_codec.immutable_specs(L, s))
        out.append(gen_codec.immutable_fn_contracts(L, s, REL, REL_S))
        out.append(gen_codec.immutable_roundtrip_lemmas(L, s))
    out.append('} // verus!\nfn main() {}')
    return '\n'.join(out)
