"""Unit verstr: Display / FromStr of io::slippi::Version and io::peppi::Version (C20, string half).
str::split, u8::from_str and the integer Display are std: modelled by uninterpreted functions with the
three facts the round trip needs stated as hypotheses of the lemma (not axioms)."""

HEADER = r'''use vstd::prelude::*;
macro_rules! err { ($($t:tt)*) => { mk_err() } }
// only the format string the property talks about is accepted: any other literal does not match (=> UNDECIDED, never a pass)
macro_rules! write { ($f:expr, "{}.{}.{}", $a:expr, $b:expr, $c:expr) => { fmt_u8_dot3($f, $a, $b, $c) } }
verus! {
//@use core.rs
//@use error.rs
type Result<T> = std::result::Result<T, Error>;

// ---- std, modelled
// s.split('.'): the maximal dot-free pieces, in order (at least one piece)
pub uninterp spec fn split_dot(s: Seq<char>) -> Seq<Seq<char>>;
pub struct SplitDot<'a> { pub rem: Ghost<Seq<Seq<char>>>, pub _s: &'a str }
#[verifier::external_body]
pub fn split_char<'a>(s: &'a str, c: char) -> (r: SplitDot<'a>) requires c == '.' ensures r.rem@ == split_dot(s@) { unimplemented!() }
impl<'a> SplitDot<'a> {
	#[verifier::external_body]
	pub fn next(&mut self) -> (r: Option<&'a str>)
		ensures old(self).rem@.len() == 0 ==> r is None && final(self).rem@ == old(self).rem@,
			old(self).rem@.len() > 0 ==> r is Some && r->Some_0@ == old(self).rem@[0] && final(self).rem@ == old(self).rem@.subrange(1, old(self).rem@.len() as int),
	{ unimplemented!() }
}
// <u8 as FromStr>::from_str and <u8 as Display>::fmt
pub uninterp spec fn parse_u8_spec(s: Seq<char>) -> Option<u8>;
pub uninterp spec fn dec(x: u8) -> Seq<char>;
// io::parse_u8 is `s.parse().map_err(..)`: Ok exactly when the text is a u8 (the error text is irrelevant)
#[verifier::external_body]
pub fn parse_u8(s: &str) -> (r: Result<u8>) ensures (r is Ok) == (parse_u8_spec(s@) is Some), r is Ok ==> r->Ok_0 == parse_u8_spec(s@)->Some_0 { unimplemented!() }
pub struct Formatter { pub out: Ghost<Seq<char>> }
pub struct FmtError;
pub mod fmt { pub type Result = std::result::Result<(), super::FmtError>; pub use super::Formatter; }
// write!(f, "{}.{}.{}", a, b, c) with three u8 arguments
#[verifier::external_body]
pub fn fmt_u8_dot3(f: &mut Formatter, a: u8, b: u8, c: u8) -> (r: fmt::Result)
	ensures r is Ok ==> final(f).out@ == old(f).out@ + dot3(a, b, c)
{ unimplemented!() }
pub open spec fn dot3(a: u8, b: u8, c: u8) -> Seq<char> { dec(a) + seq!['.'] + dec(b) + seq!['.'] + dec(c) }
// the three facts about std the round trip rests on (hypotheses; exercised natively over all 2^24 triples by `c20-strings`)
pub open spec fn std_facts() -> bool {
	&&& forall|x: u8| #[trigger] parse_u8_spec(dec(x)) == Some(x)
	&&& forall|a: u8, b: u8, c: u8| #[trigger] split_dot(dot3(a, b, c)) == seq![dec(a), dec(b), dec(c)]
}
pub open spec fn parts_ok(p: Seq<Seq<char>>) -> bool { p.len() == 3 && parse_u8_spec(p[0]) is Some && parse_u8_spec(p[1]) is Some && parse_u8_spec(p[2]) is Some }
'''

ONE = r'''
pub mod %(mod)s {
use vstd::prelude::*;
use super::*;
//@struct %(rel)s Version | eq
//@fn %(rel)s | impl str::FromStr for Version | from_str | ret=res | free=Version | sub=/s.split('.')/split_char(s, '.')/
	ensures (res is Ok) == parts_ok(split_dot(s@)) /*[C20.%(mod)s.accepts_exactly_three_u8_components]*/,
		res is Ok ==> res->Ok_0 == Version(parse_u8_spec(split_dot(s@)[0])->Some_0, parse_u8_spec(split_dot(s@)[1])->Some_0, parse_u8_spec(split_dot(s@)[2])->Some_0) /*[C20.%(mod)s.components_in_order]*/,
//@end
//@fn %(rel)s | impl fmt::Display for Version | fmt | ret=res | free=Version | sigsub=/&self,/self_: &Version,/ | sub=/self./self_./
	ensures res is Ok ==> final(f).out@ == old(f).out@ + dot3(self_.0, self_.1, self_.2) /*[C20.%(mod)s.display_is_major_dot_minor_dot_patch]*/,
//@end
// displaying any version and parsing the text gives the version back
pub proof fn lemma_display_parse_roundtrip(v: Version)
	requires std_facts()
	ensures parts_ok(split_dot(dot3(v.0, v.1, v.2))),
		Version(parse_u8_spec(split_dot(dot3(v.0, v.1, v.2))[0])->Some_0, parse_u8_spec(split_dot(dot3(v.0, v.1, v.2))[1])->Some_0, parse_u8_spec(split_dot(dot3(v.0, v.1, v.2))[2])->Some_0) == v /*[C20.%(mod)s.display_parse_roundtrip]*/
{
	assert(split_dot(dot3(v.0, v.1, v.2)) == seq![dec(v.0), dec(v.1), dec(v.2)]);
	assert(parse_u8_spec(dec(v.0)) == Some(v.0) && parse_u8_spec(dec(v.1)) == Some(v.1) && parse_u8_spec(dec(v.2)) == Some(v.2));
}
}
'''


def template(repo):
    return (HEADER + ONE % dict(mod='slippi', rel='src/io/slippi/mod.rs') + ONE % dict(mod='peppi', rel='src/io/peppi/mod.rs')
            + '} // verus!\nfn main() {}\n')
