"""Unit reader: the one-shot .slp reader and the incremental API around parse_event —
src/io/slippi/de.rs parse_header / parse_payloads / parse_game_start / parse_start / parse_metadata / read,
src/io/mod.rs expect_bytes, src/game/mod.rs port_occupancy.   Serves C06, C07, C10, C11, C12 (and C04 start-up).
Everything the event unit proves is used here through contract-only stubs (units/event.py as_stubs)."""
import re
from units import event, hash as hash_unit

DE = 'src/io/slippi/de.rs'

PART_R = r'''
use game::{GeckoCodes, ICE_CLIMBERS};
// ---------------- stubs of what other units prove ----------------
// game_start (Game Start payload parser): verified in the startend unit; here: it keeps the raw block and reads the version from it
pub uninterp spec fn game_start_spec(b: Seq<u8>) -> Option<game::Start>;
#[verifier::external_body]
pub fn game_start(r: &mut &[u8]) -> (res: Result<game::Start>)
	ensures res is Ok == game_start_spec((*old(r))@) is Some, res is Ok ==> res->Ok_0 == game_start_spec((*old(r))@)->Some_0 && res->Ok_0.bytes.0@ == (*old(r))@,
{ unimplemented!() }
#[verifier::external_body]
pub fn clone_start(s: &game::Start) -> (r: game::Start) ensures r == *s { unimplemented!() }
// `a == b` on byte slices
#[verifier::external_body]
pub fn bytes_eq(a: &[u8], b: &[u8]) -> (r: bool) ensures r == (a@ == b@) { unimplemented!() }
pub mod ubjson {
	use super::*;
	// recursive metadata reader: verified in the ubjson unit (consumes at least the closing brace; EOF is an error)
	#[verifier::external_body]
	pub fn read_map<R: Read>(r: &mut R) -> (res: Result<JsMap>)
		requires (*old(r)).inv(), !(*old(r)).hit_eof(),
		ensures (*final(r)).inv(), (*final(r)).stable() == (*old(r)).stable(), (*final(r)).hit_eof() ==> res is Err,
			res is Ok ==> (*final(r)).consumed().len() > (*old(r)).consumed().len() && (*old(r)).consumed().is_prefix_of((*final(r)).consumed())
				&& (*final(r)).consumed().last() == 0x7du8 && (*final(r)).rest().len() < (*old(r)).rest().len(),
	{ unimplemented!() }
}
// std::io::copy(&mut r.by_ref().take(n), &mut io::sink()): reads (and discards) min(n, remaining) bytes through `read`; never an EOF error
#[verifier::external_body]
pub fn copy_take_to_sink<R: Read>(r: &mut R, n: u64) -> (res: std::result::Result<u64, IoError>)
	requires (*old(r)).inv(),
	ensures (*final(r)).inv(), (*final(r)).stable() == (*old(r)).stable(), (*final(r)).hit_eof() == (*old(r)).hit_eof(),
		res is Ok ==> ({
			let k = if n <= (*old(r)).rest().len() { n as int } else { (*old(r)).rest().len() as int };
			&&& res->Ok_0 == k
			&&& (*final(r)).rest() == skip((*old(r)).rest(), k)
			&&& (*final(r)).consumed() == (*old(r)).consumed() + (*old(r)).rest().subrange(0, k)
		}),
{ unimplemented!() }

//@const src/io/slippi/mod.rs FILE_SIGNATURE

// ---------------- io::HashingReader (contracts proved in the hash unit) ----------------
__HASH_STUBS__

// the finished game: immutable frames are opaque here (conversion verified in codec_imm / From<mutable::Frame>)
#[verifier::external_body]
pub struct ImmFrame { _p: () }
pub uninterp spec fn imm_frames(m: Frame) -> ImmFrame;
impl vstd::std_specs::convert::FromSpecImpl<Frame> for ImmFrame {
	open spec fn obeys_from_spec() -> bool { true }
	open spec fn from_spec(m: Frame) -> ImmFrame { imm_frames(m) }
}
impl From<Frame> for ImmFrame { #[verifier::external_body] fn from(m: Frame) -> (r: ImmFrame) { unimplemented!() } }
pub mod game_items {
	use vstd::prelude::*;
	use super::game::*;
	use super::{PortOccupancy, JsMap, ImmFrame};
//@struct src/game/immutable.rs Game | tysub=/Option<Map<String, Value>>/Option<JsMap>/ | tysub=/pub frames: Frame,/pub frames: ImmFrame,/
// ---------------- src/game/mod.rs ----------------
pub open spec fn occupancy_of(out: Seq<PortOccupancy>, players: Seq<Player>, n: int) -> bool {
	forall|k: int| 0 <= k < n ==> (#[trigger] out[k]).port == players[k].port && out[k].follower == (players[k].character == 14)
}
//@fn src/game/mod.rs | - | port_occupancy | ret=res
	ensures res@.len() == start.players@.len(),
		occupancy_of(res@, start.players@, res@.len() as int) /*[C04.follower_slot_iff_ice_climbers]*/,
//@loop 1
		invariant ic__ <= start.players@.len(), out__@.len() == ic__, occupancy_of(out__@, start.players@, ic__ as int),
		decreases start.players@.len() - ic__,
//@end

}
pub use game_items::{Game, port_occupancy, occupancy_of};
// From<PartialGame> for Game: field-wise move (the trait method is a stub; its body is checked as a free function below)
impl vstd::std_specs::convert::FromSpecImpl<PartialGame> for Game {
	open spec fn obeys_from_spec() -> bool { true }
	open spec fn from_spec(g: PartialGame) -> Game {
		Game { start: g.start, end: g.end, frames: imm_frames(g.frames), metadata: g.metadata, gecko_codes: g.gecko_codes, hash: g.hash, quirks: g.quirks }
	}
}
impl From<PartialGame> for Game {
//@fn src/io/slippi/de.rs | impl From<PartialGame> for Game | from | ret=res | stub
//@end
}
//@fn src/io/slippi/de.rs | impl From<PartialGame> for Game | from | ret=res | free=Game | twin=__partial_game
	ensures res == <Game as vstd::std_specs::convert::FromSpec<PartialGame>>::from_spec(game) /*[C12.finished_game_is_the_state]*/,
//@end

// ---------------- src/io/mod.rs ----------------
//@fn src/io/mod.rs | - | expect_bytes | ret=res | sub=/r.read_exact(&mut actual)?/r.read_exact(actual.as_mut_slice())?/ | sub=/expected == actual.as_slice()/bytes_eq(expected, actual.as_slice())/
	requires (*old(r)).inv(), !(*old(r)).hit_eof(),
	ensures (*final(r)).inv(), (*final(r)).stable() == (*old(r)).stable(), (*final(r)).hit_eof() ==> res is Err /*[C07.eof_is_an_error]*/,
		res is Ok ==> (*old(r)).rest().len() >= expected@.len() && (*old(r)).rest().subrange(0, expected@.len() as int) == expected@
			&& (*final(r)).rest() == skip((*old(r)).rest(), expected@.len() as int)
			&& (*final(r)).consumed() == (*old(r)).consumed() + expected@ && !(*final(r)).hit_eof() /*[C06.expect_bytes]*/,
		(*old(r)).rest().len() >= expected@.len() && (*old(r)).rest().subrange(0, expected@.len() as int) == expected@ ==> res is Ok /*[C01.expected_bytes_accepted]*/,
//@end

// ---------------- src/io/slippi/de.rs: incremental API ----------------
pub open spec fn file_signature() -> Seq<u8> { seq![0x7bu8, 0x55, 0x03, 0x72, 0x61, 0x77, 0x5b, 0x24, 0x55, 0x23, 0x6c] }
//@fn src/io/slippi/de.rs | - | parse_header | ret=res | sigsub=/mut r: R,/r: &mut R,/ | sub=/expect_bytes(&mut r,/expect_bytes(&mut *r,/ | sub=/super::FILE_SIGNATURE/FILE_SIGNATURE/
	requires (*old(r)).inv(), !(*old(r)).hit_eof(),
	ensures (*final(r)).inv(), (*final(r)).stable() == (*old(r)).stable(), (*final(r)).hit_eof() ==> res is Err /*[C07.eof_is_an_error]*/,
		res is Ok ==> (*old(r)).rest().len() >= 15 && (*old(r)).rest().subrange(0, 11) == file_signature()
			&& res->Ok_0 == be_u32((*old(r)).rest(), 11) && (*final(r)).rest() == skip((*old(r)).rest(), 15) && !(*final(r)).hit_eof() /*[C12.header]*/,
		res is Ok ==> (*final(r)).consumed().len() == (*old(r)).consumed().len() + 15,
		(*old(r)).rest().len() >= 15 && (*old(r)).rest().subrange(0, 11) == file_signature() ==> res is Ok /*[C01.well_formed_header_accepted]*/,
//@end

pub open spec fn sizes_wf(sizes: &PayloadSizes) -> bool { sizes[0x36] is Some && sizes[0x39] is Some }
// the payload-size table: `n` entries of (code, big-endian u16 size); a later entry for the same code wins
pub open spec fn table_lookup(b: Seq<u8>, n: int, c: int) -> Option<int>
	decreases n
{
	if n <= 0 { None } else if b[3 * (n - 1)] as int == c { Some(be_u16(b, 3 * (n - 1) + 1) as int) } else { table_lookup(b, n - 1, c) }
}
pub open spec fn entry_size(b: Seq<u8>, k: int) -> int { be_u16(b, 3 * k + 1) as int }
pub open spec fn table_nonzero(b: Seq<u8>, n: int) -> bool { forall|k: int| 0 <= k < n ==> #[trigger] entry_size(b, k) != 0 }
pub open spec fn size_of(sizes: &PayloadSizes, c: int) -> Option<int> { match sizes[c] { Some(n) => Some(n@ as int), None => None } }
pub open spec fn payload_table_ok(rest: Seq<u8>) -> bool {
	&&& rest.len() >= 2 && rest[0] == 0x35 && rest[1] % 3 == 1 && rest.len() >= 1 + rest[1]
	&&& table_nonzero(rest.subrange(2, 1 + rest[1]), (rest[1] - 1) / 3)
	&&& table_lookup(rest.subrange(2, 1 + rest[1]), (rest[1] - 1) / 3, 0x36) is Some
	&&& table_lookup(rest.subrange(2, 1 + rest[1]), (rest[1] - 1) / 3, 0x39) is Some
}
pub proof fn lemma_lookup_nonzero(b: Seq<u8>, n: int, c: int)
	requires table_nonzero(b, n), table_lookup(b, n, c) is Some,
	ensures table_lookup(b, n, c)->Some_0 > 0,
	decreases n,
{
	if n > 0 {
		if b[3 * (n - 1)] as int == c { assert(entry_size(b, n - 1) != 0); } else { lemma_lookup_nonzero(b, n - 1, c); }
	}
}
pub open spec fn table_read(sizes: &PayloadSizes, b: Seq<u8>, n: int) -> bool { forall|c: int| 0 <= c < 256 ==> #[trigger] size_of(sizes, c) == table_lookup(b, n, c) }
//@fn src/io/slippi/de.rs | - | parse_payloads | ret=res | sigsub=/mut r: R,/r: &mut R,/ | rules=R18,R4f | drop=if let Some\(ref d\) = opts | sub=/r.read_exact(&mut buf)?/r.read_exact(buf.as_mut_slice())?/ | sub=/let buf = &mut &buf[..];/let buf = &mut buf.as_slice();/
	requires (*old(r)).inv(), !(*old(r)).hit_eof(),
	ensures (*final(r)).inv(), (*final(r)).stable() == (*old(r)).stable(), (*final(r)).hit_eof() ==> res is Err /*[C07.eof_is_an_error]*/,
		res is Ok ==> ({
			let rest = (*old(r)).rest();
			&&& rest.len() >= 2 && rest[0] == 0x35 && rest[1] % 3 == 1 && rest.len() >= 1 + rest[1]
			&&& res->Ok_0.0 == 1 + rest[1] /*[C12.payloads_byte_count]*/
			&&& (*final(r)).rest() == skip(rest, 1 + rest[1] as int) && !(*final(r)).hit_eof()
			&&& (*final(r)).consumed().len() == (*old(r)).consumed().len() + 1 + rest[1]
			&&& sizes_wf(&res->Ok_0.1) /*[C06.start_and_end_sizes_present]*/
			// every code has exactly the size the table declares for it (and none when the table does not mention it)
			&&& table_read(&res->Ok_0.1, rest.subrange(2, 1 + rest[1]), (rest[1] - 1) / 3) /*[C08.declared_sizes_are_the_table]*/
		}),
		// completeness: a table of non-zero sizes that declares Game Start and Game End is accepted
		payload_table_ok((*old(r)).rest()) ==> res is Ok /*[C08.well_formed_table_accepted]*/,
//@before let mut sizes
	let ghost tb = buf@;
	let ghost mut k: int = 0;
//@loop 1
		invariant
			st__ <= e__, e__ == size - 1, st__ % 3 == 0, e__ % 3 == 0, size % 3 == 1,
			buf@.len() == e__ - st__,
			st__ == 3 * k, tb.len() == e__, buf@ == skip(tb, st__ as int),
			tb == (*old(r)).rest().subrange(2, 1 + size),
			table_read(&sizes, tb, k),
			0 <= k,
			(*r).inv(), !(*r).hit_eof(), (*old(r)).rest().len() >= 1 + size, (*old(r)).rest()[0] == 0x35, (*old(r)).rest()[1] == size,
			(*r).rest() == skip((*old(r)).rest(), 1 + size as int),
			(*r).consumed().len() == (*old(r)).consumed().len() + 1 + size, (*r).stable() == (*old(r)).stable(),
		decreases e__ - st__,
//@before sizes[code as usize] =
		let ghost s0 = sizes;
		proof { assert(code == tb[3 * k] && size as int == entry_size(tb, k)); }
//@after sizes[code as usize] =
		proof {
			assert forall|c: int| 0 <= c < 256 implies #[trigger] size_of(&sizes, c) == table_lookup(tb, k + 1, c) by {
				assert(size_of(&s0, c) == table_lookup(tb, k, c));
			}
			k = k + 1;
		}
//@before sizes[Event::GameStart as usize]
	proof {
		assert(3 * k == size - 1);
		assert(size_of(&sizes, 0x36) == table_lookup(tb, k, 0x36));
		assert(size_of(&sizes, 0x39) == table_lookup(tb, k, 0x39));
	}
//@end

//@fn src/io/slippi/de.rs | - | parse_game_start | ret=res | sigsub=/mut r: R,/r: &mut R,/ | rules=R18 | drop=if let Some\(ref d\) = opts | sub=/r.read_exact(&mut buf)?/r.read_exact(buf.as_mut_slice())?/ | sub=/game_start(&mut &*buf)?/game_start(&mut buf.as_slice())?/
	requires (*old(r)).inv(), !(*old(r)).hit_eof(), bytes_read <= 256,
	ensures (*final(r)).inv(), (*final(r)).stable() == (*old(r)).stable(), (*final(r)).hit_eof() ==> res is Err /*[C07.eof_is_an_error]*/,
		res is Ok ==> ({
			let rest = (*old(r)).rest();
			let size = match payload_sizes[rest[0] as int] { Some(n) => n@ as int, None => 0 };
			&&& rest.len() >= 1 && rest[0] == 0x36 && size > 0 && rest.len() >= 1 + size
			&&& res->Ok_0.0 == bytes_read + size + 1 /*[C12.start_byte_count]*/
			&&& (*final(r)).rest() == skip(rest, 1 + size) && !(*final(r)).hit_eof()
			&&& (*final(r)).consumed().len() == (*old(r)).consumed().len() + 1 + size
			&&& game_start_spec(rest.subrange(1, 1 + size)) == Some(res->Ok_0.1) /*[C04.start_block_parsed_from_its_payload]*/
		}),
		({
			let rest = (*old(r)).rest();
			let size = match payload_sizes[rest[0] as int] { Some(n) => n@ as int, None => 0 };
			rest.len() >= 1 && rest[0] == 0x36 && size > 0 && rest.len() >= 1 + size && game_start_spec(rest.subrange(1, 1 + size)) is Some
		}) ==> res is Ok /*[C01.well_formed_game_start_accepted]*/,
//@end

// ---- parse_start: payload table + Game Start, then the empty column set for the occupied ports
pub open spec fn port_indexes_ok(st: &ParseState) -> bool {
	forall|k: int| 0 <= k < st.game.frames.ports@.len() ==> st.port_indexes[port_number((#[trigger] st.game.frames.ports@[k]).port)] <= k
}
//@fn src/io/slippi/de.rs | - | parse_start | ret=res | sigsub=/mut r: R,/r: &mut R,/ | rules=R6,R4e | sub=/parse_payloads(&mut r, opts)?/parse_payloads(&mut *r, opts)?/ | sub=/parse_game_start(&mut r, &payload_sizes, bytes_read, opts)?/parse_game_start(&mut *r, &payload_sizes, bytes_read, opts)?/ | sub=/start: start.clone(),/start: clone_start(&start),/ | sub=/MutableFrame::with_capacity(capacity, version, &ports)/MutableFrame::with_capacity(capacity, version, ports.as_slice())/ | drop=let event_counts = | cut=\bevent_counts,\s* | sub=/split_accumulator: Default::default(),/split_accumulator: SplitAccumulator { raw: Vec::new(), actual_size: 0 },/
	requires (*old(r)).inv(), !(*old(r)).hit_eof(),
	ensures (*final(r)).inv(), (*final(r)).stable() == (*old(r)).stable(), (*final(r)).hit_eof() ==> res is Err /*[C07.eof_is_an_error]*/,
		res is Ok ==> ({
			let st = res->Ok_0;
			let rest = (*old(r)).rest();
			&&& !(*final(r)).hit_eof()
			&&& state_swf(&st) /*[C04.initial_state_well_formed]*/
			&&& st.game.frames.id@.len() == 0 /*[C04.no_rows_before_first_event]*/
			&&& sizes_wf(&st.payload_sizes)
			&&& st.bytes_read == (*final(r)).consumed().len() - (*old(r)).consumed().len() /*[C12.bytes_read_is_bytes_consumed]*/
			&&& st.bytes_read <= 2 + 255 + 65536
			&&& (*old(r)).rest().len() == (*final(r)).rest().len() + st.bytes_read
			&&& st.split_accumulator.actual_size == 0 && st.split_accumulator.raw@.len() == 0
			&&& st.game.end is None && st.game.metadata is None && st.game.gecko_codes is None && st.game.hash is None && st.game.quirks is None
			&&& st.game.frames.ports@.len() == st.game.start.players@.len()
			&&& (forall|k: int| 0 <= k < st.game.frames.ports@.len() ==> (#[trigger] st.game.frames.ports@[k]).port == st.game.start.players@[k].port
					&& (st.game.frames.ports@[k].follower is Some) == (st.game.start.players@[k].character == 14)) /*[C04.one_slot_per_player_follower_iff_ics]*/
		}),
		// completeness: a well-formed payload table followed by a well-formed Game Start event is accepted
		({
			let rest = (*old(r)).rest();
			let size = table_lookup(rest.subrange(2, 1 + rest[1]), (rest[1] - 1) / 3, 0x36)->Some_0;
			let rest2 = skip(rest, 1 + rest[1] as int);
			payload_table_ok(rest) && rest2.len() >= 1 + size && rest2[0] == 0x36 && game_start_spec(rest2.subrange(1, 1 + size)) is Some
		}) ==> res is Ok /*[C01.well_formed_start_accepted]*/,
		res is Ok ==> table_read(&res->Ok_0.payload_sizes, (*old(r)).rest().subrange(2, 1 + (*old(r)).rest()[1]), ((*old(r)).rest()[1] - 1) / 3) /*[C08.declared_sizes_are_the_table]*/,
//@loop 1
		invariant ie__ <= ve__@.len(), ve__@.len() == game.frames.ports@.len(),
		decreases ve__@.len() - ie__,
//@before let (bytes_read, start)
	proof {
		let rest = (*old(r)).rest();
		assert(size_of(&payload_sizes, 0x36) == table_lookup(rest.subrange(2, 1 + rest[1]), (rest[1] - 1) / 3, 0x36));
		if payload_table_ok(rest) { lemma_lookup_nonzero(rest.subrange(2, 1 + rest[1]), (rest[1] - 1) / 3, 0x36); }
	}
//@end

//@fn src/io/slippi/de.rs | - | parse_metadata | ret=res | sigsub=/mut r: R,/r: &mut R,/ | sub=/&mut r,/&mut *r,/ | sub=/ubjson::read_map(&mut r)?/ubjson::read_map(&mut *r)?/
	requires (*old(r)).inv(), !(*old(r)).hit_eof(),
	ensures (*final(r)).inv(), (*final(r)).stable() == (*old(r)).stable(), (*final(r)).hit_eof() ==> res is Err /*[C07.eof_is_an_error]*/,
		res is Ok ==> (*final(state)).game.metadata is Some /*[C16.metadata_present]*/
			&& (*final(r)).consumed().len() > (*old(r)).consumed().len() && (*final(r)).consumed().last() == 0x7du8 && !(*final(r)).hit_eof(),
		res is Ok ==> (*final(state)).game.frames == (*old(state)).game.frames && (*final(state)).game.start == (*old(state)).game.start && (*final(state)).game.end == (*old(state)).game.end
			&& (*final(state)).game.gecko_codes == (*old(state)).game.gecko_codes && (*final(state)).game.quirks == (*old(state)).game.quirks && (*final(state)).game.hash == (*old(state)).game.hash
			&& (*final(state)).bytes_read == (*old(state)).bytes_read /*[C12.metadata_touches_nothing_else]*/,
		// the element is the one keyed "metadata" (the U marker is read by the caller): length byte 8, the key, the map opening
		res is Ok ==> (*old(r)).rest().len() >= 10 && (*old(r)).rest().subrange(0, 10) == seq![0x08u8, 0x6d, 0x65, 0x74, 0x61, 0x64, 0x61, 0x74, 0x61, 0x7b] /*[C16.metadata_key_bytes]*/,
//@end

#[verifier::external_body]
pub fn invalid_data<E>(err: E) -> (r: IoError) { unimplemented!() }
pub open spec fn opt_hash(o: Option<&Opts>) -> bool { match o { Some(x) => x.compute_hash, None => false } }
pub open spec fn opt_skip(o: Option<&Opts>) -> bool { match o { Some(x) => x.skip_frames, None => false } }

// ---------------- the one-shot reader: a loop over the incremental API ----------------
//@fn src/io/slippi/de.rs | - | read | ret=res | sub=/io::copy(&mut r.by_ref().take(skip as u64), &mut io::sink())?;/copy_take_to_sink(r.by_ref(), skip as u64)?;/ | sub=/Quirks::default()/Quirks { double_game_end: false }/ | sub=/r.read_exact(&mut buf)?/r.read_exact(buf.as_mut_slice())?/
	requires r.inv(), !r.hit_eof(), r.consumed() == Seq::<u8>::empty(),
		// stated input bound (DESIGN §8.6): the stream is shorter than 2^31 bytes
		r.rest().len() <= 0x7fff_0000,
	ensures
		res is Ok ==> (res->Ok_0.hash is Some) == opt_hash(opts) /*[C11.hash_iff_requested]*/,
//@before let hash
	let ghost r0 = r.rest();
//@before "Cannot skip to game end
	// C10: the skip is refused only when the declared raw element has no room for a Game End event after what was read
	proof { assert(raw_len == 0 || raw_len - state.bytes_read < 1 + payload_size(&state, 0x39u8)) /*[C10.skip_refused_only_without_room]*/; }
//@afterblock if#1
	proof {
		// C10: with skip-frames the reader resumes exactly one Game End event before the declared end of the raw element, with no frame rows
		assert(opt_skip(opts) ==> raw_len > 0 && state.bytes_read == raw_len - (1 + payload_size(&state, 0x39u8)) && state.game.frames.id@.len() == 0) /*[C10.skip_lands_on_game_end]*/;
		assert(opt_skip(opts) ==> state.game.end is None && state.game.metadata is None) /*[C10.nothing_parsed_while_skipping]*/;
	}
//@loop 1
		invariant
			r.inv(),
			!r.hit_eof() /*[C07.loop_runs_without_eof]*/,
			r.stable() == hash /*[C11.seek_only_when_not_hashing]*/,
			hash == opt_hash(opts),
			state_swf(&state) /*[C06.state_well_formed_between_events]*/,
			within_input_bound(&state) /*[C06.within_input_bound]*/,
			sizes_wf(&state.payload_sizes),
			r.consumed().len() + r.rest().len() <= r0.len(), r0.len() <= 0x7fff_0000,
			state.split_accumulator.actual_size <= r.consumed().len(),
			state.bytes_read <= r.consumed().len() + 0xffff_ffff,
			state.game.hash is None, state.game.quirks is None,
		ensures r.inv(), !r.hit_eof(), state.game.quirks is None,
		decreases r.rest().len(),
//@before if parse_event(
		// the event loop never starts an event at or beyond the declared end of the raw element (a length of 0 = in progress)
		proof { assert(raw_len == 0 || state.bytes_read < raw_len) /*[C01.no_event_parsed_beyond_the_raw_element]*/; }
//@before if state.bytes_read < raw_len
	let ghost pre_tail = state;
	let ghost rest_tail = r.rest();
//@afterblock if state.bytes_read < raw_len
	proof {
		// C01 / C17 (duplicated Game End): the quirk is recorded exactly when what the raw element still holds after the event loop is
		// one more Game End event of this version's size - and then nothing else of the parsed game changes
		let dup = pre_tail.bytes_read < raw_len && raw_len - pre_tail.bytes_read == 1 + game::End::size_spec(ver(&pre_tail)) && rest_tail[0] == 0x39u8;
		assert(state.game.quirks == (if dup { Some(Quirks { double_game_end: true }) } else { None::<Quirks> })) /*[C01.duplicate_game_end_recorded_exactly]*/;
		assert(state.game.frames == pre_tail.game.frames && state.game.end == pre_tail.game.end && state.game.start == pre_tail.game.start && state.game.gecko_codes == pre_tail.game.gecko_codes) /*[C01.tail_content_changes_nothing_else]*/;
	}
//@before if state.game.start.slippi.version.lt(
	let ghost pre_close = state;
//@afterblock if state.game.start.slippi.version.lt(
	proof {
		// C04: before 3.0 nothing closes the last frame but the end of the stream: afterwards every column has one entry per frame row
		assert((all_closable(&pre_close) && (ver(&pre_close).ge(3, 0) ==> rows_level(&pre_close))) ==> rows_level(&state)) /*[C04.last_frame_closed_at_end_of_stream]*/;
	}
//@before match r.read_u8()
	let ghost tail0 = r.rest();
	proof { assert(!r.hit_eof()) /*[C07.no_eof_swallowed_before_tail]*/; }
//@before state.game.hash =
	proof {
		assert(!r.hit_eof()) /*[C07.ok_only_without_eof]*/;
		assert(r.consumed().len() > 0 && r.consumed().last() == 0x7du8) /*[C07.ok_only_after_closing_brace]*/;
		// with a metadata element the map's own closing brace does not count: the TOP-LEVEL brace must have been consumed after it
		assert(tail0.len() >= 1 && tail0[0] == 0x55u8 ==> r.consumed().len() >= 2 && r.consumed()[r.consumed().len() - 2] == 0x7du8) /*[C07.top_level_brace_after_metadata]*/;
		assert(r.stable() == hash) /*[C11.hasher_alive_iff_requested]*/;
	}
//@end
'''


def hash_stubs():
    """The HashingReader part of the hash unit, as stubs (same contract text)."""
    t = hash_unit.TEMPLATE
    a = t.index('// "xxh3:" followed by')
    b = t.index('//@fn src/io/mod.rs | - | format_hash')
    t = t[a:b]
    # seek twin: keep as a separate stubbed method is unnecessary here
    out = []
    for blk in re.split(r'(?m)^(?=//@fn )', t):
        if blk.startswith('//@fn '):
            head, rest = blk.split('\n', 1)
            if 'twin=__disables_hash' in head:
                # drop the impl wrapper lines that only hold this twin
                rest = rest[rest.index('//@end') + len('//@end'):]
                out.append(rest)
                continue
            if ' | stub' not in head:
                head += ' | stub'
            out.append(head + '\n' + rest)
        else:
            out.append(blk)
    return ''.join(out)


def template(repo):
    base = event.template(repo, for_reader=True)
    base = base.replace('//@use offsets.rs\n', '//@use offsets.rs\n', 1)
    part = PART_R.replace('__HASH_STUBS__', hash_stubs())
    return base + part + '\n} // verus!\nfn main() {}'
