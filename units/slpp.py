"""Unit slpp: the .slpp container — src/io/peppi/ser.rs (tar_append, write), src/io/peppi/de.rs (read_peppi_*,
read_arrow_frames, read).  Serves C18 (entry order / contents / determinism / unknown entries / version gate),
C02 (read after write is the identity, given the library round-trip assumptions), C07/C10 (.slpp halves).
tar, serde_json and arrow2-IPC are modelled (shim/container.rs); what is verified is peppi's own code."""

SER = 'src/io/peppi/ser.rs'
DE = 'src/io/peppi/de.rs'

HEADER = r'''use vstd::prelude::*;
macro_rules! err { ($($t:tt)*) => { mk_err() } }
macro_rules! debug { ($($t:tt)*) => { () } }
verus! {
//@use core.rs
//@use arrow_imm.rs
//@use arrow_struct.rs
//@use write.rs
//@use stream.rs
//@use version.rs
//@use error.rs
//@use container.rs
type Result<T> = std::result::Result<T, Error>;

// ------------------------------------------------------------------------------------------------ game-level types
//@struct src/frame/mod.rs PortOccupancy
pub mod game {
	use vstd::prelude::*;
	use super::{slippi, Version, PortOccupancy};
//@enum src/game/mod.rs Port
//@struct src/game/mod.rs Bytes
//@struct src/game/mod.rs Start keep=slippi,bytes
//@struct src/game/mod.rs End keep=bytes
//@struct src/game/mod.rs GeckoCodes
//@struct src/game/mod.rs Quirks
	pub mod immutable {
		use vstd::prelude::*;
		use super::{Start, End, GeckoCodes, Quirks};
		use super::super::{Frame, JsMap};
//@struct src/game/immutable.rs Game | tysub=/Option<Map<String, Value>>/Option<JsMap>/
	}
}
use game::{immutable::Game, GeckoCodes, Port};
pub mod slippi {
	use super::*;
	pub use super::Version;
//@struct src/io/slippi/mod.rs Slippi
	// proved on the real function by the Kani harness c09_assert_max_version (all 2^24 versions)
	pub open spec fn le_max(v: Version) -> bool { (v.0 as int) * 65536 + (v.1 as int) * 256 + (v.2 as int) <= 3 * 65536 + 16 * 256 + 0 }
	#[verifier::external_body]
	pub fn assert_max_version(version: Version) -> (res: Result<()>) ensures res is Ok == le_max(version) { unimplemented!() }
	pub mod de {
		use super::super::*;
		// Game Start / Game End payload parsers: verified in the startend unit; here a function of the bytes
		pub uninterp spec fn game_start_spec(b: Seq<u8>) -> Option<game::Start>;
		pub uninterp spec fn game_end_spec(b: Seq<u8>) -> Option<game::End>;
		#[verifier::external_body]
		pub fn game_start(r: &mut &[u8]) -> (res: Result<game::Start>)
			ensures res is Ok == (game_start_spec(old(r)@) is Some), res is Ok ==> res->Ok_0 == game_start_spec(old(r)@)->Some_0
		{ unimplemented!() }
		#[verifier::external_body]
		pub fn game_end(r: &mut &[u8]) -> (res: Result<game::End>)
			ensures res is Ok == (game_end_spec(old(r)@) is Some), res is Ok ==> res->Ok_0 == game_end_spec(old(r)@)->Some_0
		{ unimplemented!() }
	}
}
// the frame columns: opaque here apart from the id column; export/import are verified in the arrow unit
//@struct src/frame/immutable/mod.rs Frame | keep=id
pub uninterp spec fn frame_exported(f: Frame, v: Version, ports: Seq<PortOccupancy>, a: StructArray) -> bool;
pub uninterp spec fn frame_imported(a: StructArray, v: Version, f: Frame) -> bool;
impl Frame {
	// contract verified in unit arrow (C14.export.Frame); the premises frame_wf / ports_match are the well-formedness of a parsed game
	#[verifier::external_body]
	pub fn into_struct_array(self, version: Version, ports: &[PortOccupancy]) -> (res: StructArray)
		ensures frame_exported(self, version, ports@, res), res.wf(), res.rows() == self.id@.len()
	{ unimplemented!() }
	#[verifier::external_body]
	pub fn from_struct_array(array: StructArray, version: Version) -> (res: Frame)
		ensures frame_imported(array, version, res)
	{ unimplemented!() }
}
pub uninterp spec fn occupancy_spec(start: game::Start) -> Seq<PortOccupancy>;
// verified in unit reader (port_occupancy): one entry per player, follower iff Ice Climbers
#[verifier::external_body]
pub fn port_occupancy(start: &game::Start) -> (res: Vec<PortOccupancy>) ensures res@ == occupancy_spec(*start) { unimplemented!() }
// MutableFrame::with_capacity(0, version, ports).into(): the empty frame set for these ports (verified in units codec_mut/event/codec_imm)
pub uninterp spec fn empty_frames(v: Version, ports: Seq<PortOccupancy>) -> Frame;
pub struct MutableFrame { pub f: Frame }
impl MutableFrame {
	#[verifier::external_body]
	pub fn with_capacity(capacity: usize, version: Version, ports: &[PortOccupancy]) -> (res: MutableFrame)
		ensures res.f == empty_frames(version, ports@)  // capacity only reserves space
	{ unimplemented!() }
	#[verifier::external_body]
	pub fn into(self) -> (res: Frame) ensures res == self.f { unimplemented!() }
}
pub broadcast axiom fn axiom_empty_frames_len(v: Version, ports: Seq<PortOccupancy>)
	ensures #[trigger] empty_frames(v, ports).id@.len() == 0;

// ------------------------------------------------------------------------------------------------ peppi format header
pub mod peppi {
	use vstd::prelude::*;
	use super::*;
	use super::game::Quirks;
//@struct src/io/peppi/mod.rs Version | eq
//@const src/io/peppi/mod.rs CURRENT_VERSION
//@struct src/io/peppi/mod.rs Peppi
	// (major, minor, patch) >= 2.0.0 ; proved on the real function by the Kani harness c18_assert_current_version (all 2^24 triples)
	pub open spec fn supported(v: Version) -> bool { (v.0 as int) * 65536 + (v.1 as int) * 256 + (v.2 as int) >= 2 * 65536 }
	#[verifier::external_body]
	pub fn assert_current_version(version: Version) -> (res: Result<()>) ensures res is Ok == supported(version) { unimplemented!() }
}
// JSON renderings (uninterpreted, deterministic)
pub uninterp spec fn json_peppi(p: peppi::Peppi) -> Seq<u8>;
pub uninterp spec fn json_metadata(m: Option<JsMap>) -> Seq<u8>;
pub uninterp spec fn json_start(s: game::Start) -> Seq<u8>;
pub uninterp spec fn json_end(e: game::End) -> Seq<u8>;
impl JsonSpec for peppi::Peppi { open spec fn json(&self) -> Seq<u8> { json_peppi(*self) } }
impl JsonSpec for Option<JsMap> { open spec fn json(&self) -> Seq<u8> { json_metadata(*self) } }
impl JsonSpec for game::Start { open spec fn json(&self) -> Seq<u8> { json_start(*self) } }
impl JsonSpec for game::End { open spec fn json(&self) -> Seq<u8> { json_end(*self) } }
'''

WRITE = r'''
// ------------------------------------------------------------------------------------------------ writer (C18, C02)
pub mod ser {
use vstd::prelude::*;
use super::*;
//@struct src/io/peppi/ser.rs Opts
pub open spec fn compression_of(opts: Option<&Opts>) -> Option<Compression> { match opts { Some(o) => o.compression, None => None } }
pub open spec fn gecko_blob(g: GeckoCodes) -> Seq<u8> { le_u32(g.actual_size) + g.bytes@ }
// the entries write() must produce, in order (property C18)
pub open spec fn head_entries(game: Game) -> Seq<TarEntry> {
	seq![
		entry("peppi.json"@, json_peppi(peppi::Peppi { version: peppi::CURRENT_VERSION, slp_hash: game.hash, quirks: game.quirks })),
		entry("metadata.json"@, json_metadata(game.metadata)),
		entry("start.json"@, json_start(game.start)),
		entry("start.raw"@, game.start.bytes.0@),
	]
}
pub open spec fn end_entries(game: Game) -> Seq<TarEntry> {
	match game.end { Some(e) => seq![entry("end.json"@, json_end(e)), entry("end.raw"@, e.bytes.0@)], None => Seq::<TarEntry>::empty() }
}
pub open spec fn gecko_entries(game: Game) -> Seq<TarEntry> {
	match game.gecko_codes { Some(g) => seq![entry("gecko_codes.raw"@, gecko_blob(g))], None => Seq::<TarEntry>::empty() }
}
// frames.arrow: present exactly when the game has frames; its content is the Arrow IPC file of SOME struct array that is the export of the frames
pub open spec fn frames_entries(game: Game, c: Option<Compression>, es: Seq<TarEntry>) -> bool {
	if game.frames.id@.len() > 0 {
		es.len() == 1 && exists|a: StructArray| frame_exported(game.frames, game.start.slippi.version, occupancy_spec(game.start), a)
			&& #[trigger] entry("frames.arrow"@, ipc_file(a, c)) == es[0]
	} else { es.len() == 0 }
}
pub open spec fn written_entries(game: Game, c: Option<Compression>, es: Seq<TarEntry>) -> bool {
	exists|fe: Seq<TarEntry>| frames_entries(game, c, fe) && #[trigger] (head_entries(game) + end_entries(game) + gecko_entries(game) + fe) == es
}

//@fn src/io/peppi/ser.rs | - | tar_append | ret=res | sigsub=/Result<(), Box<dyn Error>>/std::result::Result<(), BoxError>/ | sigsub=/P: AsRef<Path>/P: AsPath/ | sub=/buf.len().try_into()?/usize_try_into_u64(buf.len())?/
	ensures final(builder).w == old(builder).w,
		res is Ok ==> final(builder).entries@ == old(builder).entries@.push(entry(path.path_view(), buf@)) /*[C18.entry_header_and_content]*/,
//@end

//@fn src/io/peppi/ser.rs | - | write | ret=res | rules=R6 | sigsub=/Result<(), Box<dyn Error>>/std::result::Result<(), BoxError>/ | sub=/Box::new(batch) as Box<dyn Array>/batch.boxed()/ | sub=/gecko_codes.actual_size.to_le_bytes().to_vec()/u32_to_le_vec(gecko_codes.actual_size)/
	ensures
		!slippi::le_max(game.start.slippi.version) ==> res is Err /*[C09.slpp_writer_refuses_newer_versions]*/,
//@before ^
	let ghost game0 = game;
//@before if let Some(end)
	proof { assert(tar.entries@ =~= head_entries(game0)); }
//@before if let Some(gecko_codes)
	proof { assert(tar.entries@ =~= head_entries(game0) + end_entries(game0)); }
//@before if game.frames.id.len()
	proof { assert(tar.entries@ =~= head_entries(game0) + end_entries(game0) + gecko_entries(game0)); }
	let ghost pre = tar.entries@;
	let ghost mut a0: Option<StructArray> = None;
//@after let batch =
	proof { a0 = Some(batch); }
//@before tar.into_inner
	// at the point the archive is finished (into_inner writes the terminator and hands the sink back) it holds exactly these entries
	proof {
		let fe = tar.entries@.subrange(pre.len() as int, tar.entries@.len() as int);
		if game0.frames.id@.len() > 0 {
			assert(entry("frames.arrow"@, ipc_file(a0->Some_0, compression_of(opts))) == fe[0]);
		}
		assert(frames_entries(game0, compression_of(opts), fe));
		assert(pre + fe =~= tar.entries@);
		assert(written_entries(game0, compression_of(opts), tar.entries@)); /*[C18.entries_in_order]*/
	}
//@end
} // mod ser
'''

READ = r'''
// ------------------------------------------------------------------------------------------------ reader (C18, C02, C07, C10)
pub mod de {
use vstd::prelude::*;
use super::*;
//@struct src/io/peppi/de.rs Opts
// parsers of the JSON members (uninterpreted functions of the member's bytes)
pub uninterp spec fn peppi_parse(b: Seq<u8>) -> Option<peppi::Peppi>;
pub uninterp spec fn value_parse(b: Seq<u8>) -> Option<serde_json::Value>;
impl JsonParse for peppi::Peppi { open spec fn parse_spec(b: Seq<u8>) -> Option<Self> { peppi_parse(b) } }
impl JsonParse for serde_json::Value { open spec fn parse_spec(b: Seq<u8>) -> Option<Self> { value_parse(b) } }
// io::expect_bytes: verified in unit reader (C06.expect_bytes)
#[verifier::external_body]
pub fn expect_bytes<R: Read>(r: &mut R, expected: &[u8]) -> (res: Result<()>)
	requires (*old(r)).inv(),
	ensures (*final(r)).inv(),
		(res is Ok) == ((*old(r)).rest().len() >= expected@.len() && (*old(r)).rest().subrange(0, expected@.len() as int) == expected@),
		res is Ok ==> (*final(r)).rest() == skip((*old(r)).rest(), expected@.len() as int)
{ unimplemented!() }
#[verifier::external_body]
pub fn u32_from_le(b: [u8; 4]) -> (r: u32) ensures le_u32(r) == b@ { unimplemented!() }

pub open spec fn arrow_magic() -> Seq<u8> { seq![65u8, 82, 82, 79, 87, 49, 0, 0] }
// the record batches an Arrow stream reader yields for a frames.arrow member with these bytes (None: magic or schema message unreadable)
pub open spec fn ipc_items_of_file(b: Seq<u8>) -> Option<Seq<StreamItem>> {
	if b.len() >= 8 && b.subrange(0, 8) == arrow_magic() && ipc_meta_ok(skip(b, 8)) {
		Some(ipc_stream_items(ipc_meta(skip(b, 8)), ipc_after_meta(skip(b, 8))))
	} else { None }
}
// exactly one batch, and the stream must end properly after it
pub open spec fn batches_run(items: Seq<StreamItem>, i: int, cur: Option<StructArray>) -> Option<StructArray> decreases items.len() - i {
	if i >= items.len() || i < 0 { cur } else {
		match items[i] {
			StreamItem::Chunk(a) => if cur is None { batches_run(items, i + 1, Some(a[0]->Struct_0)) } else { None },
			_ => None,
		}
	}
}
pub open spec fn arrow_src(b: Seq<u8>) -> Option<StructArray> {
	match ipc_items_of_file(b) { Some(items) => batches_run(items, 0, None), None => None }
}
// premise on what arrow2 hands out (true for every stream whose schema is the writer's single struct column `frame`)
pub open spec fn items_shaped(items: Seq<StreamItem>) -> bool {
	forall|i: int| 0 <= i < items.len() && (#[trigger] items[i]) is Chunk ==> items[i]->Chunk_0.len() >= 1 && items[i]->Chunk_0[0] is Struct
}
pub open spec fn file_shaped(b: Seq<u8>) -> bool { ipc_items_of_file(b) is Some ==> items_shaped(ipc_items_of_file(b)->Some_0) }

//@fn src/io/peppi/de.rs | - | read_arrow_frames | ret=res | rules=R5 | sigsub=/mut r: R,/r0: R,/ | sub=/expect_bytes(&mut r,/let mut r = r0; expect_bytes(&mut r,/ | sub=/.expect("expected a `StructArray`")/.unwrap()/
	requires r0.inv(), file_shaped(r0.rest()),
	ensures (res is Ok) == (arrow_src(r0.rest()) is Some) /*[C07.arrow_stream_complete_or_error]*/,
		res is Ok ==> frame_imported(arrow_src(r0.rest())->Some_0, version, res->Ok_0) /*[C02.frames_from_the_single_batch]*/,
//@before let mut r = r0
	let ghost b0 = r0.rest();
//@before let mut frame
	let ghost mut frame_src: Option<StructArray> = None;
//@before frame = Some(Frame
	proof { frame_src = Some(*f); }
//@before match result?
	proof {
		let items = ipc_items_of_file(b0)->Some_0; let k = items.len() - it__.rem@.len() - 1;
		assert(items.subrange(k, items.len() as int)[0] == items[k]);
		assert(it__.rem@ =~= items.subrange(k + 1, items.len() as int));
		reveal_with_fuel(batches_run, 2);
	}
//@loop 1
	invariant_except_break
		({ let items = ipc_items_of_file(b0)->Some_0; let k = items.len() - it__.rem@.len();
			&&& b0 == r0.rest() && ipc_items_of_file(b0) is Some && items_shaped(items)
			&&& 0 <= k <= items.len() && it__.rem@ =~= items.subrange(k, items.len() as int)
			&&& batches_run(items, 0, None) == batches_run(items, k, frame_src)
			&&& (frame is Some) == (frame_src is Some)
			&&& (frame is Some ==> frame_imported(frame_src->Some_0, version, frame->Some_0)) }),
	ensures
		({ let items = ipc_items_of_file(b0)->Some_0;
			&&& b0 == r0.rest() && ipc_items_of_file(b0) is Some
			&&& batches_run(items, 0, None) == frame_src
			&&& (frame is Some) == (frame_src is Some)
			&&& (frame is Some ==> frame_imported(frame_src->Some_0, version, frame->Some_0)) }),
	decreases it__.rem@.len(),
//@end
//@fn src/io/peppi/de.rs | - | read_peppi_start | ret=res | sub=/&mut &buf[..]/&mut buf.as_slice()/
	requires r.inv(),
	ensures (res is Ok) == (slippi::de::game_start_spec(r.rest()) is Some), res is Ok ==> res->Ok_0 == slippi::de::game_start_spec(r.rest())->Some_0 /*[C18.start_from_raw_block]*/,
//@end
//@fn src/io/peppi/de.rs | - | read_peppi_end | ret=res | sub=/&mut &buf[..]/&mut buf.as_slice()/
	requires r.inv(),
	ensures (res is Ok) == (slippi::de::game_end_spec(r.rest()) is Some), res is Ok ==> res->Ok_0 == slippi::de::game_end_spec(r.rest())->Some_0 /*[C18.end_from_raw_block]*/,
//@end
// metadata.json: a JSON object, or null for a game without metadata
pub open spec fn metadata_parse(b: Seq<u8>) -> Option<Option<JsMap>> {
	match value_parse(b) { Some(serde_json::Value::Object(m)) => Some(Some(m)), Some(serde_json::Value::Null) => Some(None), _ => None }
}
//@fn src/io/peppi/de.rs | - | read_peppi_metadata | ret=res
	requires r.inv(),
	ensures (res is Ok) == (metadata_parse(r.rest()) is Some), res is Ok ==> res->Ok_0 == metadata_parse(r.rest())->Some_0 /*[C02.metadata_null_is_none]*/,
//@end
//@fn src/io/peppi/de.rs | - | read_peppi_gecko_codes | ret=res | sub=/u32::from_le_bytes(actual_size)/u32_from_le(actual_size)/
	requires r.inv(),
	ensures (res is Ok) == (r.rest().len() >= 4),
		res is Ok ==> le_u32(res->Ok_0.actual_size) == r.rest().subrange(0, 4) && res->Ok_0.bytes@ == skip(r.rest(), 4) /*[C02.gecko_blob_split]*/,
//@end

// ---- what read() computes, as a fold over the archive members (property C18: dispatch by member name, unknown members ignored,
// stop at frames.arrow, version gate on peppi.json)
pub enum FramesSrc { Empty(Version, Seq<PortOccupancy>), Batch(StructArray, Version) }
pub struct RModel { pub start: Option<game::Start>, pub end: Option<game::End>, pub metadata: Option<JsMap>, pub gecko: Option<(Seq<u8>, Seq<u8>)>, pub frames: Option<FramesSrc>, pub peppi: Option<peppi::Peppi> }
pub enum Step { Continue(RModel), Stop(RModel), Fail }
pub open spec fn init_model() -> RModel { RModel { start: None, end: None, metadata: None, gecko: None, frames: None, peppi: None } }
pub open spec fn is_named(e: TarEntry, n: Seq<char>) -> bool { file_name_of(e.header.path) == Some(n) }
pub open spec fn step(m: RModel, e: TarEntry, skip_frames: bool) -> Step {
	if is_named(e, "peppi.json"@) {
		match peppi_parse(e.data) { Some(p) => if peppi::supported(p.version) { Step::Continue(RModel { peppi: Some(p), ..m }) } else { Step::Fail } /*[C18.version_gate]*/, None => Step::Fail }
	} else if is_named(e, "start.raw"@) {
		match slippi::de::game_start_spec(e.data) { Some(s) => Step::Continue(RModel { start: Some(s), ..m }), None => Step::Fail }
	} else if is_named(e, "end.raw"@) {
		match slippi::de::game_end_spec(e.data) { Some(x) => Step::Continue(RModel { end: Some(x), ..m }), None => Step::Fail }
	} else if is_named(e, "metadata.json"@) {
		match metadata_parse(e.data) { Some(x) => Step::Continue(RModel { metadata: x, ..m }), None => Step::Fail }
	} else if is_named(e, "gecko_codes.raw"@) {
		if e.data.len() >= 4 { Step::Continue(RModel { gecko: Some((e.data.subrange(0, 4), skip(e.data, 4))), ..m }) } else { Step::Fail }
	} else if is_named(e, "frames.arrow"@) {
		match m.start {
			None => Step::Fail,
			Some(s) => if skip_frames { Step::Stop(RModel { frames: Some(FramesSrc::Empty(s.slippi.version, occupancy_spec(s))), ..m }) } /*[C10.slpp_skip_frames_gives_empty_frames]*/
				else if e.data.len() != e.header.size { Step::Fail } /*[C07.cut_frames_member_rejected]*/
				else { match arrow_src(e.data) { Some(a) => Step::Stop(RModel { frames: Some(FramesSrc::Batch(a, s.slippi.version)), ..m }), None => Step::Fail } },
		}
	} else { Step::Continue(m) } /*[C18.unknown_members_ignored]*/
}
pub open spec fn run(items: Seq<ArchiveItem>, i: int, m: RModel, skip_frames: bool) -> Option<RModel> decreases items.len() - i {
	if i >= items.len() || i < 0 { Some(m) } else {
		match items[i] {
			ArchiveItem::Bad => None,
			ArchiveItem::Good(e) => match step(m, e, skip_frames) { Step::Fail => None, Step::Stop(m2) => Some(m2), Step::Continue(m2) => run(items, i + 1, m2, skip_frames) },
		}
	}
}
pub open spec fn finishable(m: RModel) -> bool { m.peppi is Some && m.start is Some && m.frames is Some }
pub open spec fn gecko_model(g: Option<GeckoCodes>) -> Option<(Seq<u8>, Seq<u8>)> { match g { Some(x) => Some((le_u32(x.actual_size), x.bytes@)), None => None } }
pub open spec fn frames_model(f: Frame, src: FramesSrc) -> bool {
	match src { FramesSrc::Empty(v, p) => f == empty_frames(v, p), FramesSrc::Batch(a, v) => frame_imported(a, v, f) }
}
pub open spec fn game_models(g: Game, m: RModel) -> bool {
	&&& Some(g.start) == m.start /*[C18.game.start]*/
	&&& g.end == m.end /*[C18.game.end]*/
	&&& g.metadata == m.metadata /*[C18.game.metadata]*/
	&&& gecko_model(g.gecko_codes) == m.gecko /*[C18.game.gecko]*/
	&&& frames_model(g.frames, m.frames->Some_0) /*[C18.game.frames]*/
	&&& g.hash == m.peppi->Some_0.slp_hash /*[C11.stored_hash_carried]*/
	&&& g.quirks == m.peppi->Some_0.quirks /*[C02.quirks_carried]*/
}
pub open spec fn skip_of(opts: Option<&Opts>) -> bool { match opts { Some(o) => o.skip_frames, None => false } }
// premise: every frames.arrow member that parses as an Arrow stream has the writer's shape (one struct column)
pub open spec fn archive_shaped(items: Seq<ArchiveItem>) -> bool {
	forall|i: int| 0 <= i < items.len() && (#[trigger] items[i]) is Good ==> file_shaped(items[i]->Good_0.data)
}

//@fn src/io/peppi/de.rs | - | read | ret=res | rules=R22,R5,R6,R6b | sub=/path.file_name().and_then(|n| n.to_str())/path.file_name_str()/ | sub=/read_arrow_frames(&buf[..], version)?/read_arrow_frames(buf.as_slice(), version)?/ | sub=/super::assert_current_version/peppi::assert_current_version/
	requires r.inv(), archive_shaped(archive_items(r.rest())),
	ensures
		(res is Ok) == ({ let out = run(archive_items(r.rest()), 0, init_model(), skip_of(opts)); out is Some && finishable(out->Some_0) }) /*[C18.reader_accepts_exactly]*/,
		res is Ok ==> game_models(res->Ok_0, run(archive_items(r.rest()), 0, init_model(), skip_of(opts))->Some_0) /*[C18.reader_dispatch]*/,
//@before let mut start
	let ghost items = archive_items(r.rest());
	let ghost sk = skip_of(opts);
	let ghost mut fsrc: Option<FramesSrc> = None;
//@loop 1
	invariant_except_break
		({ let k = items.len() - it__.rem@.len();
			&&& archive_shaped(items) && sk == skip_of(opts) && items == archive_items(r.rest())
			&&& 0 <= k <= items.len() && it__.rem@ =~= items.subrange(k, items.len() as int)
			&&& frames is None && fsrc is None
			&&& run(items, 0, init_model(), sk) == run(items, k, RModel { start, end, metadata, gecko: gecko_model(gecko_codes), frames: None, peppi }, sk) }),
	ensures
		sk == skip_of(opts) && items == archive_items(r.rest()),
		run(items, 0, init_model(), sk) == Some(RModel { start, end, metadata, gecko: gecko_model(gecko_codes), frames: fsrc, peppi }),
		(frames is Some) == (fsrc is Some), frames is Some ==> frames_model(frames->Some_0, fsrc->Some_0),
	decreases it__.rem@.len(),
//@before break;
	proof {
		let k = items.len() - it__.rem@.len() - 1;
		let s = start->Some_0;
		fsrc = Some(if sk { FramesSrc::Empty(s.slippi.version, occupancy_spec(s)) } else { FramesSrc::Batch(arrow_src(items[k]->Good_0.data)->Some_0, s.slippi.version) });
	}
//@before let mut file = entry
	proof {
		let k = items.len() - it__.rem@.len() - 1;
		assert(items.subrange(k, items.len() as int)[0] == items[k]);
		assert(it__.rem@ =~= items.subrange(k + 1, items.len() as int));
		reveal_with_fuel(run, 2);
	}
//@end

// ---------------------------------------------------------------------------------------------- lemmas over the reader's fold
pub open spec fn is_known(e: TarEntry) -> bool {
	is_named(e, "peppi.json"@) || is_named(e, "start.raw"@) || is_named(e, "end.raw"@) || is_named(e, "metadata.json"@)
		|| is_named(e, "gecko_codes.raw"@) || is_named(e, "frames.arrow"@)
}
// C18: a member the reader does not know (anywhere in the archive) does not change what is read
pub proof fn lemma_unknown_member_ignored(items: Seq<ArchiveItem>, i: int, j: int, m: RModel, sk: bool)
	requires 0 <= i <= j < items.len(), items[j] is Good, !is_known(items[j]->Good_0)
	ensures run(items, i, m, sk) == run(items.remove(j), i, m, sk) /*[C18.unknown_members_ignored]*/
	decreases j - i
{
	let items2 = items.remove(j);
	if i == j {
		assert(step(m, items[j]->Good_0, sk) == Step::Continue(m));
		lemma_run_shift(items, items2, i + 1, i, m, sk);
	} else {
		assert(items2[i] == items[i]);
		match items[i] {
			ArchiveItem::Bad => {},
			ArchiveItem::Good(e) => match step(m, e, sk) {
				Step::Continue(m2) => { lemma_unknown_member_ignored(items, i + 1, j, m2, sk); },
				_ => {},
			},
		}
	}
}
// two sequences with equal tails run equally from the corresponding positions
pub proof fn lemma_run_shift(a: Seq<ArchiveItem>, b: Seq<ArchiveItem>, ia: int, ib: int, m: RModel, sk: bool)
	requires 0 <= ia <= a.len(), 0 <= ib <= b.len(), a.len() - ia == b.len() - ib,
		forall|x: int| ia <= x < a.len() ==> #[trigger] a[x] == b[x - ia + ib],
	ensures run(a, ia, m, sk) == run(b, ib, m, sk)
	decreases a.len() - ia
{
	if ia < a.len() {
		assert(a[ia] == b[ia - ia + ib]);
		match a[ia] {
			ArchiveItem::Bad => {},
			ArchiveItem::Good(e) => match step(m, e, sk) {
				Step::Continue(m2) => {
					assert forall|x: int| ia + 1 <= x < a.len() implies #[trigger] a[x] == b[x - (ia + 1) + (ib + 1)] by { assert(a[x] == b[x - ia + ib]); }
					lemma_run_shift(a, b, ia + 1, ib + 1, m2, sk);
				},
				_ => {},
			},
		}
	}
}
// C10 (.slpp half): with skip_frames the reader accepts whenever the full read does, and returns the same start, end,
// metadata, gecko codes, hash and quirks; the frames are the empty frame set for the start block's ports
pub open spec fn same_but_frames(a: RModel, b: RModel) -> bool {
	a.start == b.start && a.end == b.end && a.metadata == b.metadata && a.gecko == b.gecko && a.peppi == b.peppi
}
pub proof fn lemma_skip_frames_same_rest(items: Seq<ArchiveItem>, i: int, m: RModel, m2: RModel)
	requires 0 <= i <= items.len(), same_but_frames(m, m2), m.frames is None, m2.frames is None, run(items, i, m, false) is Some
	ensures run(items, i, m2, true) is Some, same_but_frames(run(items, i, m, false)->Some_0, run(items, i, m2, true)->Some_0),
		(run(items, i, m, false)->Some_0.frames is Some) == (run(items, i, m2, true)->Some_0.frames is Some),
		run(items, i, m2, true)->Some_0.frames is Some ==> run(items, i, m2, true)->Some_0.frames->Some_0 is Empty
			&& run(items, i, m2, true)->Some_0.start is Some
			&& run(items, i, m2, true)->Some_0.frames->Some_0 == FramesSrc::Empty(run(items, i, m2, true)->Some_0.start->Some_0.slippi.version, occupancy_spec(run(items, i, m2, true)->Some_0.start->Some_0)) /*[C10.slpp_skip_frames_same_start_end_metadata]*/
	decreases items.len() - i
{
	if i < items.len() {
		match items[i] {
			ArchiveItem::Bad => {},
			ArchiveItem::Good(e) => {
				match step(m, e, false) {
					Step::Continue(n) => {
						let n2 = step(m2, e, true)->Continue_0;
						assert(step(m2, e, true) is Continue);
						lemma_skip_frames_same_rest(items, i + 1, n, n2);
					},
					_ => {},
				}
			},
		}
	}
}

// ---------------------------------------------------------------------------------------------- C02: read after write
pub open spec fn good(es: Seq<TarEntry>) -> Seq<ArchiveItem> { Seq::new(es.len(), |i: int| ArchiveItem::Good(es[i])) }
// HYPOTHESES about the libraries (not proved here; the native searches c02 / c18 exercise them on the real crates):
// serde_json and Arrow IPC read back what they wrote, and an entry path without directories is its own file name
pub open spec fn libs_roundtrip() -> bool {
	&&& file_name_of("peppi.json"@) == Some("peppi.json"@) && file_name_of("metadata.json"@) == Some("metadata.json"@)
	&&& file_name_of("start.json"@) == Some("start.json"@) && file_name_of("start.raw"@) == Some("start.raw"@)
	&&& file_name_of("end.json"@) == Some("end.json"@) && file_name_of("end.raw"@) == Some("end.raw"@)
	&&& file_name_of("gecko_codes.raw"@) == Some("gecko_codes.raw"@) && file_name_of("frames.arrow"@) == Some("frames.arrow"@)
	&&& forall|p: peppi::Peppi| #[trigger] peppi_parse(json_peppi(p)) == Some(p)
	&&& forall|m: JsMap| #[trigger] value_parse(json_metadata(Some(m))) == Some(serde_json::Value::Object(m))
	&&& value_parse(json_metadata(None)) == Some(serde_json::Value::Null)
	&&& forall|a: StructArray, c: Option<Compression>| #[trigger] arrow_src(ipc_file(a, c)) == Some(a) && ipc_file(a, c).len() <= usize::MAX
}
// the game is what parsing its own raw blocks gives (true of every game the readers return: C05)
pub open spec fn raw_blocks_consistent(game: Game) -> bool {
	&&& slippi::de::game_start_spec(game.start.bytes.0@) == Some(game.start)
	&&& (game.end is Some ==> slippi::de::game_end_spec(game.end->Some_0.bytes.0@) == game.end)
}
pub proof fn lemma_names_distinct()
	ensures
		"peppi.json"@ != "metadata.json"@, "peppi.json"@ != "start.json"@, "peppi.json"@ != "start.raw"@, "peppi.json"@ != "end.json"@, "peppi.json"@ != "end.raw"@, "peppi.json"@ != "gecko_codes.raw"@, "peppi.json"@ != "frames.arrow"@,
		"metadata.json"@ != "start.json"@, "metadata.json"@ != "start.raw"@, "metadata.json"@ != "end.json"@, "metadata.json"@ != "end.raw"@, "metadata.json"@ != "gecko_codes.raw"@, "metadata.json"@ != "frames.arrow"@,
		"start.json"@ != "start.raw"@, "start.json"@ != "end.json"@, "start.json"@ != "end.raw"@, "start.json"@ != "gecko_codes.raw"@, "start.json"@ != "frames.arrow"@,
		"start.raw"@ != "end.json"@, "start.raw"@ != "end.raw"@, "start.raw"@ != "gecko_codes.raw"@, "start.raw"@ != "frames.arrow"@,
		"end.json"@ != "end.raw"@, "end.json"@ != "gecko_codes.raw"@, "end.json"@ != "frames.arrow"@,
		"end.raw"@ != "gecko_codes.raw"@, "end.raw"@ != "frames.arrow"@,
		"gecko_codes.raw"@ != "frames.arrow"@,
{
	reveal_strlit("peppi.json"); reveal_strlit("metadata.json"); reveal_strlit("start.json"); reveal_strlit("start.raw");
	reveal_strlit("end.json"); reveal_strlit("end.raw"); reveal_strlit("gecko_codes.raw"); reveal_strlit("frames.arrow");
	assert("peppi.json"@.len() == 10 && "metadata.json"@.len() == 13 && "start.json"@.len() == 10 && "start.raw"@.len() == 9
		&& "end.json"@.len() == 8 && "end.raw"@.len() == 7 && "gecko_codes.raw"@.len() == 15 && "frames.arrow"@.len() == 12);
	assert("peppi.json"@[0] == 'p' && "start.json"@[0] == 's');
}
// running a prefix that never stops, then the rest
pub proof fn lemma_run_concat(a: Seq<ArchiveItem>, b: Seq<ArchiveItem>, i: int, m: RModel, sk: bool)
	requires 0 <= i <= a.len(), run(a, i, m, sk) is Some, run(a, i, m, sk)->Some_0.frames is None, m.frames is None
	ensures run(a + b, i, m, sk) == run(b, 0, run(a, i, m, sk)->Some_0, sk)
	decreases a.len() - i
{
	if i < a.len() {
		assert((a + b)[i] == a[i]);
		match a[i] {
			ArchiveItem::Bad => {},
			ArchiveItem::Good(e) => match step(m, e, sk) {
				Step::Continue(m2) => { lemma_run_concat(a, b, i + 1, m2, sk); },
				_ => {},
			},
		}
	} else {
		lemma_run_shift(a + b, b, i, 0, m, sk);
	}
}
pub open spec fn roundtrip_result(game: Game, out: Option<RModel>) -> bool {
	&&& out is Some && finishable(out->Some_0) /*[C02.roundtrip.readable]*/
	&&& out->Some_0.start == Some(game.start) /*[C02.roundtrip.start]*/
	&&& out->Some_0.end == game.end /*[C02.roundtrip.end]*/
	&&& out->Some_0.metadata == game.metadata /*[C02.roundtrip.metadata]*/
	&&& out->Some_0.gecko == gecko_model(game.gecko_codes) /*[C02.roundtrip.gecko_codes]*/
	&&& out->Some_0.peppi == Some(peppi::Peppi { version: peppi::CURRENT_VERSION, slp_hash: game.hash, quirks: game.quirks }) /*[C02.roundtrip.hash_and_quirks]*/
	&&& out->Some_0.frames->Some_0 is Batch && out->Some_0.frames->Some_0->Batch_1 == game.start.slippi.version
		&& frame_exported(game.frames, game.start.slippi.version, occupancy_spec(game.start), out->Some_0.frames->Some_0->Batch_0) /*[C02.roundtrip.frames]*/
}
// everything before frames.arrow reads back (any frame count)
pub proof fn lemma_slpp_roundtrip_head(game: Game)
	requires libs_roundtrip(), raw_blocks_consistent(game)
	ensures ({
		let a = good(ser::head_entries(game) + ser::end_entries(game) + ser::gecko_entries(game));
		run(a, 0, init_model(), false) == Some(RModel { start: Some(game.start), end: game.end, metadata: game.metadata, gecko: gecko_model(game.gecko_codes),
			frames: None, peppi: Some(peppi::Peppi { version: peppi::CURRENT_VERSION, slp_hash: game.hash, quirks: game.quirks }) }) })
{
	lemma_names_distinct();
	reveal_with_fuel(run, 8);
	let h = good(ser::head_entries(game));
	let e = good(ser::end_entries(game));
	let g = good(ser::gecko_entries(game));
	let p = peppi::Peppi { version: peppi::CURRENT_VERSION, slp_hash: game.hash, quirks: game.quirks };
	let m0 = init_model();
	let m1 = RModel { peppi: Some(p), ..m0 };
	let m2 = RModel { metadata: game.metadata, ..m1 };
	let m4 = RModel { start: Some(game.start), ..m2 };
	assert(peppi::supported(peppi::CURRENT_VERSION));
	assert(step(m0, ser::head_entries(game)[0], false) == Step::Continue(m1));
	match game.metadata { Some(mm) => { assert(value_parse(json_metadata(Some(mm))) == Some(serde_json::Value::Object(mm))); }, None => {} }
	assert(metadata_parse(json_metadata(game.metadata)) == Some(game.metadata));
	assert(step(m1, ser::head_entries(game)[1], false) == Step::Continue(m2));
	assert(step(m2, ser::head_entries(game)[2], false) == Step::Continue(m2));
	assert(step(m2, ser::head_entries(game)[3], false) == Step::Continue(m4));
	assert(run(h, 0, m0, false) == Some(m4));
	let m5 = RModel { end: game.end, ..m4 };
	if game.end is Some {
		assert(step(m4, ser::end_entries(game)[0], false) == Step::Continue(m4));
		assert(step(m4, ser::end_entries(game)[1], false) == Step::Continue(m5));
	}
	assert(run(e, 0, m4, false) == Some(m5));
	let m6 = RModel { gecko: gecko_model(game.gecko_codes), ..m5 };
	if game.gecko_codes is Some {
		let gc = game.gecko_codes->Some_0;
		let d = ser::gecko_blob(gc);
		lemma_skip_is_subrange(d, 4);
		assert(d.subrange(0, 4) =~= le_u32(gc.actual_size));
		assert(d.subrange(4, d.len() as int) =~= gc.bytes@);
		assert(step(m5, ser::gecko_entries(game)[0], false) == Step::Continue(m6));
	}
	assert(run(g, 0, m5, false) == Some(m6));
	lemma_run_concat(h, e, 0, m0, false);
	lemma_run_concat(h + e, g, 0, m0, false);
	assert(good(ser::head_entries(game) + ser::end_entries(game) + ser::gecko_entries(game)) =~= h + e + g);
}
// C02: a game with at least one frame reads back from what write() produced
pub proof fn lemma_slpp_roundtrip__with_frames(game: Game, c: Option<Compression>, es: Seq<TarEntry>)
	requires libs_roundtrip(), raw_blocks_consistent(game), ser::written_entries(game, c, es), game.frames.id@.len() > 0
	ensures roundtrip_result(game, run(good(es), 0, init_model(), false))
{
	lemma_names_distinct();
	lemma_slpp_roundtrip_head(game);
	let fe = choose|fe: Seq<TarEntry>| ser::frames_entries(game, c, fe) && #[trigger] (ser::head_entries(game) + ser::end_entries(game) + ser::gecko_entries(game) + fe) == es;
	let pre = ser::head_entries(game) + ser::end_entries(game) + ser::gecko_entries(game);
	let a = choose|a: StructArray| frame_exported(game.frames, game.start.slippi.version, occupancy_spec(game.start), a) && #[trigger] entry("frames.arrow"@, ipc_file(a, c)) == fe[0];
	let m6 = run(good(pre), 0, init_model(), false)->Some_0;
	lemma_run_concat(good(pre), good(fe), 0, init_model(), false);
	assert(good(es) =~= good(pre) + good(fe));
	reveal_with_fuel(run, 2);
	assert(step(m6, fe[0], false) == Step::Stop(RModel { frames: Some(FramesSrc::Batch(a, game.start.slippi.version)), ..m6 }));
}
// the same statement without the frame-count premise: C02 also claims it for games with no frames (KNOWN FINDING F3)
pub proof fn lemma_slpp_roundtrip__any_frame_count(game: Game, c: Option<Compression>, es: Seq<TarEntry>)
	requires libs_roundtrip(), raw_blocks_consistent(game), ser::written_entries(game, c, es)
	ensures ({ let out = run(good(es), 0, init_model(), false); out is Some && finishable(out->Some_0) }) /*[C02.roundtrip.readable_without_frames]*/
{
	if game.frames.id@.len() > 0 { lemma_slpp_roundtrip__with_frames(game, c, es); }
	else {
		lemma_slpp_roundtrip_head(game);
	}
}
} // mod de
'''


def template(repo):
    return HEADER + WRITE + READ + '} // verus!\nfn main() {}\n'
