// ---- shim/core.rs : assumed contracts for byteorder / std::io on byte slices, and arrow2 mutable arrays ----
// Every item here is an ASSUMPTION of the Verus proofs (listed in the evidence).  K-shim harnesses
// (kani/src/shim_*.rs) check the integer/byteorder ones against the real dependency code.

pub mod shim_core {
use vstd::prelude::*;
// std::io::Error is used as itself (opaque to the verifier)
#[verifier::external_type_specification]
#[verifier::external_body]
pub struct ExIoError(std::io::Error);
pub type IoError = std::io::Error;
pub struct BE;

// big-endian decoding of a byte sequence at an offset (the mathematical spec, not code)
#[verifier::opaque]
pub open spec fn be_u8(s: Seq<u8>, o: int) -> u8 { s[o] }
#[verifier::opaque]
pub open spec fn be_i8(s: Seq<u8>, o: int) -> i8 { s[o] as i8 }
#[verifier::opaque]
pub open spec fn be_u16(s: Seq<u8>, o: int) -> u16 { ((s[o] as u16) * 256 + (s[o+1] as u16)) as u16 }
#[verifier::opaque]
pub open spec fn be_i16(s: Seq<u8>, o: int) -> i16 { be_u16(s, o) as i16 }
#[verifier::opaque]
pub open spec fn be_u32(s: Seq<u8>, o: int) -> u32 { ((s[o] as u32) * 16777216 + (s[o+1] as u32) * 65536 + (s[o+2] as u32) * 256 + (s[o+3] as u32)) as u32 }
#[verifier::opaque]
pub open spec fn be_i32(s: Seq<u8>, o: int) -> i32 { be_u32(s, o) as i32 }
// f32 is carried as its bit pattern: the only facts used are that reading produces the value whose
// bits are the 4 big-endian bytes, and writing emits the bits of the value.
pub uninterp spec fn f32_from_bits(b: u32) -> f32;
pub uninterp spec fn f32_bits(x: f32) -> u32;
pub open spec fn be_f32(s: Seq<u8>, o: int) -> f32 { f32_from_bits(be_u32(s, o)) }
#[verifier::external_body]
pub broadcast proof fn axiom_f32_bits_roundtrip(b: u32)
	ensures #[trigger] f32_bits(f32_from_bits(b)) == b
{}

// skip(s, n): what remains of a byte slice after n bytes were consumed.  Closed (opaque outside this
// module) so that the solver uses only the four proved facts below instead of vstd's general
// subrange axioms (which blow up on 30 chained reads).
pub closed spec fn skip(s: Seq<u8>, n: int) -> Seq<u8> { s.subrange(n, s.len() as int) }
pub broadcast proof fn lemma_skip_len(s: Seq<u8>, n: int)
	requires 0 <= n <= s.len(),
	ensures #[trigger] skip(s, n).len() == s.len() - n
{}
pub broadcast proof fn lemma_skip_index(s: Seq<u8>, n: int, i: int)
	requires 0 <= n, 0 <= i, n + i < s.len(),
	ensures #[trigger] skip(s, n)[i] == s[n + i]
{}
pub broadcast proof fn lemma_skip_skip(s: Seq<u8>, a: int, b: int)
	requires 0 <= a, 0 <= b, a + b <= s.len(),
	ensures #[trigger] skip(skip(s, a), b) == skip(s, a + b)
{
	assert(skip(skip(s, a), b) =~= skip(s, a + b));
}
pub broadcast proof fn lemma_skip_zero(s: Seq<u8>)
	ensures #[trigger] skip(s, 0) == s
{
	assert(skip(s, 0) =~= s);
}
pub broadcast proof fn lemma_be_u8_is_byte(s: Seq<u8>, o: int)
	ensures #[trigger] be_u8(s, o) == s[o]
{
	reveal(be_u8);
}
pub broadcast proof fn lemma_be_i8_is_byte(s: Seq<u8>, o: int)
	ensures #[trigger] be_i8(s, o) == s[o] as i8
{
	reveal(be_i8);
}
pub broadcast proof fn lemma_skip_subrange(s: Seq<u8>, a: int, lo: int, hi: int)
	requires 0 <= a, 0 <= lo <= hi, a + hi <= s.len(),
	ensures #[trigger] skip(s, a).subrange(lo, hi) == s.subrange(a + lo, a + hi)
{
	assert(skip(s, a).subrange(lo, hi) =~= s.subrange(a + lo, a + hi));
}
pub proof fn lemma_skip_is_subrange(s: Seq<u8>, n: int)
	ensures skip(s, n) == s.subrange(n, s.len() as int)
{}
pub broadcast proof fn lemma_be_u8_skip(s: Seq<u8>, n: int, o: int)
	requires 0 <= n, 0 <= o, n + o + 1 <= s.len(),
	ensures #[trigger] be_u8(skip(s, n), o) == be_u8(s, n + o)
{
	reveal(be_u8); reveal(be_i8); reveal(be_u16); reveal(be_i16); reveal(be_u32); reveal(be_i32);
}
pub broadcast proof fn lemma_be_i8_skip(s: Seq<u8>, n: int, o: int)
	requires 0 <= n, 0 <= o, n + o + 1 <= s.len(),
	ensures #[trigger] be_i8(skip(s, n), o) == be_i8(s, n + o)
{
	reveal(be_u8); reveal(be_i8); reveal(be_u16); reveal(be_i16); reveal(be_u32); reveal(be_i32);
}
pub broadcast proof fn lemma_be_u16_skip(s: Seq<u8>, n: int, o: int)
	requires 0 <= n, 0 <= o, n + o + 2 <= s.len(),
	ensures #[trigger] be_u16(skip(s, n), o) == be_u16(s, n + o)
{
	reveal(be_u8); reveal(be_i8); reveal(be_u16); reveal(be_i16); reveal(be_u32); reveal(be_i32);
}
pub broadcast proof fn lemma_be_i16_skip(s: Seq<u8>, n: int, o: int)
	requires 0 <= n, 0 <= o, n + o + 2 <= s.len(),
	ensures #[trigger] be_i16(skip(s, n), o) == be_i16(s, n + o)
{
	reveal(be_u8); reveal(be_i8); reveal(be_u16); reveal(be_i16); reveal(be_u32); reveal(be_i32);
}
pub broadcast proof fn lemma_be_u32_skip(s: Seq<u8>, n: int, o: int)
	requires 0 <= n, 0 <= o, n + o + 4 <= s.len(),
	ensures #[trigger] be_u32(skip(s, n), o) == be_u32(s, n + o)
{
	reveal(be_u8); reveal(be_i8); reveal(be_u16); reveal(be_i16); reveal(be_u32); reveal(be_i32);
}
pub broadcast proof fn lemma_be_i32_skip(s: Seq<u8>, n: int, o: int)
	requires 0 <= n, 0 <= o, n + o + 4 <= s.len(),
	ensures #[trigger] be_i32(skip(s, n), o) == be_i32(s, n + o)
{
	reveal(be_u8); reveal(be_i8); reveal(be_u16); reveal(be_i16); reveal(be_u32); reveal(be_i32);
}
pub broadcast proof fn lemma_be_u8_subrange(s: Seq<u8>, a: int, b: int, o: int)
	requires 0 <= a, 0 <= o, a + o + 1 <= b, b <= s.len(),
	ensures #[trigger] be_u8(s.subrange(a, b), o) == be_u8(s, a + o)
{
	reveal(be_u8); reveal(be_i8); reveal(be_u16); reveal(be_i16); reveal(be_u32); reveal(be_i32);
}
pub broadcast proof fn lemma_be_i8_subrange(s: Seq<u8>, a: int, b: int, o: int)
	requires 0 <= a, 0 <= o, a + o + 1 <= b, b <= s.len(),
	ensures #[trigger] be_i8(s.subrange(a, b), o) == be_i8(s, a + o)
{
	reveal(be_u8); reveal(be_i8); reveal(be_u16); reveal(be_i16); reveal(be_u32); reveal(be_i32);
}
pub broadcast proof fn lemma_be_u16_subrange(s: Seq<u8>, a: int, b: int, o: int)
	requires 0 <= a, 0 <= o, a + o + 2 <= b, b <= s.len(),
	ensures #[trigger] be_u16(s.subrange(a, b), o) == be_u16(s, a + o)
{
	reveal(be_u8); reveal(be_i8); reveal(be_u16); reveal(be_i16); reveal(be_u32); reveal(be_i32);
}
pub broadcast proof fn lemma_be_i16_subrange(s: Seq<u8>, a: int, b: int, o: int)
	requires 0 <= a, 0 <= o, a + o + 2 <= b, b <= s.len(),
	ensures #[trigger] be_i16(s.subrange(a, b), o) == be_i16(s, a + o)
{
	reveal(be_u8); reveal(be_i8); reveal(be_u16); reveal(be_i16); reveal(be_u32); reveal(be_i32);
}
pub broadcast proof fn lemma_be_u32_subrange(s: Seq<u8>, a: int, b: int, o: int)
	requires 0 <= a, 0 <= o, a + o + 4 <= b, b <= s.len(),
	ensures #[trigger] be_u32(s.subrange(a, b), o) == be_u32(s, a + o)
{
	reveal(be_u8); reveal(be_i8); reveal(be_u16); reveal(be_i16); reveal(be_u32); reveal(be_i32);
}
pub broadcast proof fn lemma_be_i32_subrange(s: Seq<u8>, a: int, b: int, o: int)
	requires 0 <= a, 0 <= o, a + o + 4 <= b, b <= s.len(),
	ensures #[trigger] be_i32(s.subrange(a, b), o) == be_i32(s, a + o)
{
	reveal(be_u8); reveal(be_i8); reveal(be_u16); reveal(be_i16); reveal(be_u32); reveal(be_i32);
}
pub broadcast group group_bytes { lemma_be_u8_is_byte, lemma_be_i8_is_byte }
pub broadcast group group_skip { lemma_skip_len, lemma_skip_index, lemma_skip_subrange, lemma_be_u8_skip, lemma_be_i8_skip, lemma_be_u16_skip, lemma_be_i16_skip, lemma_be_u32_skip, lemma_be_i32_skip, lemma_be_u8_subrange, lemma_be_i8_subrange, lemma_be_u16_subrange, lemma_be_i16_subrange, lemma_be_u32_subrange, lemma_be_i32_subrange }

// byteorder::ReadBytesExt / std::io::Read on `&[u8]`
pub trait ReadBytesExt: Sized {
	spec fn bytes(&self) -> Seq<u8>;

	fn read_u8(&mut self) -> (r: std::result::Result<u8, IoError>)
		ensures match r {
			Ok(x) => old(self).bytes().len() >= 1 && x == be_u8(old(self).bytes(), 0) && final(self).bytes() == skip(old(self).bytes(), 1),
			Err(_) => old(self).bytes().len() < 1,
		};
	fn read_i8(&mut self) -> (r: std::result::Result<i8, IoError>)
		ensures match r {
			Ok(x) => old(self).bytes().len() >= 1 && x == be_i8(old(self).bytes(), 0) && final(self).bytes() == skip(old(self).bytes(), 1),
			Err(_) => old(self).bytes().len() < 1,
		};
	fn read_u16<B>(&mut self) -> (r: std::result::Result<u16, IoError>)
		ensures match r {
			Ok(x) => old(self).bytes().len() >= 2 && x == be_u16(old(self).bytes(), 0) && final(self).bytes() == skip(old(self).bytes(), 2),
			Err(_) => old(self).bytes().len() < 2,
		};
	fn read_i16<B>(&mut self) -> (r: std::result::Result<i16, IoError>)
		ensures match r {
			Ok(x) => old(self).bytes().len() >= 2 && x == be_i16(old(self).bytes(), 0) && final(self).bytes() == skip(old(self).bytes(), 2),
			Err(_) => old(self).bytes().len() < 2,
		};
	fn read_u32<B>(&mut self) -> (r: std::result::Result<u32, IoError>)
		ensures match r {
			Ok(x) => old(self).bytes().len() >= 4 && x == be_u32(old(self).bytes(), 0) && final(self).bytes() == skip(old(self).bytes(), 4),
			Err(_) => old(self).bytes().len() < 4,
		};
	fn read_i32<B>(&mut self) -> (r: std::result::Result<i32, IoError>)
		ensures match r {
			Ok(x) => old(self).bytes().len() >= 4 && x == be_i32(old(self).bytes(), 0) && final(self).bytes() == skip(old(self).bytes(), 4),
			Err(_) => old(self).bytes().len() < 4,
		};
	fn read_f32<B>(&mut self) -> (r: std::result::Result<f32, IoError>)
		ensures match r {
			Ok(x) => old(self).bytes().len() >= 4 && x == be_f32(old(self).bytes(), 0) && final(self).bytes() == skip(old(self).bytes(), 4),
			Err(_) => old(self).bytes().len() < 4,
		};
	// std::io::Read::read_exact on a slice
	fn read_exact(&mut self, buf: &mut [u8]) -> (r: std::result::Result<(), IoError>)
		ensures final(buf)@.len() == old(buf)@.len(),
			match r {
				Ok(_) => old(self).bytes().len() >= old(buf)@.len() && final(buf)@ == old(self).bytes().subrange(0, old(buf)@.len() as int) && final(self).bytes() == skip(old(self).bytes(), old(buf)@.len() as int),
				Err(_) => old(self).bytes().len() < old(buf)@.len(),
			};
}

impl<'a> ReadBytesExt for &'a [u8] {
	open spec fn bytes(&self) -> Seq<u8> { (*self)@ }
	#[verifier::external_body] fn read_u8(&mut self) -> (r: std::result::Result<u8, IoError>) { unimplemented!() }
	#[verifier::external_body] fn read_i8(&mut self) -> (r: std::result::Result<i8, IoError>) { unimplemented!() }
	#[verifier::external_body] fn read_u16<B>(&mut self) -> (r: std::result::Result<u16, IoError>) { unimplemented!() }
	#[verifier::external_body] fn read_i16<B>(&mut self) -> (r: std::result::Result<i16, IoError>) { unimplemented!() }
	#[verifier::external_body] fn read_u32<B>(&mut self) -> (r: std::result::Result<u32, IoError>) { unimplemented!() }
	#[verifier::external_body] fn read_i32<B>(&mut self) -> (r: std::result::Result<i32, IoError>) { unimplemented!() }
	#[verifier::external_body] fn read_f32<B>(&mut self) -> (r: std::result::Result<f32, IoError>) { unimplemented!() }
	#[verifier::external_body] fn read_exact(&mut self, buf: &mut [u8]) -> (r: std::result::Result<(), IoError>) { unimplemented!() }
}

// arrow2::array::MutablePrimitiveArray<T>: abstract view = Seq<Option<T>> (None = null slot)
// (model fields: v = slots incl. nulls, vals = dense value buffer; only reachable through the contracts below)
pub struct MutablePrimitiveArray<T> { pub v: Vec<Option<T>>, pub vals: Vec<T> }
impl<T> MutablePrimitiveArray<T> {
	pub open spec fn view(&self) -> Seq<Option<T>> { self.v@ }
	#[verifier::external_body]
	pub fn with_capacity(capacity: usize) -> (r: Self) ensures r@.len() == 0 { unimplemented!() }
	#[verifier::external_body]
	pub fn push(&mut self, x: Option<T>)
		ensures final(self)@ == old(self)@.push(x),
			final(self).values_spec().len() == old(self).values_spec().len() + 1,
			final(self).values_spec().subrange(0, old(self).values_spec().len() as int) == old(self).values_spec(),
			x is Some ==> final(self).values_spec() == old(self).values_spec().push(x->Some_0),
	{ unimplemented!() }
	#[verifier::external_body]
	pub fn push_null(&mut self)
		ensures final(self)@ == old(self)@.push(None),
			final(self).values_spec().len() == old(self).values_spec().len() + 1,
			final(self).values_spec().subrange(0, old(self).values_spec().len() as int) == old(self).values_spec(),
	{ unimplemented!() }
	#[verifier::external_body]
	pub fn len(&self) -> (r: usize) ensures r == self@.len() { unimplemented!() }
	// values(): the dense value buffer; a null slot holds an unspecified value (arrow2 stores T::default())
	pub open spec fn values_spec(&self) -> Seq<T> { self.vals@ }
	#[verifier::external_body]
	pub broadcast proof fn axiom_values_spec(&self)
		ensures #[trigger] self.values_spec().len() == self@.len(),
			forall|i: int| 0 <= i < self@.len() && self@[i] is Some ==> self.values_spec()[i] == self@[i]->Some_0
	{}
	#[verifier::external_body]
	pub fn values(&self) -> (r: &Vec<T>)
		ensures r@ == self.values_spec(), r@.len() == self@.len()
	{ unimplemented!() }
}

// column `b` is column `a` followed only by nulls / only by `false` bits
pub open spec fn col_ext_null<T>(a: Seq<Option<T>>, b: Seq<Option<T>>) -> bool {
	&&& a.len() <= b.len()
	&&& forall|i: int| 0 <= i < a.len() ==> #[trigger] b[i] == a[i]
	&&& forall|i: int| a.len() <= i < b.len() ==> #[trigger] b[i] is None
}
pub open spec fn col_ext_false(a: Seq<bool>, b: Seq<bool>) -> bool {
	&&& a.len() <= b.len()
	&&& forall|i: int| 0 <= i < a.len() ==> #[trigger] b[i] == a[i]
	&&& forall|i: int| a.len() <= i < b.len() ==> !#[trigger] b[i]
}
// arrow2::bitmap::MutableBitmap: abstract view = Seq<bool>
pub struct MutableBitmap { pub v: Vec<bool> }
impl MutableBitmap {
	pub open spec fn view(&self) -> Seq<bool> { self.v@ }
	#[verifier::external_body]
	pub fn with_capacity(capacity: usize) -> (r: Self) ensures r@.len() == 0 { unimplemented!() }
	#[verifier::external_body]
	pub fn from_len_set(len: usize) -> (r: Self) ensures r@ == Seq::new(len as nat, |i: int| true) { unimplemented!() }
	#[verifier::external_body]
	pub fn push(&mut self, x: bool) ensures final(self)@ == old(self)@.push(x) { unimplemented!() }
	#[verifier::external_body]
	pub fn len(&self) -> (r: usize) ensures r == self@.len() { unimplemented!() }
}
} // mod shim_core
pub use shim_core::*;
broadcast use shim_core::group_skip;
