// ---- shim/offsets.rs : arrow2::offset::Offsets<i32> (monotone i32 offsets, starts as [0]) and std::num::NonZeroU16 (assumed) ----
pub mod shim_offsets {
use vstd::prelude::*;
pub struct Offsets<T> { pub v: Vec<T> }
pub struct OffsetsError;
impl std::fmt::Debug for OffsetsError { #[verifier::external_body] fn fmt(&self, f: &mut std::fmt::Formatter<'_>) -> std::fmt::Result { unimplemented!() } }
impl Offsets<i32> {
	pub open spec fn view(&self) -> Seq<i32> { self.v@ }
	#[verifier::external_body]
	pub fn with_capacity(capacity: usize) -> (r: Self) ensures r@ == seq![0i32] { unimplemented!() }
	#[verifier::external_body]
	pub fn last(&self) -> (r: &i32) requires self@.len() > 0 ensures *r == self@[self@.len() - 1] { unimplemented!() }
	// try_push(length): appends last + length; Err (unchanged) if length < 0 or the sum overflows i32
	#[verifier::external_body]
	pub fn try_push(&mut self, length: i32) -> (r: Result<(), OffsetsError>)
		requires (*old(self))@.len() > 0,
		ensures
			length >= 0 && (*old(self))@[(*old(self))@.len() - 1] + length <= 0x7fff_ffff ==> r is Ok && (*final(self))@ == (*old(self))@.push(((*old(self))@[(*old(self))@.len() - 1] + length) as i32),
			r is Ok ==> length >= 0 && (*final(self))@ == (*old(self))@.push(((*old(self))@[(*old(self))@.len() - 1] + length) as i32)
				&& (*old(self))@[(*old(self))@.len() - 1] + length <= 0x7fff_ffff,
			r is Err ==> (*final(self))@ == (*old(self))@,
	{ unimplemented!() }
	// start_end(i) = (offsets[i], offsets[i+1]) as usize
	#[verifier::external_body]
	pub fn start_end(&self, i: usize) -> (r: (usize, usize))
		requires i + 1 < self@.len(), self@[i as int] >= 0, self@[i as int + 1] >= 0,
		ensures r.0 == self@[i as int], r.1 == self@[i as int + 1],
	{ unimplemented!() }
}
impl vstd::std_specs::convert::FromSpecImpl<OffsetsError> for super::Error {
	open spec fn obeys_from_spec() -> bool { true }
	open spec fn from_spec(e: OffsetsError) -> super::Error { super::Error::Arrow }
}
impl From<OffsetsError> for super::Error {
	#[verifier::external_body]
	fn from(e: OffsetsError) -> (r: super::Error) { unimplemented!() }
}
pub struct NonZeroU16 { pub n: u16 }
impl Clone for NonZeroU16 { #[verifier::external_body] fn clone(&self) -> (r: Self) ensures r == *self { unimplemented!() } }
impl Copy for NonZeroU16 {}
impl NonZeroU16 {
	pub open spec fn view(&self) -> u16 { self.n }
	#[verifier::external_body]
	pub fn new(n: u16) -> (r: Option<NonZeroU16>) ensures (r is Some) == (n != 0), r is Some ==> r->Some_0@ == n { unimplemented!() }
	#[verifier::external_body]
	pub fn get(self) -> (r: u16) ensures r == self@, r != 0 { unimplemented!() }
}
} // mod shim_offsets
pub use shim_offsets::*;
