// ---- shim/write.rs : assumed contracts for std::io::Write + byteorder::WriteBytesExt (ghost log of bytes written) ----
pub mod shim_write {
use vstd::prelude::*;
use super::*;

// big-endian encodings (mathematical spec)
pub open spec fn bytes_u8(x: u8) -> Seq<u8> { seq![x] }
pub open spec fn bytes_i8(x: i8) -> Seq<u8> { seq![x as u8] }
pub open spec fn bytes_u16(x: u16) -> Seq<u8> { seq![(x / 256) as u8, (x % 256) as u8] }
pub open spec fn bytes_i16(x: i16) -> Seq<u8> { bytes_u16(x as u16) }
pub open spec fn bytes_u32(x: u32) -> Seq<u8> { seq![(x / 16777216) as u8, ((x / 65536) % 256) as u8, ((x / 256) % 256) as u8, (x % 256) as u8] }
pub open spec fn bytes_i32(x: i32) -> Seq<u8> { bytes_u32(x as u32) }
pub open spec fn bytes_f32(x: f32) -> Seq<u8> { bytes_u32(f32_bits(x)) }

// std::io::Write: written() is the ghost log of every byte accepted so far
pub trait Write: Sized {
	spec fn written(&self) -> Seq<u8>;

	fn write_all(&mut self, buf: &[u8]) -> (res: std::result::Result<(), IoError>)
		ensures res is Ok ==> (*final(self)).written() == (*old(self)).written() + buf@;

	// flush: pushes buffered bytes down; the log of accepted bytes is unchanged
	#[verifier::external_body]
	fn flush(&mut self) -> (res: std::result::Result<(), IoError>)
		ensures (*final(self)).written() == (*old(self)).written()
	{ unimplemented!() }
	#[verifier::external_body]
	fn write_u8(&mut self, x: u8) -> (res: std::result::Result<(), IoError>)
		ensures res is Ok ==> (*final(self)).written() == (*old(self)).written() + bytes_u8(x)
	{ unimplemented!() }
	#[verifier::external_body]
	fn write_i8(&mut self, x: i8) -> (res: std::result::Result<(), IoError>)
		ensures res is Ok ==> (*final(self)).written() == (*old(self)).written() + bytes_i8(x)
	{ unimplemented!() }
	#[verifier::external_body]
	fn write_u16<B>(&mut self, x: u16) -> (res: std::result::Result<(), IoError>)
		ensures res is Ok ==> (*final(self)).written() == (*old(self)).written() + bytes_u16(x)
	{ unimplemented!() }
	#[verifier::external_body]
	fn write_i16<B>(&mut self, x: i16) -> (res: std::result::Result<(), IoError>)
		ensures res is Ok ==> (*final(self)).written() == (*old(self)).written() + bytes_i16(x)
	{ unimplemented!() }
	#[verifier::external_body]
	fn write_u32<B>(&mut self, x: u32) -> (res: std::result::Result<(), IoError>)
		ensures res is Ok ==> (*final(self)).written() == (*old(self)).written() + bytes_u32(x)
	{ unimplemented!() }
	#[verifier::external_body]
	fn write_i32<B>(&mut self, x: i32) -> (res: std::result::Result<(), IoError>)
		ensures res is Ok ==> (*final(self)).written() == (*old(self)).written() + bytes_i32(x)
	{ unimplemented!() }
	#[verifier::external_body]
	fn write_f32<B>(&mut self, x: f32) -> (res: std::result::Result<(), IoError>)
		ensures res is Ok ==> (*final(self)).written() == (*old(self)).written() + bytes_f32(x)
	{ unimplemented!() }
}

// ---- proved (not assumed): big-endian encode/decode are inverse on byte windows ----
pub proof fn lemma_bytes_be_u8(s: Seq<u8>, o: int)
	requires 0 <= o, o + 1 <= s.len(),
	ensures bytes_u8(be_u8(s, o)) == s.subrange(o, o + 1),
{
	reveal(be_u8);
	assert(bytes_u8(be_u8(s, o)) =~= s.subrange(o, o + 1));
}
pub proof fn lemma_bytes_be_i8(s: Seq<u8>, o: int)
	requires 0 <= o, o + 1 <= s.len(),
	ensures bytes_i8(be_i8(s, o)) == s.subrange(o, o + 1),
{
	reveal(be_i8);
	let x = s[o];
	assert((x as i8) as u8 == x) by (bit_vector);
	assert(bytes_i8(be_i8(s, o)) =~= s.subrange(o, o + 1));
}
pub proof fn lemma_bytes_be_u16(s: Seq<u8>, o: int)
	requires 0 <= o, o + 2 <= s.len(),
	ensures bytes_u16(be_u16(s, o)) == s.subrange(o, o + 2),
{
	reveal(be_u16);
	let a = s[o]; let b = s[o+1];
	let x: u16 = be_u16(s, o);
	assert(x == (a as u16) * 256 + (b as u16));
	assert((x / 256) as u8 == a && (x % 256) as u8 == b) by (bit_vector)
		requires x == (a as u16) * 256 + (b as u16);
	assert(bytes_u16(be_u16(s, o)) =~= s.subrange(o, o + 2));
}
pub proof fn lemma_bytes_be_i16(s: Seq<u8>, o: int)
	requires 0 <= o, o + 2 <= s.len(),
	ensures bytes_i16(be_i16(s, o)) == s.subrange(o, o + 2),
{
	reveal(be_i16);
	let x = be_u16(s, o);
	assert((x as i16) as u16 == x) by (bit_vector);
	lemma_bytes_be_u16(s, o);
}
pub proof fn lemma_bytes_be_u32(s: Seq<u8>, o: int)
	requires 0 <= o, o + 4 <= s.len(),
	ensures bytes_u32(be_u32(s, o)) == s.subrange(o, o + 4),
{
	reveal(be_u32);
	let a = s[o]; let b = s[o+1]; let c = s[o+2]; let d = s[o+3];
	let x: u32 = be_u32(s, o);
	assert(x == (a as u32) * 16777216 + (b as u32) * 65536 + (c as u32) * 256 + (d as u32));
	assert((x / 16777216) as u8 == a && ((x / 65536) % 256) as u8 == b && ((x / 256) % 256) as u8 == c && (x % 256) as u8 == d) by (bit_vector)
		requires x == (a as u32) * 16777216 + (b as u32) * 65536 + (c as u32) * 256 + (d as u32);
	assert(bytes_u32(be_u32(s, o)) =~= s.subrange(o, o + 4));
}
pub proof fn lemma_bytes_be_i32(s: Seq<u8>, o: int)
	requires 0 <= o, o + 4 <= s.len(),
	ensures bytes_i32(be_i32(s, o)) == s.subrange(o, o + 4),
{
	reveal(be_i32);
	let x = be_u32(s, o);
	assert((x as i32) as u32 == x) by (bit_vector);
	lemma_bytes_be_u32(s, o);
}
pub proof fn lemma_bytes_be_f32(s: Seq<u8>, o: int)
	requires 0 <= o, o + 4 <= s.len(),
	ensures bytes_f32(be_f32(s, o)) == s.subrange(o, o + 4),
{
	axiom_f32_bits_roundtrip(be_u32(s, o));
	lemma_bytes_be_u32(s, o);
}
// appending the next window extends the copied range
pub proof fn lemma_subrange_append(acc: Seq<u8>, b: Seq<u8>, o: int, m: int, e: int)
	requires 0 <= o <= m <= e <= b.len(),
	ensures (acc + b.subrange(o, m)) + b.subrange(m, e) == acc + b.subrange(o, e),
{
	assert((acc + b.subrange(o, m)) + b.subrange(m, e) =~= acc + b.subrange(o, e));
}

#[verifier::external_body]
pub broadcast proof fn axiom_size_of_f32() ensures #[trigger] vstd::layout::size_of::<f32>() == 4 {}
} // mod shim_write
pub use shim_write::*;
broadcast use shim_write::axiom_size_of_f32;
