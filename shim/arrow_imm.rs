// ---- shim/arrow_imm.rs : assumed contracts for arrow2 immutable arrays (PrimitiveArray, Bitmap, OffsetsBuffer) ----
pub mod shim_arrow_imm {
use vstd::prelude::*;

// arrow2::array::PrimitiveArray<T>: view = Seq<Option<T>>; values_spec = the dense value buffer
pub struct PrimitiveArray<T> { pub v: Vec<Option<T>>, pub vals: Vec<T> }
impl<T: Copy> PrimitiveArray<T> {
	pub open spec fn view(&self) -> Seq<Option<T>> { self.v@ }
	pub open spec fn values_spec(&self) -> Seq<T> { self.vals@ }
	#[verifier::external_body]
	pub broadcast proof fn axiom_values_spec(&self)
		ensures #[trigger] self.values_spec().len() == self@.len(), self.values_spec().len() <= usize::MAX,
			forall|i: int| 0 <= i < self@.len() && self@[i] is Some ==> self.values_spec()[i] == self@[i]->Some_0
	{}
	#[verifier::external_body]
	pub fn len(&self) -> (r: usize) ensures r == self@.len(), r == self.values_spec().len() { unimplemented!() }
	#[verifier::external_body]
	pub fn value(&self, i: usize) -> (r: T) requires i < self@.len() ensures r == self.values_spec()[i as int] { unimplemented!() }
	#[verifier::external_body]
	pub fn values(&self) -> (r: &Vec<T>) ensures r@ == self.values_spec(), r@.len() == self@.len() { unimplemented!() }
	#[verifier::external_body]
	pub fn values_iter<'a>(&'a self) -> (r: ValuesIter<'a, T>) ensures r.vals() == self.values_spec() { unimplemented!() }
}

// slice::Iter over the value buffer, and the adaptors peppi uses on it
pub struct ValuesIter<'a, T> { pub s: &'a [T] }
impl<'a, T: Copy> ValuesIter<'a, T> {
	pub uninterp spec fn vals(&self) -> Seq<T>;
}
impl<'a> ValuesIter<'a, i32> {
	#[verifier::external_body]
	pub fn enumerate(self) -> (r: EnumIter<'a, i32>)
		ensures r.rem_() == enum_seq(self.vals())
	{ unimplemented!() }
	// Iterator::max: None iff empty, otherwise (a reference to) a maximal element
	#[verifier::external_body]
	pub fn max(self) -> (r: Option<&'a i32>)
		ensures self.vals().len() == 0 ==> r is None,
			self.vals().len() > 0 ==> r is Some && (forall|k: int| 0 <= k < self.vals().len() ==> self.vals()[k] <= *r->Some_0)
				&& (exists|k: int| 0 <= k < self.vals().len() && self.vals()[k] == *r->Some_0)
	{ unimplemented!() }
}
pub open spec fn enum_seq(vals: Seq<i32>) -> Seq<(usize, i32)> { Seq::new(vals.len(), |k: int| (k as usize, vals[k])) }
pub open spec fn rev_seq(s: Seq<(usize, i32)>) -> Seq<(usize, i32)> { Seq::new(s.len(), |k: int| s[s.len() - 1 - k]) }
pub struct EnumIter<'a, T> { pub s: &'a [T] }
pub trait PairIter<'a>: Sized {
	// the pairs still to be yielded, in order
	spec fn rem(&self) -> Seq<(usize, i32)>;
	fn next(&mut self) -> (r: Option<(usize, &'a i32)>)
		ensures
			old(self).rem().len() == 0 ==> r is None && final(self).rem() == old(self).rem(),
			old(self).rem().len() > 0 ==> r is Some && r->Some_0.0 == old(self).rem()[0].0 && *r->Some_0.1 == old(self).rem()[0].1
				&& final(self).rem() == old(self).rem().subrange(1, old(self).rem().len() as int);
}
pub struct RevEnumIter<'a, T> { pub s: &'a [T] }
impl<'a> EnumIter<'a, i32> {
	pub uninterp spec fn rem_(&self) -> Seq<(usize, i32)>;
	// DoubleEndedIterator::rev on a not-yet-advanced enumerate(): same pairs, reverse order
	#[verifier::external_body]
	pub fn rev(self) -> (r: RevEnumIter<'a, i32>)
		ensures r.rem_() == rev_seq(self.rem_())
	{ unimplemented!() }
}
impl<'a> PairIter<'a> for EnumIter<'a, i32> {
	open spec fn rem(&self) -> Seq<(usize, i32)> { self.rem_() }
	#[verifier::external_body] fn next(&mut self) -> (r: Option<(usize, &'a i32)>) { unimplemented!() }
}
impl<'a> RevEnumIter<'a, i32> {
	pub uninterp spec fn rem_(&self) -> Seq<(usize, i32)>;
}
impl<'a> PairIter<'a> for RevEnumIter<'a, i32> {
	open spec fn rem(&self) -> Seq<(usize, i32)> { self.rem_() }
	#[verifier::external_body] fn next(&mut self) -> (r: Option<(usize, &'a i32)>) { unimplemented!() }
}

// `arr.values().iter().enumerate()` on the id column (named as one step: slice iteration in index order)
#[verifier::external_body]
pub fn enumerate_values<'a>(a: &'a PrimitiveArray<i32>) -> (r: EnumIter<'a, i32>) ensures r.rem_() == enum_seq(a.values_spec()) { unimplemented!() }

// arrow2::bitmap::Bitmap
pub struct Bitmap { pub v: Vec<bool> }
pub open spec fn count_false(s: Seq<bool>) -> nat decreases s.len() {
	if s.len() == 0 { 0 } else { count_false(s.drop_last()) + (if s.last() { 0nat } else { 1nat }) }
}
// proved: a bitmap cannot have more unset bits than bits
pub proof fn lemma_count_false_le(s: Seq<bool>)
	ensures count_false(s) <= s.len()
	decreases s.len()
{
	if s.len() > 0 { lemma_count_false_le(s.drop_last()); }
}
impl Bitmap {
	pub open spec fn view(&self) -> Seq<bool> { self.v@ }
	#[verifier::external_body]
	pub fn len(&self) -> (r: usize) ensures r == self@.len() { unimplemented!() }
	#[verifier::external_body]
	pub fn get_bit(&self, i: usize) -> (r: bool) requires i < self@.len() ensures r == self@[i as int] { unimplemented!() }
	#[verifier::external_body]
	pub fn unset_bits(&self) -> (r: usize) ensures r == count_false(self@) { unimplemented!() }
}
} // mod shim_arrow_imm
pub use shim_arrow_imm::*;
