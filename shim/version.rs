// ---- shim/version.rs : io::slippi::Version — the struct and gte/lt are extracted from /repo and verified against `ge` ----
//@struct src/io/slippi/mod.rs Version | eq
impl Version {
	// the property's order: (major, minor) compared lexicographically, stated arithmetically
	pub open spec fn ge(&self, major: u8, minor: u8) -> bool {
		(self.0 as int) * 256 + (self.1 as int) >= (major as int) * 256 + (minor as int)
	}
//@fn src/io/slippi/mod.rs | impl Version | gte | ret=res
	ensures res == self.ge(major, minor) /*[Version.gte]*/,
//@end
//@fn src/io/slippi/mod.rs | impl Version | lt | ret=res
	ensures res == !self.ge(major, minor) /*[Version.lt]*/,
//@end
}
