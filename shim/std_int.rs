// ---- shim/std_int.rs : std integer conversions not specified by vstd (assumed; transcribed from the std docs) ----
// (usize::try_from(i32) is already specified by vstd::std_specs)
