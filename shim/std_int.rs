// ---- shim/std_int.rs : std integer helpers not specified by vstd (assumed; transcribed from the std docs) ----
// (usize::try_from(i32), u32::try_from(usize), usize -> u16 try_into are already specified by vstd::std_specs)
pub mod shim_std_int {
use vstd::prelude::*;
#[verifier::external_body]
pub fn min_usize(a: usize, b: usize) -> (r: usize) ensures r == (if a <= b { a } else { b }) { unimplemented!() }
#[verifier::external_body]
pub fn u8_from_bool(b: bool) -> (r: u8) ensures r == (if b { 1u8 } else { 0u8 }) { unimplemented!() }
}
pub use shim_std_int::*;
pub assume_specification<T, E> [ std::result::Result::<T, E>::unwrap_or ](r: std::result::Result<T, E>, default: T) -> (out: T)
	ensures out == (match r { Ok(x) => x, Err(_) => default });

pub assume_specification<T, E> [ std::result::Result::<Option<T>, E>::transpose ](r: std::result::Result<Option<T>, E>) -> (out: Option<std::result::Result<T, E>>)
	ensures out == (match r { Ok(Some(v)) => Some(Ok::<T, E>(v)), Ok(None) => None::<std::result::Result<T, E>>, Err(e) => Some(Err::<T, E>(e)) });
pub assume_specification<T, E> [ Option::<std::result::Result<T, E>>::transpose ](o: Option<std::result::Result<T, E>>) -> (out: std::result::Result<Option<T>, E>)
	ensures out == (match o { Some(Ok(v)) => Ok::<Option<T>, E>(Some(v)), Some(Err(e)) => Err::<Option<T>, E>(e), None => Ok::<Option<T>, E>(None) });
#[verifier::external_body]
pub fn slice_to_vec_u8(s: &[u8]) -> (r: Vec<u8>) ensures r@ == s@ { unimplemented!() }

pub assume_specification<T, U> [ Option::<T>::zip ](a: Option<T>, b: Option<U>) -> (out: Option<(T, U)>)
	ensures out == (match (a, b) { (Some(x), Some(y)) => Some((x, y)), _ => None::<(T, U)> });
