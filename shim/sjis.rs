// ---- shim/sjis.rs : encoding_rs::SHIFT_JIS strict decoder (tables trusted: sjis_decode is uninterpreted) and slice search ----
pub mod shim_sjis {
use vstd::prelude::*;
// the decoded text of a byte string, or None when it is not valid Shift-JIS (no replacement characters)
pub uninterp spec fn sjis_decode(b: Seq<u8>) -> Option<Seq<char>>;
pub struct ShiftJis;
#[allow(non_upper_case_globals)]
pub const SHIFT_JIS: ShiftJis = ShiftJis;
#[verifier::external_body]
pub struct SjisCow { _p: () }
impl SjisCow {
	pub uninterp spec fn text(&self) -> Seq<char>;
	#[verifier::external_body]
	pub fn to_string(&self) -> (r: String) ensures r@ == self.text() { unimplemented!() }
}
impl ShiftJis {
	#[verifier::external_body]
	pub fn decode_without_bom_handling_and_without_replacement(&self, b: &[u8]) -> (r: Option<SjisCow>)
		ensures (r is Some) == (sjis_decode(b@) is Some), r is Some ==> r->Some_0.text() == sjis_decode(b@)->Some_0
	{ unimplemented!() }
}
// index of the first occurrence of `x`, if any  (slice.iter().position(|&e| e == x))
pub open spec fn first_index_spec(s: Seq<u8>, x: u8) -> Option<int> {
	if exists|i: int| 0 <= i < s.len() && s[i] == x { Some(choose|i: int| 0 <= i < s.len() && s[i] == x && forall|j: int| 0 <= j < i ==> s[j] != x) } else { None }
}
#[verifier::external_body]
pub fn first_index_of(s: &[u8], x: u8) -> (r: Option<usize>)
	ensures r is Some ==> r->Some_0 < s@.len() && s@[r->Some_0 as int] == x && forall|j: int| 0 <= j < r->Some_0 ==> s@[j] != x,
		r is None ==> forall|j: int| 0 <= j < s@.len() ==> s@[j] != x,
{ unimplemented!() }
} // mod shim_sjis
pub use shim_sjis::*;
