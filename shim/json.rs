// ---- shim/json.rs : serde_json::{Value, Map, Number} with feature preserve_order, and String <-> bytes (assumed) ----
pub mod shim_json {
use vstd::prelude::*;
use super::*;
// a JSON number: only "is it an i64, and which" matters here
pub enum NumRepr { I(i64), Other }
pub struct Number { pub n: NumRepr }
impl Number {
	pub open spec fn as_i64_spec(&self) -> Option<i64> { match self.n { NumRepr::I(x) => Some(x), NumRepr::Other => None } }
	#[verifier::external_body]
	pub fn as_i64(&self) -> (r: Option<i64>) ensures r == self.as_i64_spec() { unimplemented!() }
}
impl vstd::std_specs::convert::FromSpecImpl<i32> for Number {
	open spec fn obeys_from_spec() -> bool { true }
	open spec fn from_spec(x: i32) -> Number { Number { n: NumRepr::I(x as i64) } }
}
impl From<i32> for Number { #[verifier::external_body] fn from(x: i32) -> (r: Number) { unimplemented!() } }

pub enum Value { Null, Bool(bool), Number(Number), String(String), Array(Vec<Value>), Object(JsMap) }
// serde_json::Map<String, Value> (named JsMap here: `Map` is vstd's spec map) with feature `preserve_order` (indexmap): an insertion-ordered association list
// (model fields: kv = entries in insertion order; dup = sticky ghost flag: some insert hit an existing key)
pub struct JsMap { pub kv: Vec<(String, Value)>, pub dup: bool }
pub open spec fn has_key(es: Seq<(String, Value)>, k: String) -> bool { exists|i: int| 0 <= i < es.len() && string_bytes(es[i].0) == string_bytes(k) }
impl JsMap {
	pub open spec fn view(&self) -> Seq<(String, Value)> { self.kv@ }
	#[verifier::external_body]
	pub fn new() -> (r: Self) ensures r@.len() == 0, !r.dup { unimplemented!() }
	// insert of a fresh key appends (insertion order is kept); an existing key keeps its position and gets the new value
	#[verifier::external_body]
	pub fn insert(&mut self, k: String, v: Value) -> (r: Option<Value>)
		ensures !has_key((*old(self))@, k) ==> (*final(self))@ == (*old(self))@.push((k, v)) && r is None && (*final(self)).dup == (*old(self)).dup,
			has_key((*old(self))@, k) ==> (*final(self))@.len() == (*old(self))@.len() && (*final(self)).dup,
	{ unimplemented!() }
	#[verifier::external_body]
	pub fn len(&self) -> (r: usize) ensures r == self@.len() { unimplemented!() }
	// the i-th entry in iteration order (`for (k, v) in map`)
	#[verifier::external_body]
	pub fn entry(&self, i: usize) -> (r: (&String, &Value)) requires i < self@.len() ensures *r.0 == self@[i as int].0, *r.1 == self@[i as int].1 { unimplemented!() }
}
// strings as byte sequences (UTF-8 validity and the byte view are uninterpreted)
// the UTF-8 bytes of a text (uninterpreted); &str and String both carry a Seq<char> view
pub uninterp spec fn utf8_of(cs: Seq<char>) -> Seq<u8>;
pub open spec fn str_bytes(s: &str) -> Seq<u8> { utf8_of(s@) }
pub open spec fn string_bytes(s: String) -> Seq<u8> { utf8_of(s@) }
pub uninterp spec fn valid_utf8(b: Seq<u8>) -> bool;
pub struct FromUtf8Error;
#[verifier::external_body]
pub fn string_from_utf8(buf: Vec<u8>) -> (r: std::result::Result<String, FromUtf8Error>)
	ensures (r is Ok) == valid_utf8(buf@), r is Ok ==> string_bytes(r->Ok_0) == buf@
{ unimplemented!() }
#[verifier::external_body]
pub fn str_len(s: &str) -> (r: usize) ensures r == str_bytes(s).len() { unimplemented!() }
impl vstd::std_specs::convert::FromSpecImpl<FromUtf8Error> for Error {
	open spec fn obeys_from_spec() -> bool { true }
	open spec fn from_spec(e: FromUtf8Error) -> Error { Error::Utf8 }
}
impl From<FromUtf8Error> for Error { #[verifier::external_body] fn from(e: FromUtf8Error) -> (r: Error) { unimplemented!() } }
} // mod shim_json
pub use shim_json::*;
