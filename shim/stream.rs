// ---- shim/stream.rs : assumed contracts for std::io::{Read, Seek}, byteorder on streams, and Xxh3 ----
pub mod shim_stream {
use vstd::prelude::*;
use super::*;

pub enum SeekFrom { Start(u64), End(i64), Current(i64) }

// std::io::Read with ghost bookkeeping:
//   rest()      the bytes the stream will still deliver (a stream is modelled as a fixed byte sequence;
//               an I/O error other than end-of-data is not modelled separately: it takes the same `?` path as EOF)
//   consumed()  every byte the stream has delivered so far, in order (concatenation of each buf[..n])
//   hit_eof()   sticky: some exact read found fewer bytes than it needed
//   inv()       implementor's representation invariant
// `read` is the only required method (as in std); read_exact / by_ref / the byteorder readers are std's /
// byteorder's provided methods and are ASSUMED to be what their docs say: read_exact = repeated `read` until
// the buffer is full, an early end of stream giving Err(UnexpectedEof).  Fragmentation (how many bytes
// each `read` returns) therefore does not appear in their contracts at all.
pub trait Read: Sized {
	spec fn rest(&self) -> Seq<u8>;
	spec fn consumed(&self) -> Seq<u8>;
	spec fn hit_eof(&self) -> bool;
	spec fn inv(&self) -> bool;
	// implementor-specific mode flag that reading never changes (for HashingReader: "hashing is on")
	spec fn stable(&self) -> bool;

	// one raw read: delivers SOME prefix of what remains (0 < k <= min(len, rest) unless nothing remains / len == 0)
	fn read(&mut self, buf: &mut [u8]) -> (res: std::result::Result<usize, IoError>)
		requires (*old(self)).inv(),
		ensures (*final(self)).inv(), (*final(self)).stable() == (*old(self)).stable(),
			final(buf)@.len() == old(buf)@.len(),
			res is Ok ==> res->Ok_0 <= final(buf)@.len() && res->Ok_0 <= (*old(self)).rest().len()
				&& final(buf)@.subrange(0, res->Ok_0 as int) == (*old(self)).rest().subrange(0, res->Ok_0 as int)
				&& (*final(self)).consumed() == (*old(self)).consumed() + final(buf)@.subrange(0, res->Ok_0 as int)
				&& (*final(self)).rest() == skip((*old(self)).rest(), res->Ok_0 as int),
			res is Err ==> (*final(self)).consumed() == (*old(self)).consumed() && (*final(self)).rest() == (*old(self)).rest(),
			(*old(self)).hit_eof() ==> (*final(self)).hit_eof();

	#[verifier::external_body]
	fn read_exact(&mut self, buf: &mut [u8]) -> (res: std::result::Result<(), IoError>)
		requires (*old(self)).inv(),
		ensures (*final(self)).inv(), (*final(self)).stable() == (*old(self)).stable(),
			final(buf)@.len() == old(buf)@.len(),
			(*old(self)).rest().len() >= old(buf)@.len() ==> res is Ok
				&& final(buf)@ == (*old(self)).rest().subrange(0, old(buf)@.len() as int)
				&& (*final(self)).rest() == skip((*old(self)).rest(), old(buf)@.len() as int)
				&& (*final(self)).consumed() == (*old(self)).consumed() + final(buf)@
				&& (*final(self)).hit_eof() == (*old(self)).hit_eof(),
			(*old(self)).rest().len() < old(buf)@.len() ==> res is Err && (*final(self)).hit_eof(),
	{ unimplemented!() }

	// std::io::Read::read_to_end: appends everything that remains (repeated `read` until it returns 0).
	// Always Ok in this model (a stream is a fixed byte sequence; I/O errors other than end-of-data are not modelled)
	#[verifier::external_body]
	fn read_to_end(&mut self, buf: &mut Vec<u8>) -> (res: std::result::Result<usize, IoError>)
		requires (*old(self)).inv(),
		ensures (*final(self)).inv(), (*final(self)).stable() == (*old(self)).stable(),
			res is Ok, final(buf)@ == old(buf)@ + (*old(self)).rest() && (*final(self)).rest() == Seq::<u8>::empty()
				&& (*final(self)).consumed() == (*old(self)).consumed() + (*old(self)).rest()
				&& (*final(self)).hit_eof() == (*old(self)).hit_eof(),
	{ unimplemented!() }

	fn by_ref(&mut self) -> (r: &mut Self)
		ensures *r == *old(self), *final(r) == *final(self)
	{ self }

	// byteorder::ReadBytesExt on a stream = read_exact of the width + big-endian decode
	#[verifier::external_body]
	fn read_u8(&mut self) -> (res: std::result::Result<u8, IoError>)
		requires (*old(self)).inv(),
		ensures (*final(self)).inv(), (*final(self)).stable() == (*old(self)).stable(),
			(*old(self)).rest().len() >= 1 ==> res is Ok && res->Ok_0 == be_u8((*old(self)).rest(), 0)
				&& (*final(self)).rest() == skip((*old(self)).rest(), 1)
				&& (*final(self)).consumed() == (*old(self)).consumed() + (*old(self)).rest().subrange(0, 1)
				&& (*final(self)).hit_eof() == (*old(self)).hit_eof(),
			(*old(self)).rest().len() < 1 ==> res is Err && (*final(self)).hit_eof(),
	{ unimplemented!() }
	#[verifier::external_body]
	fn read_u32<B>(&mut self) -> (res: std::result::Result<u32, IoError>)
		requires (*old(self)).inv(),
		ensures (*final(self)).inv(), (*final(self)).stable() == (*old(self)).stable(),
			(*old(self)).rest().len() >= 4 ==> res is Ok && res->Ok_0 == be_u32((*old(self)).rest(), 0)
				&& (*final(self)).rest() == skip((*old(self)).rest(), 4)
				&& (*final(self)).consumed() == (*old(self)).consumed() + (*old(self)).rest().subrange(0, 4)
				&& (*final(self)).hit_eof() == (*old(self)).hit_eof(),
			(*old(self)).rest().len() < 4 ==> res is Err && (*final(self)).hit_eof(),
	{ unimplemented!() }
	#[verifier::external_body]
	fn read_i32<B>(&mut self) -> (res: std::result::Result<i32, IoError>)
		requires (*old(self)).inv(),
		ensures (*final(self)).inv(), (*final(self)).stable() == (*old(self)).stable(),
			(*old(self)).rest().len() >= 4 ==> res is Ok && res->Ok_0 == be_i32((*old(self)).rest(), 0)
				&& (*final(self)).rest() == skip((*old(self)).rest(), 4)
				&& (*final(self)).consumed() == (*old(self)).consumed() + (*old(self)).rest().subrange(0, 4)
				&& (*final(self)).hit_eof() == (*old(self)).hit_eof(),
			(*old(self)).rest().len() < 4 ==> res is Err && (*final(self)).hit_eof(),
	{ unimplemented!() }
}

// a `&mut R` is itself a reader (std: impl<R: Read + ?Sized> Read for &mut R)
impl<R: Read> Read for &mut R {
	open spec fn rest(&self) -> Seq<u8> { (**self).rest() }
	open spec fn consumed(&self) -> Seq<u8> { (**self).consumed() }
	open spec fn hit_eof(&self) -> bool { (**self).hit_eof() }
	open spec fn stable(&self) -> bool { (**self).stable() }
	open spec fn inv(&self) -> bool { (**self).inv() }
	#[verifier::external_body]
	fn read(&mut self, buf: &mut [u8]) -> (res: std::result::Result<usize, IoError>) { unimplemented!() }
}

pub trait Seek: Read {
	// a seek delivers no bytes; afterwards the stream position is unknown to the ghost bookkeeping
	fn seek(&mut self, pos: SeekFrom) -> (res: std::result::Result<u64, IoError>)
		requires (*old(self)).inv(),
		ensures (*final(self)).inv(), (*final(self)).consumed() == (*old(self)).consumed(),
			(*final(self)).hit_eof() == (*old(self)).hit_eof(),
			// Seek::seek(Current(k)) moves the position by k with no bounds check (may pass the end)
			res is Ok && pos is Current && pos->Current_0 >= 0 ==> (*final(self)).rest() == (if pos->Current_0 <= (*old(self)).rest().len() { skip((*old(self)).rest(), pos->Current_0 as int) } else { Seq::<u8>::empty() });
}

// xxhash_rust::xxh3::Xxh3 (the hash function itself is trusted: xxh3_64 is uninterpreted)
pub uninterp spec fn xxh3_64(bytes: Seq<u8>) -> u64;
#[verifier::external_body]
pub struct Xxh3 { _p: () }
impl Xxh3 {
	pub uninterp spec fn fed(&self) -> Seq<u8>;
	#[verifier::external_body]
	pub fn new() -> (r: Self) ensures r.fed() == Seq::<u8>::empty() { unimplemented!() }
	#[verifier::external_body]
	pub fn update(&mut self, b: &[u8]) ensures (*final(self)).fed() == (*old(self)).fed() + b@ { unimplemented!() }
	#[verifier::external_body]
	pub fn digest(&self) -> (r: u64) ensures r == xxh3_64(self.fed()) { unimplemented!() }
}
} // mod shim_stream
pub use shim_stream::*;
