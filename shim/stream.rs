// ---- shim/stream.rs : assumed contracts for std::io::{Read, Seek}, byteorder on streams, and Xxh3 ----
pub mod shim_stream {
use vstd::prelude::*;
use super::*;

pub enum SeekFrom { Start(u64), End(i64), Current(i64) }

// std::io::Read with ghost bookkeeping:
//   consumed()  every byte the stream has delivered so far, in order (concatenation of each buf[..n])
//   hit_eof()   sticky: some read found fewer bytes than it needed
//   inv()       implementor's representation invariant
// `read` is the only required method (as in std); read_exact / by_ref are std's provided methods and are
// ASSUMED to be what std documents: read_exact = repeated `read` until the buffer is full, an early end
// of stream giving Err(UnexpectedEof).  Fragmentation (how many bytes each `read` returns) therefore
// does not appear in read_exact's contract at all.
pub trait Read: Sized {
	spec fn consumed(&self) -> Seq<u8>;
	spec fn hit_eof(&self) -> bool;
	spec fn inv(&self) -> bool;

	fn read(&mut self, buf: &mut [u8]) -> (res: std::result::Result<usize, IoError>)
		requires (*old(self)).inv(),
		ensures (*final(self)).inv(),
			final(buf)@.len() == old(buf)@.len(),
			res is Ok ==> res->Ok_0 <= final(buf)@.len() && (*final(self)).consumed() == (*old(self)).consumed() + final(buf)@.subrange(0, res->Ok_0 as int),
			res is Err ==> (*final(self)).consumed() == (*old(self)).consumed(),
			(*old(self)).hit_eof() ==> (*final(self)).hit_eof();

	#[verifier::external_body]
	fn read_exact(&mut self, buf: &mut [u8]) -> (res: std::result::Result<(), IoError>)
		requires (*old(self)).inv(),
		ensures (*final(self)).inv(),
			final(buf)@.len() == old(buf)@.len(),
			res is Ok ==> (*final(self)).consumed() == (*old(self)).consumed() + final(buf)@,
			res is Ok ==> (*final(self)).hit_eof() == (*old(self)).hit_eof(),
			res is Err ==> (*old(self)).consumed().is_prefix_of((*final(self)).consumed()),
			(*old(self)).hit_eof() ==> (*final(self)).hit_eof(),
	{ unimplemented!() }

	fn by_ref(&mut self) -> (r: &mut Self)
		ensures *r == *old(self), *final(r) == *final(self)
	{ self }
}

// a `&mut R` is itself a reader (std: impl<R: Read + ?Sized> Read for &mut R)
impl<R: Read> Read for &mut R {
	open spec fn consumed(&self) -> Seq<u8> { (**self).consumed() }
	open spec fn hit_eof(&self) -> bool { (**self).hit_eof() }
	open spec fn inv(&self) -> bool { (**self).inv() }
	#[verifier::external_body]
	fn read(&mut self, buf: &mut [u8]) -> (res: std::result::Result<usize, IoError>) { unimplemented!() }
}

pub trait Seek: Read {
	// a seek delivers no bytes; afterwards the stream position is unknown to the ghost bookkeeping
	fn seek(&mut self, pos: SeekFrom) -> (res: std::result::Result<u64, IoError>)
		requires (*old(self)).inv(),
		ensures (*final(self)).inv(), (*final(self)).consumed() == (*old(self)).consumed(),
			(*old(self)).hit_eof() ==> (*final(self)).hit_eof();
}

// xxhash_rust::xxh3::Xxh3 (the hash function itself is trusted: xxh3_64 is uninterpreted)
pub uninterp spec fn xxh3_64(bytes: Seq<u8>) -> u64;
#[verifier::external_body]
pub struct Xxh3 { _p: () }
impl Xxh3 {
	pub uninterp spec fn fed(&self) -> Seq<u8>;
	#[verifier::external_body]
	pub fn new() -> (r: Self) ensures r.fed() == Seq::<u8>::empty() { unimplemented!() }
	#[verifier::external_body]
	pub fn update(&mut self, b: &[u8]) ensures (*final(self)).fed() == (*old(self)).fed() + b@ { unimplemented!() }
	#[verifier::external_body]
	pub fn digest(&self) -> (r: u64) ensures r == xxh3_64(self.fed()) { unimplemented!() }
}
} // mod shim_stream
pub use shim_stream::*;
