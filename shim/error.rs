// ---- shim/error.rs : peppi's io::Error enum (only its shape matters) and the panic model ----
pub mod shim_error {
use vstd::prelude::*;
use super::*;
pub enum Error { InvalidData, Io(IoError), Arrow, Json, Utf8 }
impl vstd::std_specs::convert::FromSpecImpl<IoError> for Error {
	open spec fn obeys_from_spec() -> bool { true }
	open spec fn from_spec(e: IoError) -> Error { Error::Io(e) }
}
impl From<IoError> for Error {
	#[verifier::external_body]
	fn from(e: IoError) -> (r: Error) { unimplemented!() }
}
// err!(..) builds an InvalidData error; its text is irrelevant to every property
#[verifier::external_body]
pub fn mk_err() -> (r: Error) ensures r is InvalidData { unimplemented!() }
// assert!/assert_eq!/unwrap-style panics: ONE model — the condition is a proof obligation (DESIGN §3.5)
pub fn rt_assert(c: bool) requires c {}
} // mod shim_error
pub use shim_error::*;
