// ---- shim/container.rs : assumed contracts for the libraries the .slpp container code calls: tar (Builder, Header,
// Archive), serde_json (to_vec / from_reader), arrow2 IPC (FileWriter, StreamReader), std::io::Read::read_to_end ----
// Every library is modelled by ghost state and uninterpreted functions: an archive is the sequence of its entries
// (header model + content); JSON text and Arrow IPC bytes are uninterpreted functions of the value serialised.
pub mod shim_container {
use vstd::prelude::*;
use super::*;

// serde_json::Map<String, Value>: opaque
#[verifier::external_body]
pub struct JsMap { _p: () }
// ------------------------------------------------------------------ the error type `Box<dyn Error>` (sigsub -> BoxError)
pub struct BoxError { pub _p: () }
impl std::fmt::Debug for BoxError { #[verifier::external_body] fn fmt(&self, f: &mut std::fmt::Formatter<'_>) -> std::fmt::Result { unimplemented!() } }
pub struct JsonError { pub _p: () }
pub struct ArrowError { pub _p: () }
pub struct IntoInnerError { pub _p: () }
impl vstd::std_specs::convert::FromSpecImpl<IoError> for BoxError { open spec fn obeys_from_spec() -> bool { false } open spec fn from_spec(e: IoError) -> BoxError { arbitrary() } }
impl From<IoError> for BoxError { #[verifier::external_body] fn from(e: IoError) -> (r: BoxError) { unimplemented!() } }
impl vstd::std_specs::convert::FromSpecImpl<JsonError> for BoxError { open spec fn obeys_from_spec() -> bool { false } open spec fn from_spec(e: JsonError) -> BoxError { arbitrary() } }
impl From<JsonError> for BoxError { #[verifier::external_body] fn from(e: JsonError) -> (r: BoxError) { unimplemented!() } }
impl vstd::std_specs::convert::FromSpecImpl<ArrowError> for BoxError { open spec fn obeys_from_spec() -> bool { false } open spec fn from_spec(e: ArrowError) -> BoxError { arbitrary() } }
impl From<ArrowError> for BoxError { #[verifier::external_body] fn from(e: ArrowError) -> (r: BoxError) { unimplemented!() } }
impl vstd::std_specs::convert::FromSpecImpl<IntoInnerError> for BoxError { open spec fn obeys_from_spec() -> bool { false } open spec fn from_spec(e: IntoInnerError) -> BoxError { arbitrary() } }
impl From<IntoInnerError> for BoxError { #[verifier::external_body] fn from(e: IntoInnerError) -> (r: BoxError) { unimplemented!() } }
impl vstd::std_specs::convert::FromSpecImpl<Error> for BoxError { open spec fn obeys_from_spec() -> bool { false } open spec fn from_spec(e: Error) -> BoxError { arbitrary() } }
impl From<Error> for BoxError { #[verifier::external_body] fn from(e: Error) -> (r: BoxError) { unimplemented!() } }
impl vstd::std_specs::convert::FromSpecImpl<JsonError> for Error { open spec fn obeys_from_spec() -> bool { true } open spec fn from_spec(e: JsonError) -> Error { Error::Json } }
impl From<JsonError> for Error { #[verifier::external_body] fn from(e: JsonError) -> (r: Error) { unimplemented!() } }
impl vstd::std_specs::convert::FromSpecImpl<ArrowError> for Error { open spec fn obeys_from_spec() -> bool { true } open spec fn from_spec(e: ArrowError) -> Error { Error::Arrow } }
impl From<ArrowError> for Error { #[verifier::external_body] fn from(e: ArrowError) -> (r: Error) { unimplemented!() } }
// `buf.len().try_into()?` (usize -> u64): never fails on the supported targets
#[verifier::external_body]
pub fn usize_try_into_u64(n: usize) -> (r: std::result::Result<u64, BoxError>) ensures r is Ok, r->Ok_0 == n { unimplemented!() }

// ------------------------------------------------------------------ tar
// header model: what peppi sets; `zeroed_gnu`: every other field is the all-zero GNU default (no mtime/uid/...: deterministic);
// `cksum_ok`: set_cksum() was called after the last change (a header with a stale checksum makes the archive unreadable)
pub struct HeaderM { pub path: Seq<char>, pub size: u64, pub mode: u32, pub zeroed_gnu: bool, pub cksum_ok: bool }
pub struct TarEntry { pub header: HeaderM, pub data: Seq<u8> }
pub open spec fn entry(path: Seq<char>, data: Seq<u8>) -> TarEntry {
	TarEntry { header: HeaderM { path, size: data.len() as u64, mode: 0o644, zeroed_gnu: true, cksum_ok: true }, data }
}
// the bytes of a finished archive holding these entries (512-byte headers, padded content, two zero blocks)
pub uninterp spec fn tar_bytes(entries: Seq<TarEntry>) -> Seq<u8>;
pub trait AsPath: Sized { spec fn path_view(&self) -> Seq<char>; }
impl AsPath for &str { open spec fn path_view(&self) -> Seq<char> { self@ } }
pub mod tar {
	use vstd::prelude::*;
	use super::*;
	pub use super::tar_read::{Archive, Entries, Entry, EntryPath};
	pub struct Header { pub m: Ghost<HeaderM> }
	impl Header {
		#[verifier::external_body]
		pub fn new_gnu() -> (r: Header) ensures r.m@ == (HeaderM { path: Seq::<char>::empty(), size: 0, mode: 0, zeroed_gnu: true, cksum_ok: false }) { unimplemented!() }
		#[verifier::external_body]
		pub fn set_size(&mut self, size: u64) ensures final(self).m@ == (HeaderM { size, cksum_ok: false, ..old(self).m@ }) { unimplemented!() }
		#[verifier::external_body]
		pub fn set_path<P: AsPath>(&mut self, p: P) -> (r: std::result::Result<(), IoError>)
			ensures r is Ok ==> final(self).m@ == (HeaderM { path: p.path_view(), cksum_ok: false, ..old(self).m@ })
		{ unimplemented!() }
		#[verifier::external_body]
		pub fn set_mode(&mut self, mode: u32) ensures final(self).m@ == (HeaderM { mode, cksum_ok: false, ..old(self).m@ }) { unimplemented!() }
		#[verifier::external_body]
		pub fn set_cksum(&mut self) ensures final(self).m@ == (HeaderM { cksum_ok: true, ..old(self).m@ }) { unimplemented!() }
	}
	// Builder<W>: `entries` = what has been appended; `base` = what the sink held before
	pub struct Builder<W> { pub w: W, pub entries: Ghost<Seq<TarEntry>> }
	impl<W: Write> Builder<W> {
		#[verifier::external_body]
		pub fn new(w: W) -> (r: Self) ensures r.w == w, r.entries@ == Seq::<TarEntry>::empty() { unimplemented!() }
		// append(header, data): one more entry, exactly as given
		#[verifier::external_body]
		pub fn append(&mut self, header: &Header, data: &[u8]) -> (r: std::result::Result<(), IoError>)
			ensures final(self).w == old(self).w,
				r is Ok ==> final(self).entries@ == old(self).entries@.push(TarEntry { header: header.m@, data: data@ })
		{ unimplemented!() }
		// into_inner(): finishes the archive and hands the sink back
		#[verifier::external_body]
		pub fn into_inner(self) -> (r: std::result::Result<W, IoError>)
			ensures r is Ok ==> r->Ok_0.written() == self.w.written() + tar_bytes(self.entries@)
		{ unimplemented!() }
	}
}

// Vec<u8> as std::io::Write: appends
impl Write for Vec<u8> {
	open spec fn written(&self) -> Seq<u8> { self@ }
	#[verifier::external_body]
	fn write_all(&mut self, buf: &[u8]) -> (res: std::result::Result<(), IoError>) { unimplemented!() }
}
#[verifier::external_body]
pub fn u32_to_le_vec(x: u32) -> (r: Vec<u8>) ensures r@ == le_u32(x) { unimplemented!() }
pub open spec fn le_u32(x: u32) -> Seq<u8> { seq![(x % 256) as u8, ((x / 256) % 256) as u8, ((x / 65536) % 256) as u8, (x / 16777216) as u8] }

// ------------------------------------------------------------------ arrow2 IPC (file writer / stream reader)
pub struct Schema { pub fields: Vec<Field> }
impl Schema {
	#[verifier::external_body]
	pub fn from(fields: Vec<Field>) -> (r: Schema) ensures r.fields == fields { unimplemented!() }
}
pub struct Chunk { pub arrays: Vec<ArrayBox> }
impl Chunk {
	#[verifier::external_body]
	pub fn new(arrays: Vec<ArrayBox>) -> (r: Chunk) ensures r.arrays == arrays { unimplemented!() }
	#[verifier::external_body]
	pub fn arrays(&self) -> (r: &Vec<ArrayBox>) ensures *r == self.arrays { unimplemented!() }
}
#[derive(Clone, Copy)]
pub enum Compression { LZ4, ZSTD }
pub struct WriteOptions { pub compression: Option<Compression> }
// bytes of an Arrow IPC *file* holding one record batch with the single column `frame` = this struct array
pub uninterp spec fn ipc_file(batch: StructArray, compression: Option<Compression>) -> Seq<u8>;
pub struct IpcField { pub _p: () }
// FileWriter<&mut Vec<u8>>.  The sink is a borrowed buffer; its content after the writer is done is a PROPHECY fixed at creation
// (`out`): try_new promises the buffer will hold `out`, finish() reveals what `out` is.  Nothing is known about the buffer if
// finish() is not reached or fails.
pub struct FileWriter { pub out: Ghost<Seq<u8>>, pub schema: Schema, pub compression: Option<Compression>, pub batches: Ghost<Seq<Seq<ArrayBox>>> }
impl FileWriter {
	#[verifier::external_body]
	pub fn try_new(w: &mut Vec<u8>, schema: Schema, ipc_fields: Option<Vec<IpcField>>, options: WriteOptions) -> (r: std::result::Result<FileWriter, ArrowError>)
		requires old(w)@.len() == 0,
		ensures r is Ok ==> final(w)@ == r->Ok_0.out@ && r->Ok_0.schema == schema && r->Ok_0.compression == options.compression
			&& r->Ok_0.batches@ == Seq::<Seq<ArrayBox>>::empty()
	{ unimplemented!() }
	#[verifier::external_body]
	pub fn write(&mut self, chunk: &Chunk, ipc_fields: Option<&[IpcField]>) -> (r: std::result::Result<(), ArrowError>)
		ensures final(self).out == old(self).out, final(self).schema == old(self).schema, final(self).compression == old(self).compression,
			r is Ok ==> final(self).batches@ == old(self).batches@.push(chunk.arrays@)
	{ unimplemented!() }
	// finish(): footer written; the file holds exactly the batches written, under the schema given at creation.
	// Specified for the shape peppi uses: one batch, one non-nullable column named "frame" of the batch's struct type.
	#[verifier::external_body]
	pub fn finish(&mut self) -> (r: std::result::Result<(), ArrowError>)
		ensures final(self).out == old(self).out,
			r is Ok && old(self).batches@.len() == 1 && old(self).batches@[0].len() == 1 && old(self).batches@[0][0] is Struct
				&& old(self).schema.fields@.len() == 1 && old(self).schema.fields@[0].name@ == "frame"@ && !old(self).schema.fields@[0].is_nullable
				&& dtv(old(self).schema.fields@[0].data_type) == old(self).batches@[0][0].adt()
				==> old(self).out@ == ipc_file(old(self).batches@[0][0]->Struct_0, old(self).compression)
	{ unimplemented!() }
}

// ------------------------------------------------------------------ serde_json
// JSON text of a value: an uninterpreted function per serialised type (serde_json::to_vec is deterministic)
pub trait JsonSpec: Sized { spec fn json(&self) -> Seq<u8>; }
pub mod serde_json {
	use vstd::prelude::*;
	use super::*;
	pub use super::serde_json_read::from_reader;
	// serde_json::Value, as far as peppi looks at it
	pub enum Value { Null, Object(JsMap), Other }
	#[verifier::external_body]
	pub fn to_vec<T: JsonSpec>(x: &T) -> (r: std::result::Result<Vec<u8>, JsonError>)
		ensures r is Ok ==> r->Ok_0@ == x.json()
	{ unimplemented!() }
}

// a byte slice is a reader over its content (std: impl Read for &[u8])
impl Read for &[u8] {
	open spec fn rest(&self) -> Seq<u8> { (*self)@ }
	uninterp spec fn consumed(&self) -> Seq<u8>;
	uninterp spec fn hit_eof(&self) -> bool;
	open spec fn inv(&self) -> bool { true }
	open spec fn stable(&self) -> bool { true }
	#[verifier::external_body]
	fn read(&mut self, buf: &mut [u8]) -> (res: std::result::Result<usize, IoError>) { unimplemented!() }
}

// ------------------------------------------------------------------ reading: tar::Archive, serde_json::from_reader, arrow2 StreamReader
// what iterating an archive over these bytes yields: entries in file order; `Bad` = the iterator reports an I/O / format error there
pub enum ArchiveItem { Good(TarEntry), Bad }
pub uninterp spec fn archive_items(bytes: Seq<u8>) -> Seq<ArchiveItem>;
// Path::file_name() of an entry path, as text (None when there is none / it is not UTF-8)
pub uninterp spec fn file_name_of(path: Seq<char>) -> Option<Seq<char>>;
pub mod tar_read {
	use vstd::prelude::*;
	use super::*;
	pub struct Archive<R> { pub r: R }
	impl<R: Read> Archive<R> {
		#[verifier::external_body]
		pub fn new(r: R) -> (res: Self) ensures res.r == r { unimplemented!() }
		#[verifier::external_body]
		pub fn entries(&mut self) -> (res: std::result::Result<Entries, IoError>)
			ensures res is Ok, res->Ok_0.rem@ == archive_items(old(self).r.rest())
		{ unimplemented!() }
	}
	pub struct Entries { pub rem: Ghost<Seq<ArchiveItem>> }
	impl Entries {
		#[verifier::external_body]
		pub fn next(&mut self) -> (res: Option<std::result::Result<Entry, IoError>>)
			ensures
				old(self).rem@.len() == 0 ==> res is None && final(self).rem@ == old(self).rem@,
				old(self).rem@.len() > 0 ==> res is Some && final(self).rem@ == old(self).rem@.subrange(1, old(self).rem@.len() as int)
					&& (res->Some_0 is Ok) == (old(self).rem@[0] is Good)
					&& (res->Some_0 is Ok ==> res->Some_0->Ok_0.e@ == old(self).rem@[0]->Good_0 && res->Some_0->Ok_0.pos@ == 0 && !res->Some_0->Ok_0.eof@
						&& res->Some_0->Ok_0.rest() == old(self).rem@[0]->Good_0.data),
		{ unimplemented!() }
	}
	// one archive member, readable: delivers its content
	pub struct Entry { pub e: Ghost<TarEntry>, pub pos: Ghost<int>, pub eof: Ghost<bool> }
	impl Entry {
		#[verifier::external_body]
		// Entry::size(): the size recorded in the member's header (NOT the number of bytes actually present in a cut archive)
		#[verifier::external_body]
		pub fn size(&self) -> (res: u64) ensures res == self.e@.header.size { unimplemented!() }
		#[verifier::external_body]
		pub fn path(&self) -> (res: std::result::Result<EntryPath, IoError>) ensures res is Ok, res->Ok_0.p@ == self.e@.header.path { unimplemented!() }
	}
	impl Read for Entry {
		open spec fn rest(&self) -> Seq<u8> { if 0 <= self.pos@ <= self.e@.data.len() { self.e@.data.subrange(self.pos@, self.e@.data.len() as int) } else { Seq::<u8>::empty() } }
		uninterp spec fn consumed(&self) -> Seq<u8>;
		open spec fn hit_eof(&self) -> bool { self.eof@ }
		open spec fn inv(&self) -> bool { true }
		open spec fn stable(&self) -> bool { true }
		#[verifier::external_body]
		fn read(&mut self, buf: &mut [u8]) -> (res: std::result::Result<usize, IoError>) { unimplemented!() }
	}
	pub struct EntryPath { pub p: Ghost<Seq<char>> }
	impl EntryPath {
		// `path.file_name().and_then(|n| n.to_str())`
		#[verifier::external_body]
		pub fn file_name_str(&self) -> (res: Option<String>)
			ensures (res is Some) == (file_name_of(self.p@) is Some), res is Some ==> res->Some_0@ == file_name_of(self.p@)->Some_0
		{ unimplemented!() }
	}
}
// `match name { Some("lit") => .. }` (rule R22): the name is present and equals the literal
#[verifier::external_body]
pub fn opt_str_is(o: &Option<String>, lit: &str) -> (r: bool) ensures r == (*o is Some && o->Some_0@ == lit@) { unimplemented!() }

// serde_json::from_reader: the value the text parses to, if it parses (a function of the bytes)
pub trait JsonParse: Sized { spec fn parse_spec(b: Seq<u8>) -> Option<Self>; }
pub mod serde_json_read {
	use vstd::prelude::*;
	use super::*;
	#[verifier::external_body]
	pub fn from_reader<R: Read, T: JsonParse>(r: R) -> (res: std::result::Result<T, JsonError>)
		requires r.inv()
		ensures (res is Ok) == (T::parse_spec(r.rest()) is Some), res is Ok ==> res->Ok_0 == T::parse_spec(r.rest())->Some_0
	{ unimplemented!() }
}

// arrow2 IPC stream reader
pub struct StreamMetaM { pub _p: () }
pub uninterp spec fn ipc_meta_ok(rest: Seq<u8>) -> bool;
pub uninterp spec fn ipc_meta(rest: Seq<u8>) -> StreamMetaM;
pub uninterp spec fn ipc_after_meta(rest: Seq<u8>) -> Seq<u8>;
pub enum StreamItem { Chunk(Seq<ArrayBox>), Waiting, Failed }
// what StreamReader yields for this metadata and the bytes after it
pub uninterp spec fn ipc_stream_items(meta: StreamMetaM, rest: Seq<u8>) -> Seq<StreamItem>;
pub struct StreamMetadata { pub m: Ghost<StreamMetaM> }
#[verifier::external_body]
pub fn read_stream_metadata<R: Read>(r: &mut R) -> (res: std::result::Result<StreamMetadata, ArrowError>)
	requires (*old(r)).inv()
	ensures (*final(r)).inv(), (res is Ok) == ipc_meta_ok((*old(r)).rest()),
		res is Ok ==> res->Ok_0.m@ == ipc_meta((*old(r)).rest()) && (*final(r)).rest() == ipc_after_meta((*old(r)).rest())
{ unimplemented!() }
pub enum StreamState { Waiting, Some(Chunk) }
pub struct StreamReader { pub rem: Ghost<Seq<StreamItem>> }
impl StreamReader {
	#[verifier::external_body]
	pub fn new<R: Read>(r: R, metadata: StreamMetadata, projection: Option<Vec<usize>>) -> (res: Self)
		ensures res.rem@ == ipc_stream_items(metadata.m@, r.rest())
	{ unimplemented!() }
	// Iterator::next: Waiting repeats for ever (no more data will arrive from a file); Failed is an Err item
	#[verifier::external_body]
	pub fn next(&mut self) -> (res: Option<std::result::Result<StreamState, ArrowError>>)
		ensures
			old(self).rem@.len() == 0 ==> res is None && final(self).rem@ == old(self).rem@,
			old(self).rem@.len() > 0 ==> res is Some && final(self).rem@ == old(self).rem@.subrange(1, old(self).rem@.len() as int) && (match old(self).rem@[0] {
				StreamItem::Chunk(a) => res->Some_0 is Ok && res->Some_0->Ok_0 is Some && res->Some_0->Ok_0->Some_0.arrays@ == a,
				StreamItem::Waiting => res->Some_0 is Ok && res->Some_0->Ok_0 is Waiting,
				StreamItem::Failed => res->Some_0 is Err,
			}),
	{ unimplemented!() }
}
} // mod shim_container
pub use shim_container::*;
