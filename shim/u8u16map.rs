// ---- shim/u8u16map.rs : std::collections::HashMap<u8, u16> as a finite map (assumed) ----
pub mod shim_u8u16map {
use vstd::prelude::*;
// FromIterator for HashMap inserts the pairs in order: a later pair with the same key wins
pub open spec fn pairs_map(s: Seq<(u8, u16)>) -> Map<u8, u16> decreases s.len() {
	if s.len() == 0 { Map::empty() } else { pairs_map(s.drop_last()).insert(s.last().0, s.last().1) }
}
#[verifier::external_body]
pub struct U8U16Map { _p: () }
impl U8U16Map {
	pub uninterp spec fn m(&self) -> Map<u8, u16>;
	// `map[&k]` (panics when absent)
	#[verifier::external_body]
	pub fn at(&self, k: &u8) -> (r: u16) requires self.m().contains_key(*k) ensures r == self.m()[*k] { unimplemented!() }
	#[verifier::external_body]
	pub fn get(&self, k: &u8) -> (r: Option<&u16>)
		ensures r is Some == self.m().contains_key(*k), r is Some ==> *r->Some_0 == self.m()[*k]
	{ unimplemented!() }
}
#[verifier::external_body]
pub fn pairs_to_map(v: &Vec<(u8, u16)>) -> (r: U8U16Map) ensures r.m() == pairs_map(v@) { unimplemented!() }
}
pub use shim_u8u16map::*;
