// ---- shim/vec_iter.rs : Vec<T>::into_iter() consumed by map/collect (rule R9y): yields the items in order, moving them out (assumed, std) ----
pub mod shim_vec_iter {
use vstd::prelude::*;
pub struct VecIntoIter<T> { pub rem: Vec<T> }
#[verifier::external_body]
pub fn vec_into_iter<T>(v: Vec<T>) -> (r: VecIntoIter<T>) ensures r.rem@ == v@ { unimplemented!() }
impl<T> VecIntoIter<T> {
	#[verifier::external_body]
	pub fn next(&mut self) -> (r: Option<T>)
		ensures
			old(self).rem@.len() == 0 ==> r is None && final(self).rem@ == old(self).rem@,
			old(self).rem@.len() > 0 ==> r == Some(old(self).rem@[0]) && final(self).rem@ == old(self).rem@.subrange(1, old(self).rem@.len() as int),
	{ unimplemented!() }
}
} // mod shim_vec_iter
pub use shim_vec_iter::*;
