// ---- shim/arrow_struct.rs : assumed contracts for arrow2 DataType / Field / StructArray / ListArray / Box<dyn Array> ----
// The exec types are small stand-ins with the same constructors and accessors peppi uses; their spec
// models (DTm for data types, the enum ArrayBox for `Box<dyn Array>`) are what the C14 contracts talk
// about.  Preconditions of `StructArray::new` / `ListArray::new` are the panic conditions documented by
// arrow2 0.17 (`try_new(..).unwrap()`), stated over the models.
pub mod shim_arrow_struct {
use vstd::prelude::*;
use super::*;

pub enum DataType { Int8, UInt8, Int16, UInt16, Int32, UInt32, Float32, Struct(Vec<Field>), List(Box<Field>) }
pub struct Field { pub name: String, pub data_type: DataType, pub is_nullable: bool, pub metadata: FieldMetadata }
pub struct FieldMetadata { pub _p: () }
impl Default for FieldMetadata { #[verifier::external_body] fn default() -> (r: Self) { unimplemented!() } }

// the mathematical model of a data type: names, nesting, order, primitive types
pub enum DTm { Int8, UInt8, Int16, UInt16, Int32, UInt32, Float32, Struct(Seq<FieldM>), List(Box<FieldM>) }
pub struct FieldM { pub name: Seq<char>, pub dt: DTm, pub nullable: bool }

pub open spec fn dtv(d: DataType) -> DTm decreases d {
	match d {
		DataType::Int8 => DTm::Int8,
		DataType::UInt8 => DTm::UInt8,
		DataType::Int16 => DTm::Int16,
		DataType::UInt16 => DTm::UInt16,
		DataType::Int32 => DTm::Int32,
		DataType::UInt32 => DTm::UInt32,
		DataType::Float32 => DTm::Float32,
		DataType::Struct(f) => DTm::Struct(Seq::new(f@.len(), |i: int| if 0 <= i < f@.len() { fv(f@[i]) } else { arbitrary() })),
		DataType::List(b) => DTm::List(Box::new(fv(*b))),
	}
}
pub open spec fn fv(f: Field) -> FieldM decreases f {
	FieldM { name: f.name@, dt: dtv(f.data_type), nullable: f.is_nullable }
}
pub open spec fn fm(name: Seq<char>, dt: DTm) -> FieldM { FieldM { name, dt, nullable: false } }

// Field::new<T: Into<String>>: the name is the text passed in
pub trait IntoName: Sized { spec fn name_view(&self) -> Seq<char>; }
impl IntoName for &str { open spec fn name_view(&self) -> Seq<char> { self@ } }
impl IntoName for String { open spec fn name_view(&self) -> Seq<char> { self@ } }
impl Field {
	#[verifier::external_body]
	pub fn new<T: IntoName>(name: T, data_type: DataType, is_nullable: bool) -> (r: Field)
		ensures r.name@ == name.name_view(), r.data_type == data_type, r.is_nullable == is_nullable
	{ unimplemented!() }
}
// deep copy: indistinguishable from the original
impl Clone for DataType {
	#[verifier::external_body]
	fn clone(&self) -> (r: Self) ensures r == *self { unimplemented!() }
}
// `"leader" == field.name` (str / String comparison): equality of the texts
#[verifier::external_body]
pub fn name_eq(a: &str, b: &String) -> (r: bool) ensures r == (a@ == b@) { unimplemented!() }

// arrow2::offset::OffsetsBuffer<i32>: view = the offsets (one more than rows)
pub struct OffsetsBuffer<T> { pub v: Vec<T> }
impl OffsetsBuffer<i32> {
	pub open spec fn view(&self) -> Seq<i32> { self.v@ }
}
impl Clone for OffsetsBuffer<i32> {
	#[verifier::external_body]
	fn clone(&self) -> (r: Self) ensures r == *self { unimplemented!() }
}

// Box<dyn Array>, restricted to the array kinds peppi builds
pub enum ArrayBox {
	I8(PrimitiveArray<i8>), U8(PrimitiveArray<u8>), I16(PrimitiveArray<i16>), U16(PrimitiveArray<u16>),
	I32(PrimitiveArray<i32>), U32(PrimitiveArray<u32>), F32(PrimitiveArray<f32>),
	Struct(StructArray), List(ListArray<i32>),
}
pub struct StructArray { pub data_type: DataType, pub values: Vec<ArrayBox>, pub validity: Option<Bitmap> }
pub struct ListArray<O> { pub data_type: DataType, pub offsets: OffsetsBuffer<O>, pub values: Box<ArrayBox>, pub validity: Option<Bitmap> }

impl ArrayBox {
	// Array::data_type(), as a model
	pub open spec fn adt(self) -> DTm {
		match self {
			ArrayBox::I8(_) => DTm::Int8, ArrayBox::U8(_) => DTm::UInt8, ArrayBox::I16(_) => DTm::Int16, ArrayBox::U16(_) => DTm::UInt16,
			ArrayBox::I32(_) => DTm::Int32, ArrayBox::U32(_) => DTm::UInt32, ArrayBox::F32(_) => DTm::Float32,
			ArrayBox::Struct(s) => dtv(s.data_type),
			ArrayBox::List(l) => dtv(l.data_type),
		}
	}
	// Array::len(): rows
	pub open spec fn alen(self) -> nat decreases self {
		match self {
			ArrayBox::I8(p) => p@.len(), ArrayBox::U8(p) => p@.len(), ArrayBox::I16(p) => p@.len(), ArrayBox::U16(p) => p@.len(),
			ArrayBox::I32(p) => p@.len(), ArrayBox::U32(p) => p@.len(), ArrayBox::F32(p) => p@.len(),
			ArrayBox::Struct(s) => if s.values@.len() > 0 { s.values@[0].alen() } else { 0 },
			ArrayBox::List(l) => if l.offsets@.len() > 0 { (l.offsets@.len() - 1) as nat } else { 0 },
		}
	}
	// the invariants arrow2 establishes at construction (every array is valid by construction)
	pub open spec fn awf(self) -> bool decreases self {
		match self {
			ArrayBox::Struct(s) => {
				&&& dtv(s.data_type) is Struct
				&&& dtv(s.data_type)->Struct_0.len() == s.values@.len()
				&&& s.values@.len() > 0
				&&& forall|i: int| 0 <= i < s.values@.len() ==> (#[trigger] s.values@[i]).adt() == dtv(s.data_type)->Struct_0[i].dt
				&&& forall|i: int| 0 <= i < s.values@.len() ==> (#[trigger] s.values@[i]).alen() == s.values@[0].alen()
				&&& forall|i: int| 0 <= i < s.values@.len() ==> (#[trigger] s.values@[i]).awf()
				&&& (s.validity is Some ==> s.validity->Some_0@.len() == s.values@[0].alen())
			},
			ArrayBox::List(l) => {
				&&& dtv(l.data_type) is List
				&&& dtv(l.data_type)->List_0.dt == (*l.values).adt()
				&&& (*l.values).awf()
				&&& l.offsets@.len() >= 1
				&&& l.offsets@[l.offsets@.len() - 1] <= (*l.values).alen()
				&&& (l.validity is Some ==> l.validity->Some_0@.len() == l.offsets@.len() - 1)
			},
			_ => true,
		}
	}
	// a struct / list array has a struct / list data type (part of awf(), one level)
	pub open spec fn kind_ok(self) -> bool {
		(self is Struct ==> self.adt() is Struct) && (self is List ==> self.adt() is List)
	}
	#[verifier::external_body]
	pub fn as_any(&self) -> (r: AnyRef<'_>) ensures r.a == self { unimplemented!() }
}
impl StructArray {
	pub open spec fn wf(self) -> bool { ArrayBox::Struct(self).awf() }
	pub open spec fn rows(self) -> nat { ArrayBox::Struct(self).alen() }
	// StructArray::new = try_new(..).unwrap(): panics unless all of the below hold
	#[verifier::external_body]
	pub fn new(data_type: DataType, values: Vec<ArrayBox>, validity: Option<Bitmap>) -> (r: Self)
		requires
			dtv(data_type) is Struct,
			dtv(data_type)->Struct_0.len() > 0 /*[arrow2.StructArray.new.at_least_one_field]*/,
			dtv(data_type)->Struct_0.len() == values@.len() /*[arrow2.StructArray.new.field_count]*/,
			forall|i: int| 0 <= i < values@.len() ==> (#[trigger] values@[i]).adt() == dtv(data_type)->Struct_0[i].dt /*[arrow2.StructArray.new.child_types]*/,
			forall|i: int| 0 <= i < values@.len() ==> (#[trigger] values@[i]).alen() == values@[0].alen() /*[arrow2.StructArray.new.child_lengths]*/,
			forall|i: int| 0 <= i < values@.len() ==> (#[trigger] values@[i]).awf(),
			validity is Some ==> validity->Some_0@.len() == values@[0].alen() /*[arrow2.StructArray.new.validity_length]*/,
		ensures r.data_type == data_type, r.values == values, r.validity == validity, r.wf()
	{ unimplemented!() }
	// into_data: (fields of the data type, child arrays, validity)
	#[verifier::external_body]
	pub fn into_data(self) -> (r: (Vec<Field>, Vec<ArrayBox>, Option<Bitmap>))
		requires self.wf()
		ensures self.data_type == DataType::Struct(r.0), r.1 == self.values, r.2 == self.validity,
			// consequences of wf(), restated so that callers need not unfold the recursive definitions
			r.0@.len() == r.1@.len(), r.1@.len() > 0,
			forall|i: int| 0 <= i < r.0@.len() ==> fv(#[trigger] r.0@[i]) == dtv(self.data_type)->Struct_0[i],
			forall|i: int| 0 <= i < r.1@.len() ==> (#[trigger] r.1@[i]).awf() && r.1@[i].kind_ok()
				&& r.1@[i].adt() == dtv(self.data_type)->Struct_0[i].dt && r.1@[i].alen() == r.1@[0].alen(),
	{ unimplemented!() }
	#[verifier::external_body]
	pub fn boxed(self) -> (r: ArrayBox) ensures r == ArrayBox::Struct(self) { unimplemented!() }
	#[verifier::external_body]
	pub fn data_type(&self) -> (r: &DataType) ensures *r == self.data_type { unimplemented!() }
}
impl Clone for StructArray {
	#[verifier::external_body]
	fn clone(&self) -> (r: Self) ensures r == *self { unimplemented!() }
}
impl ListArray<i32> {
	pub open spec fn wf(self) -> bool { ArrayBox::List(self).awf() }
	// ListArray::new = try_new(..).unwrap()
	#[verifier::external_body]
	pub fn new(data_type: DataType, offsets: OffsetsBuffer<i32>, values: ArrayBox, validity: Option<Bitmap>) -> (r: Self)
		requires
			dtv(data_type) is List /*[arrow2.ListArray.new.list_type]*/,
			dtv(data_type)->List_0.dt == values.adt() /*[arrow2.ListArray.new.child_type]*/,
			values.awf(),
			offsets@.len() >= 1,
			offsets@[offsets@.len() - 1] <= values.alen() /*[arrow2.ListArray.new.offsets_bound]*/,
			validity is Some ==> validity->Some_0@.len() == offsets@.len() - 1,
		ensures r.data_type == data_type, r.offsets == offsets, *r.values == values, r.validity == validity, r.wf()
	{ unimplemented!() }
	#[verifier::external_body]
	pub fn offsets(&self) -> (r: &OffsetsBuffer<i32>) ensures *r == self.offsets { unimplemented!() }
	#[verifier::external_body]
	pub fn values(&self) -> (r: &ArrayBox) ensures *r == *self.values, self.wf() ==> (*r).awf() && (*r).kind_ok() { unimplemented!() }
	#[verifier::external_body]
	pub fn boxed(self) -> (r: ArrayBox) ensures r == ArrayBox::List(self) { unimplemented!() }
}
impl Clone for ListArray<i32> {
	#[verifier::external_body]
	fn clone(&self) -> (r: Self) ensures r == *self { unimplemented!() }
}

// `.as_any().downcast_ref::<T>()`: Some exactly when the boxed array is a T
pub struct AnyRef<'a> { pub a: &'a ArrayBox }
pub trait DowncastTo<T>: Sized { spec fn dspec(&self) -> Option<T>; }
impl<'a> DowncastTo<PrimitiveArray<i8>> for AnyRef<'a> {
	open spec fn dspec(&self) -> Option<PrimitiveArray<i8>> { match *self.a { ArrayBox::I8(p) => Some(p), _ => None } }
}
impl<'a> DowncastTo<PrimitiveArray<u8>> for AnyRef<'a> {
	open spec fn dspec(&self) -> Option<PrimitiveArray<u8>> { match *self.a { ArrayBox::U8(p) => Some(p), _ => None } }
}
impl<'a> DowncastTo<PrimitiveArray<i16>> for AnyRef<'a> {
	open spec fn dspec(&self) -> Option<PrimitiveArray<i16>> { match *self.a { ArrayBox::I16(p) => Some(p), _ => None } }
}
impl<'a> DowncastTo<PrimitiveArray<u16>> for AnyRef<'a> {
	open spec fn dspec(&self) -> Option<PrimitiveArray<u16>> { match *self.a { ArrayBox::U16(p) => Some(p), _ => None } }
}
impl<'a> DowncastTo<PrimitiveArray<i32>> for AnyRef<'a> {
	open spec fn dspec(&self) -> Option<PrimitiveArray<i32>> { match *self.a { ArrayBox::I32(p) => Some(p), _ => None } }
}
impl<'a> DowncastTo<PrimitiveArray<u32>> for AnyRef<'a> {
	open spec fn dspec(&self) -> Option<PrimitiveArray<u32>> { match *self.a { ArrayBox::U32(p) => Some(p), _ => None } }
}
impl<'a> DowncastTo<PrimitiveArray<f32>> for AnyRef<'a> {
	open spec fn dspec(&self) -> Option<PrimitiveArray<f32>> { match *self.a { ArrayBox::F32(p) => Some(p), _ => None } }
}
impl<'a> DowncastTo<StructArray> for AnyRef<'a> {
	open spec fn dspec(&self) -> Option<StructArray> { match *self.a { ArrayBox::Struct(p) => Some(p), _ => None } }
}
impl<'a> DowncastTo<ListArray<i32>> for AnyRef<'a> {
	open spec fn dspec(&self) -> Option<ListArray<i32>> { match *self.a { ArrayBox::List(p) => Some(p), _ => None } }
}
impl<'a> AnyRef<'a> {
	#[verifier::external_body]
	pub fn downcast_ref<T>(&self) -> (r: Option<&'a T>) where Self: DowncastTo<T>
		ensures (r is Some) == (self.dspec() is Some), r is Some ==> *r->Some_0 == self.dspec()->Some_0
	{ unimplemented!() }
}
impl PrimitiveArray<i8> {
	#[verifier::external_body]
	pub fn boxed(self) -> (r: ArrayBox) ensures r == ArrayBox::I8(self) { unimplemented!() }
}
impl Clone for PrimitiveArray<i8> {
	#[verifier::external_body]
	fn clone(&self) -> (r: Self) ensures r == *self { unimplemented!() }
}
impl PrimitiveArray<u8> {
	#[verifier::external_body]
	pub fn boxed(self) -> (r: ArrayBox) ensures r == ArrayBox::U8(self) { unimplemented!() }
}
impl Clone for PrimitiveArray<u8> {
	#[verifier::external_body]
	fn clone(&self) -> (r: Self) ensures r == *self { unimplemented!() }
}
impl PrimitiveArray<i16> {
	#[verifier::external_body]
	pub fn boxed(self) -> (r: ArrayBox) ensures r == ArrayBox::I16(self) { unimplemented!() }
}
impl Clone for PrimitiveArray<i16> {
	#[verifier::external_body]
	fn clone(&self) -> (r: Self) ensures r == *self { unimplemented!() }
}
impl PrimitiveArray<u16> {
	#[verifier::external_body]
	pub fn boxed(self) -> (r: ArrayBox) ensures r == ArrayBox::U16(self) { unimplemented!() }
}
impl Clone for PrimitiveArray<u16> {
	#[verifier::external_body]
	fn clone(&self) -> (r: Self) ensures r == *self { unimplemented!() }
}
impl PrimitiveArray<i32> {
	#[verifier::external_body]
	pub fn boxed(self) -> (r: ArrayBox) ensures r == ArrayBox::I32(self) { unimplemented!() }
}
impl Clone for PrimitiveArray<i32> {
	#[verifier::external_body]
	fn clone(&self) -> (r: Self) ensures r == *self { unimplemented!() }
}
impl PrimitiveArray<u32> {
	#[verifier::external_body]
	pub fn boxed(self) -> (r: ArrayBox) ensures r == ArrayBox::U32(self) { unimplemented!() }
}
impl Clone for PrimitiveArray<u32> {
	#[verifier::external_body]
	fn clone(&self) -> (r: Self) ensures r == *self { unimplemented!() }
}
impl PrimitiveArray<f32> {
	#[verifier::external_body]
	pub fn boxed(self) -> (r: ArrayBox) ensures r == ArrayBox::F32(self) { unimplemented!() }
}
impl Clone for PrimitiveArray<f32> {
	#[verifier::external_body]
	fn clone(&self) -> (r: Self) ensures r == *self { unimplemented!() }
}
// Vec<T>::into_iter() as used by std::iter::zip (rule R9z): yields the items in order, moving them out
pub struct VecIntoIter<T> { pub rem: Vec<T> }
#[verifier::external_body]
pub fn vec_into_iter<T>(v: Vec<T>) -> (r: VecIntoIter<T>) ensures r.rem@ == v@ { unimplemented!() }
impl<T> VecIntoIter<T> {
	#[verifier::external_body]
	pub fn next(&mut self) -> (r: Option<T>)
		ensures
			old(self).rem@.len() == 0 ==> r is None && final(self).rem@ == old(self).rem@,
			old(self).rem@.len() > 0 ==> r == Some(old(self).rem@[0]) && final(self).rem@ == old(self).rem@.subrange(1, old(self).rem@.len() as int),
	{ unimplemented!() }
}
} // mod shim_arrow_struct
pub use shim_arrow_struct::*;
