// ---- shim/arrow_conv.rs : assumed contracts for arrow2's Mutable* -> immutable conversions (value and validity preserving) ----
pub mod shim_arrow_conv {
use vstd::prelude::*;
use super::*;

impl<T: Copy> vstd::std_specs::convert::FromSpecImpl<MutablePrimitiveArray<T>> for PrimitiveArray<T> {
	open spec fn obeys_from_spec() -> bool { true }
	open spec fn from_spec(m: MutablePrimitiveArray<T>) -> PrimitiveArray<T> { PrimitiveArray { v: m.v, vals: m.vals } }
}
impl<T: Copy> From<MutablePrimitiveArray<T>> for PrimitiveArray<T> {
	#[verifier::external_body]
	fn from(m: MutablePrimitiveArray<T>) -> (r: PrimitiveArray<T>) { unimplemented!() }
}
impl vstd::std_specs::convert::FromSpecImpl<MutableBitmap> for Bitmap {
	open spec fn obeys_from_spec() -> bool { true }
	open spec fn from_spec(m: MutableBitmap) -> Bitmap { Bitmap { v: m.v } }
}
impl From<MutableBitmap> for Bitmap {
	#[verifier::external_body]
	fn from(m: MutableBitmap) -> (r: Bitmap) { unimplemented!() }
}
} // mod shim_arrow_conv
pub use shim_arrow_conv::*;
